// wwv-driver: rustc_private fact extractor for white-whale-core.
//
// Invoked by cargo as RUSTC_WRAPPER: argv = [driver, <rustc path>, <rustc args...>].
// For crates whose name is listed in $WWV_CRATES (comma separated) it runs the compiler,
// and after analysis dumps one JSON file with the MIR of every body into $WWV_OUT.
// For every other crate it just runs the compiler unchanged.
#![feature(rustc_private)]
#![allow(clippy::all)]

extern crate rustc_abi;
extern crate rustc_driver;
extern crate rustc_hir;
extern crate rustc_interface;
extern crate rustc_middle;
extern crate rustc_span;

use rustc_driver::Compilation;
use rustc_hir::def::DefKind;
use rustc_hir::def_id::{DefId, LOCAL_CRATE};
use rustc_interface::interface::Compiler;
use rustc_middle::mir::{
    self, AggregateKind, BasicBlockData, Body, Const, ConstValue, Operand, Place, PlaceElem,
    Rvalue, StatementKind, TerminatorKind,
};
use rustc_middle::ty::print::{with_crate_prefix, with_no_trimmed_paths};
use rustc_middle::ty::{self, Instance, Ty, TyCtxt, TypingEnv};
use rustc_span::Span;
use std::fmt::Write as _;

struct Cb {
    out_dir: String,
    tag: String,
}

fn esc(s: &str, out: &mut String) {
    out.push('"');
    for c in s.chars() {
        match c {
            '"' => out.push_str("\\\""),
            '\\' => out.push_str("\\\\"),
            '\n' => out.push_str("\\n"),
            '\r' => out.push_str("\\r"),
            '\t' => out.push_str("\\t"),
            c if (c as u32) < 0x20 => {
                let _ = write!(out, "\\u{:04x}", c as u32);
            }
            c => out.push(c),
        }
    }
    out.push('"');
}

struct Ctx<'tcx> {
    tcx: TyCtxt<'tcx>,
    krate: String,
}

trait HasParamLocal {
    fn has_non_region_param_local(&self) -> bool;
}
impl<'tcx> HasParamLocal for ty::GenericArgsRef<'tcx> {
    fn has_non_region_param_local(&self) -> bool {
        use rustc_middle::ty::TypeVisitableExt;
        self.has_non_region_param()
    }
}

impl<'tcx> Ctx<'tcx> {
    fn fix(&self, s: String) -> String {
        s.replace("crate::", &format!("{}::", self.krate))
    }
    fn dp(&self, did: DefId) -> String {
        let s = with_no_trimmed_paths!(with_crate_prefix!(self.tcx.def_path_str(did)));
        self.fix(s)
    }
    fn dpa(&self, did: DefId, args: ty::GenericArgsRef<'tcx>) -> String {
        let s = with_no_trimmed_paths!(with_crate_prefix!(
            self.tcx.def_path_str_with_args(did, args)
        ));
        self.fix(s)
    }
    fn ty(&self, t: Ty<'tcx>) -> String {
        let s = with_no_trimmed_paths!(with_crate_prefix!(format!("{}", t)));
        self.fix(s)
    }
    fn line(&self, sp: Span) -> (String, usize) {
        let sp = sp.source_callsite();
        let sm = self.tcx.sess.source_map();
        let loc = sm.lookup_char_pos(sp.lo());
        let f = match &loc.file.name {
            rustc_span::FileName::Real(r) => match r.local_path() {
                Some(p) => p.to_string_lossy().to_string(),
                None => format!("{:?}", r),
            },
            other => format!("{:?}", other),
        };
        (f, loc.line)
    }

    fn place(&self, body: &Body<'tcx>, p: &Place<'tcx>, o: &mut String) {
        let _ = write!(o, "{{\"l\":{},\"p\":[", p.local.as_usize());
        let mut pty = mir::PlaceTy::from_ty(body.local_decls[p.local].ty);
        let mut first = true;
        for elem in p.projection.iter() {
            if !first {
                o.push(',');
            }
            first = false;
            match elem {
                PlaceElem::Deref => o.push_str("\"*\""),
                PlaceElem::Field(f, _) => {
                    let mut name = String::new();
                    match pty.ty.kind() {
                        ty::Adt(adt, _) => {
                            let v = match pty.variant_index {
                                Some(v) => Some(v),
                                None => {
                                    if adt.is_enum() {
                                        None
                                    } else {
                                        Some(rustc_abi::FIRST_VARIANT)
                                    }
                                }
                            };
                            if let Some(v) = v {
                                let vd = adt.variant(v);
                                if f.as_usize() < vd.fields.len() {
                                    name = vd.fields[f].name.to_string();
                                }
                            }
                        }
                        _ => {}
                    }
                    let _ = write!(o, "{{\"f\":{},\"n\":", f.as_usize());
                    esc(&name, o);
                    o.push('}');
                }
                PlaceElem::Downcast(sym, v) => {
                    let n = match sym {
                        Some(s) => s.to_string(),
                        None => format!("#{}", v.as_usize()),
                    };
                    o.push_str("{\"d\":");
                    esc(&n, o);
                    o.push('}');
                }
                PlaceElem::Index(l) => {
                    let _ = write!(o, "{{\"i\":{}}}", l.as_usize());
                }
                PlaceElem::ConstantIndex { offset, from_end, .. } => {
                    let _ = write!(o, "{{\"ci\":{},\"e\":{}}}", offset, from_end);
                }
                PlaceElem::Subslice { .. } => o.push_str("\"sub\""),
                _ => o.push_str("\"?\""),
            }
            pty = pty.projection_ty(self.tcx, elem);
        }
        o.push_str("]}");
    }

    fn konst(&self, body: &Body<'tcx>, c: &Const<'tcx>, o: &mut String) {
        let tcx = self.tcx;
        let tenv = TypingEnv::post_analysis(tcx, body.source.def_id());
        let tys = self.ty(c.ty());
        o.push_str("{\"k\":\"const\",\"ty\":");
        esc(&tys, o);
        match c {
            Const::Unevaluated(u, _) => {
                if let Some(p) = u.promoted {
                    let _ = write!(o, ",\"promoted\":{}", p.as_usize());
                } else {
                    o.push_str(",\"item\":");
                    esc(&self.dp(u.def), o);
                    if c.ty().is_integral() || c.ty().is_bool() {
                        if let Some(si) = c.try_eval_scalar_int(tcx, tenv) {
                            let _ = write!(o, ",\"val\":\"{}\"", si.to_bits_unchecked());
                        }
                    } else if let ty::Adt(adt, _) = c.ty().kind() {
                        // newtype wrappers around an integer (Uint128, Uint64, Decimal...) have scalar
                        // layout: emit the raw scalar
                        if adt.is_struct() && !u.args.has_non_region_param_local() {
                            if let Ok(ConstValue::Scalar(sc)) = c.eval(tcx, tenv, rustc_span::DUMMY_SP) {
                                if let Ok(si) = sc.try_to_scalar_int() {
                                    let _ = write!(o, ",\"val\":\"{}\"", si.to_bits_unchecked());
                                }
                            }
                        }
                    }
                }
            }
            Const::Val(v, t) => match v {
                ConstValue::ZeroSized => {
                    if let ty::FnDef(did, args) = t.kind() {
                        o.push_str(",\"fn\":");
                        esc(&self.dp(*did), o);
                        o.push_str(",\"fnargs\":");
                        esc(&self.dpa(*did, args), o);
                    } else {
                        o.push_str(",\"zst\":true");
                    }
                }
                ConstValue::Scalar(s) => {
                    if let Ok(si) = s.try_to_scalar_int() {
                        let _ = write!(o, ",\"val\":\"{}\"", si.to_bits_unchecked());
                    }
                }
                ConstValue::Slice { .. } | ConstValue::Indirect { .. } => {
                    let is_str = match t.kind() {
                        ty::Ref(_, inner, _) => inner.is_str(),
                        _ => false,
                    };
                    if is_str {
                        if let Some(b) = v.try_get_slice_bytes_for_diagnostics(tcx) {
                            o.push_str(",\"str\":");
                            esc(&String::from_utf8_lossy(b), o);
                        }
                    }
                }
            },
            Const::Ty(_, tc) => {
                if let Some(si) = tc.try_to_scalar() {
                    if let Ok(si) = si.try_to_scalar_int() {
                        let _ = write!(o, ",\"val\":\"{}\"", si.to_bits_unchecked());
                    }
                }
            }
        }
        o.push('}');
    }

    fn operand(&self, body: &Body<'tcx>, op: &Operand<'tcx>, o: &mut String) {
        match op {
            Operand::Copy(p) => {
                o.push_str("{\"k\":\"copy\",\"pl\":");
                self.place(body, p, o);
                o.push('}');
            }
            Operand::Move(p) => {
                o.push_str("{\"k\":\"move\",\"pl\":");
                self.place(body, p, o);
                o.push('}');
            }
            Operand::Constant(c) => self.konst(body, &c.const_, o),
            #[allow(unreachable_patterns)]
            _ => o.push_str("{\"k\":\"other\"}"),
        }
    }

    fn rvalue(&self, body: &Body<'tcx>, rv: &Rvalue<'tcx>, o: &mut String) {
        let tcx = self.tcx;
        match rv {
            Rvalue::Use(op, ..) => {
                o.push_str("{\"r\":\"use\",\"op\":");
                self.operand(body, op, o);
                o.push('}');
            }
            Rvalue::Ref(_, bk, p) => {
                let m = matches!(bk, mir::BorrowKind::Mut { .. });
                let _ = write!(o, "{{\"r\":\"ref\",\"mut\":{},\"pl\":", m);
                self.place(body, p, o);
                o.push('}');
            }
            Rvalue::RawPtr(_, p) => {
                o.push_str("{\"r\":\"ref\",\"raw\":true,\"pl\":");
                self.place(body, p, o);
                o.push('}');
            }
            Rvalue::CopyForDeref(p) => {
                o.push_str("{\"r\":\"use\",\"op\":{\"k\":\"copy\",\"pl\":");
                self.place(body, p, o);
                o.push_str("}}");
            }
            Rvalue::Cast(kind, op, t) => {
                o.push_str("{\"r\":\"cast\",\"kind\":");
                esc(&format!("{:?}", kind), o);
                o.push_str(",\"ty\":");
                esc(&self.ty(*t), o);
                o.push_str(",\"op\":");
                self.operand(body, op, o);
                o.push('}');
            }
            Rvalue::BinaryOp(bop, ab) => {
                o.push_str("{\"r\":\"bin\",\"op\":");
                esc(&format!("{:?}", bop), o);
                o.push_str(",\"a\":");
                self.operand(body, &ab.0, o);
                o.push_str(",\"b\":");
                self.operand(body, &ab.1, o);
                o.push('}');
            }
            Rvalue::UnaryOp(uop, a) => {
                o.push_str("{\"r\":\"un\",\"op\":");
                esc(&format!("{:?}", uop), o);
                o.push_str(",\"a\":");
                self.operand(body, a, o);
                o.push('}');
            }
            Rvalue::Discriminant(p) => {
                o.push_str("{\"r\":\"discr\",\"pl\":");
                self.place(body, p, o);
                let pty = p.ty(&body.local_decls, tcx).ty;
                if let ty::Adt(adt, _) = pty.kind() {
                    if adt.is_enum() {
                        o.push_str(",\"enum\":");
                        esc(&self.dp(adt.did()), o);
                        o.push_str(",\"variants\":{");
                        let mut first = true;
                        for (vi, d) in adt.discriminants(tcx) {
                            if !first {
                                o.push(',');
                            }
                            first = false;
                            let _ = write!(o, "\"{}\":", d.val);
                            esc(&adt.variant(vi).name.to_string(), o);
                        }
                        o.push('}');
                    }
                }
                o.push('}');
            }
            Rvalue::Aggregate(kind, ops) => {
                o.push_str("{\"r\":\"agg\"");
                match &**kind {
                    AggregateKind::Adt(did, vi, _, _, _) => {
                        let adt = tcx.adt_def(*did);
                        let vd = adt.variant(*vi);
                        o.push_str(",\"adt\":");
                        esc(&self.dp(*did), o);
                        o.push_str(",\"variant\":");
                        esc(&vd.name.to_string(), o);
                        o.push_str(",\"fields\":[");
                        let mut first = true;
                        for f in vd.fields.iter() {
                            if !first {
                                o.push(',');
                            }
                            first = false;
                            esc(&f.name.to_string(), o);
                        }
                        o.push(']');
                    }
                    AggregateKind::Closure(did, _) => {
                        o.push_str(",\"closure\":");
                        esc(&self.dp(*did), o);
                    }
                    AggregateKind::Tuple => o.push_str(",\"tuple\":true"),
                    AggregateKind::Array(_) => o.push_str(",\"array\":true"),
                    _ => o.push_str(",\"otheragg\":true"),
                }
                o.push_str(",\"ops\":[");
                let mut first = true;
                for op in ops.iter() {
                    if !first {
                        o.push(',');
                    }
                    first = false;
                    self.operand(body, op, o);
                }
                o.push_str("]}");
            }
            Rvalue::Repeat(op, _) => {
                o.push_str("{\"r\":\"repeat\",\"op\":");
                self.operand(body, op, o);
                o.push('}');
            }
            other => {
                o.push_str("{\"r\":\"other\",\"dbg\":");
                let s = format!("{:?}", other);
                let s: String = s.chars().take(80).collect();
                esc(&s, o);
                o.push('}');
            }
        }
    }

    fn block(&self, body: &Body<'tcx>, bb: &BasicBlockData<'tcx>, o: &mut String) {
        let tcx = self.tcx;
        if bb.is_cleanup {
            o.push_str("{\"cleanup\":true}");
            return;
        }
        let _ = write!(o, "{{\"cleanup\":{},\"s\":[", bb.is_cleanup);
        let mut first = true;
        for st in bb.statements.iter() {
            if let StatementKind::Assign(b) = &st.kind {
                if !first {
                    o.push(',');
                }
                first = false;
                let (_, ln) = self.line(st.source_info.span);
                let _ = write!(o, "{{\"ln\":{},\"lhs\":", ln);
                self.place(body, &b.0, o);
                o.push_str(",\"rv\":");
                self.rvalue(body, &b.1, o);
                o.push('}');
            }
        }
        o.push_str("],\"t\":");
        let term = bb.terminator();
        let (_, ln) = self.line(term.source_info.span);
        let exp = term.source_info.span.from_expansion();
        let _ = write!(o, "{{\"ln\":{},\"exp\":{},", ln, exp);
        match &term.kind {
            TerminatorKind::Goto { target } => {
                let _ = write!(o, "\"k\":\"goto\",\"target\":{}", target.as_usize());
            }
            TerminatorKind::SwitchInt { discr, targets } => {
                o.push_str("\"k\":\"switch\",\"discr\":");
                self.operand(body, discr, o);
                o.push_str(",\"targets\":[");
                let mut first = true;
                for (v, t) in targets.iter() {
                    if !first {
                        o.push(',');
                    }
                    first = false;
                    let _ = write!(o, "[\"{}\",{}]", v, t.as_usize());
                }
                let _ = write!(o, "],\"otherwise\":{}", targets.otherwise().as_usize());
            }
            TerminatorKind::Return => o.push_str("\"k\":\"return\""),
            TerminatorKind::Unreachable => o.push_str("\"k\":\"unreachable\""),
            TerminatorKind::UnwindResume => o.push_str("\"k\":\"resume\""),
            TerminatorKind::Drop { place, target, .. } => {
                o.push_str("\"k\":\"drop\",\"pl\":");
                self.place(body, place, o);
                let _ = write!(o, ",\"target\":{}", target.as_usize());
            }
            TerminatorKind::Assert { cond, expected, msg, target, .. } => {
                o.push_str("\"k\":\"assert\",\"cond\":");
                self.operand(body, cond, o);
                let m: String = format!("{:?}", msg).chars().take(60).collect();
                let _ = write!(o, ",\"expected\":{},\"target\":{},\"msg\":", expected, target.as_usize());
                esc(&m, o);
            }
            TerminatorKind::Call { func, args, destination, target, .. } => {
                o.push_str("\"k\":\"call\"");
                let fty = func.ty(&body.local_decls, tcx);
                match fty.kind() {
                    ty::FnDef(did, gargs) => {
                        o.push_str(",\"callee\":");
                        esc(&self.dp(*did), o);
                        o.push_str(",\"callee_full\":");
                        esc(&self.dpa(*did, gargs), o);
                        let tenv = TypingEnv::post_analysis(tcx, body.source.def_id());
                        if let Ok(Some(inst)) = Instance::try_resolve(tcx, tenv, *did, gargs) {
                            let rd = inst.def_id();
                            if rd != *did {
                                o.push_str(",\"resolved\":");
                                esc(&self.dp(rd), o);
                            }
                        }
                    }
                    _ => {
                        o.push_str(",\"callee_op\":");
                        self.operand(body, func, o);
                    }
                }
                o.push_str(",\"args\":[");
                let mut first = true;
                for a in args.iter() {
                    if !first {
                        o.push(',');
                    }
                    first = false;
                    self.operand(body, &a.node, o);
                }
                o.push_str("],\"dest\":");
                self.place(body, destination, o);
                match target {
                    Some(t) => {
                        let _ = write!(o, ",\"target\":{}", t.as_usize());
                    }
                    None => o.push_str(",\"target\":null"),
                }
            }
            TerminatorKind::FalseEdge { real_target, .. } => {
                let _ = write!(o, "\"k\":\"goto\",\"target\":{}", real_target.as_usize());
            }
            TerminatorKind::FalseUnwind { real_target, .. } => {
                let _ = write!(o, "\"k\":\"goto\",\"target\":{}", real_target.as_usize());
            }
            other => {
                o.push_str("\"k\":\"other\",\"dbg\":");
                let s: String = format!("{:?}", other).chars().take(80).collect();
                esc(&s, o);
            }
        }
        o.push_str("}}");
    }

    fn body(&self, body: &Body<'tcx>, o: &mut String) {
        let _ = write!(o, "{{\"argc\":{},\"locals\":[", body.arg_count);
        let mut first = true;
        for (_, d) in body.local_decls.iter_enumerated() {
            if !first {
                o.push(',');
            }
            first = false;
            esc(&self.ty(d.ty), o);
        }
        // field names of struct-typed arguments (request / message structs)
        o.push_str("],\"argfields\":{");
        let mut first = true;
        for (l, d) in body.local_decls.iter_enumerated() {
            if l.as_usize() == 0 || l.as_usize() > body.arg_count {
                continue;
            }
            if let ty::Adt(adt, _) = d.ty.peel_refs().kind() {
                if adt.is_struct() {
                    if !first {
                        o.push(',');
                    }
                    first = false;
                    let _ = write!(o, "\"{}\":[", l.as_usize());
                    let mut f1 = true;
                    for f in adt.non_enum_variant().fields.iter() {
                        if !f1 {
                            o.push(',');
                        }
                        f1 = false;
                        esc(&f.name.to_string(), o);
                    }
                    o.push(']');
                }
            }
        }
        o.push_str("},\"vars\":[");
        let mut first = true;
        for v in body.var_debug_info.iter() {
            if let mir::VarDebugInfoContents::Place(p) = &v.value {
                if !first {
                    o.push(',');
                }
                first = false;
                o.push_str("{\"name\":");
                esc(&v.name.to_string(), o);
                o.push_str(",\"pl\":");
                self.place(body, p, o);
                o.push('}');
            }
        }
        o.push_str("],\"blocks\":[");
        let mut first = true;
        for (_, bb) in body.basic_blocks.iter_enumerated() {
            if !first {
                o.push(',');
            }
            first = false;
            self.block(body, bb, o);
        }
        o.push_str("]}");
    }
}

impl rustc_driver::Callbacks for Cb {
    fn after_analysis<'tcx>(&mut self, _c: &Compiler, tcx: TyCtxt<'tcx>) -> Compilation {
        let krate = tcx.crate_name(LOCAL_CRATE).to_string();
        let cx = Ctx { tcx, krate: krate.clone() };
        let mut o = String::with_capacity(1 << 22);
        o.push_str("{\"crate\":");
        esc(&krate, &mut o);
        o.push_str(",\"tag\":");
        esc(&self.tag, &mut o);
        let mut root = String::new();
        o.push_str(",\"fns\":[");
        let mut first = true;
        let mut n = 0usize;
        for did in tcx.hir_body_owners() {
            let kind = tcx.def_kind(did);
            let kname = match kind {
                DefKind::Fn => "fn",
                DefKind::AssocFn => "assoc",
                DefKind::Closure => "closure",
                _ => continue,
            };
            let def_id = did.to_def_id();
            // const fns are fine; skip things without optimized MIR
            if !tcx.is_mir_available(def_id) {
                continue;
            }
            let body = tcx.optimized_mir(def_id);
            if !first {
                o.push(',');
            }
            first = false;
            n += 1;
            let sp = tcx.def_span(def_id);
            let (file, line) = cx.line(body.span);
            let sm = tcx.sess.source_map();
            let hi = sm.lookup_char_pos(body.span.source_callsite().hi()).line;
            if root.is_empty() && !sp.from_expansion() {
                root = file.clone();
            }
            o.push_str("{\"path\":");
            esc(&cx.dp(def_id), &mut o);
            let _ = write!(o, ",\"kind\":\"{}\",\"expn\":{},\"file\":", kname, sp.from_expansion());
            esc(&file, &mut o);
            let _ = write!(o, ",\"line\":{},\"line_hi\":{}", line, hi);
            if kind == DefKind::Closure {
                let parent = tcx.typeck_root_def_id(def_id);
                o.push_str(",\"parent\":");
                esc(&cx.dp(parent), &mut o);
            }
            if sp.from_expansion() && std::env::var("WWV_EXPN").is_err() {
                o.push('}');
                continue;
            }
            o.push_str(",\"ret\":");
            esc(&cx.ty(body.return_ty()), &mut o);
            o.push_str(",\"body\":");
            cx.body(body, &mut o);
            o.push_str(",\"promoted\":[");
            let proms = tcx.promoted_mir(def_id);
            let mut pf = true;
            for pb in proms.iter() {
                if !pf {
                    o.push(',');
                }
                pf = false;
                cx.body(pb, &mut o);
            }
            o.push_str("]}");
        }
        o.push_str("],\"root_file\":");
        esc(&root, &mut o);
        let _ = write!(o, ",\"nfns\":{}}}", n);
        let fname = format!("{}/{}-{}.json", self.out_dir, krate, self.tag);
        let tmp = format!("{}.tmp{}", fname, std::process::id());
        std::fs::write(&tmp, o.as_bytes()).expect("write facts");
        std::fs::rename(&tmp, &fname).expect("rename facts");
        Compilation::Continue
    }
}

struct NoCb;
impl rustc_driver::Callbacks for NoCb {}

fn main() {
    let mut args: Vec<String> = std::env::args().collect();
    // RUSTC_WRAPPER: argv[1] is the path of the real rustc.
    if args.len() > 1 && (args[1].ends_with("rustc") || args[1].contains("/rustc")) {
        args.remove(1);
    }
    let want: Vec<String> = std::env::var("WWV_CRATES")
        .unwrap_or_default()
        .split(',')
        .map(|s| s.trim().to_string())
        .filter(|s| !s.is_empty())
        .collect();
    let out_dir = std::env::var("WWV_OUT").unwrap_or_default();
    let mut crate_name = String::new();
    let mut meta = String::new();
    let mut is_lib = false;
    let mut i = 0;
    while i < args.len() {
        if args[i] == "--crate-name" && i + 1 < args.len() {
            crate_name = args[i + 1].clone();
        }
        if args[i] == "--crate-type" && i + 1 < args.len() {
            let t = &args[i + 1];
            if t.contains("lib") {
                is_lib = true;
            }
        }
        if args[i] == "-C" && i + 1 < args.len() {
            if let Some(m) = args[i + 1].strip_prefix("metadata=") {
                meta = m.to_string();
            }
        }
        if let Some(m) = args[i].strip_prefix("-Cmetadata=") {
            meta = m.to_string();
        }
        i += 1;
    }
    let analyse = !out_dir.is_empty()
        && is_lib
        && !crate_name.is_empty()
        && (want.iter().any(|w| *w == crate_name) || want.iter().any(|w| w == "*"));
    if analyse {
        let mut cb = Cb { out_dir, tag: meta };
        rustc_driver::run_compiler(&args, &mut cb);
    } else {
        rustc_driver::run_compiler(&args, &mut NoCb);
    }
}
