"""G2 (ordering-domain truth tables) and field-source tracing for validated stores."""
import itertools, re
from collections import deque
from .facts import mname, term_callee, pl_str, op_str
from .mir import (FnView, Origin, switch_conds, cmp_true_false_edges, resolve_bool, storage_call,
                  _TRANSPARENT_RE, TRANSPARENT_ARG1, PAYLOAD_VARIANTS)

# ---------------------------------------------------------------------------------------
# field sources


class Source:
    """Where the value of a tracked field comes from."""
    __slots__ = ("kind", "block", "idx", "operand", "detail")

    def __init__(self, kind, block, idx, operand=None, detail=None):
        self.kind = kind        # 'assign' | 'partial' | 'agg' | 'load' | 'call' | 'param' | 'const'
        self.block = block
        self.idx = idx
        self.operand = operand  # rhs operand (for assign/agg) or None
        self.detail = detail

    def __repr__(self):
        return "%s@bb%s:%s(%s)" % (self.kind, self.block, self.idx, self.detail or (op_str(self.operand) if self.operand else ""))


def field_sources(view, operand, proj, at):
    """Trace where `operand`.`proj` (a named-field path, non-empty) gets its value: every assignment to
    that field (or to a sub-field of it), every aggregate that sets it, every load / call / param that
    provides the enclosing value."""
    out = []
    seen = set()

    def visit_local(l, p, at_):
        key = (l, p, at_)
        if key in seen:
            return
        seen.add(key)
        if 1 <= l <= view.argc:
            out.append(Source("param", None, None, None, "param(%d).%s" % (l, ".".join(p))))
        for d in view.defs().get(l, []):
            if d[0] == "s":
                b, i, s = d[1], d[2], d[3]
                if not (view.def_reaches(b, i, at_) and view.def_reaches_killing(l, b, i, at_, p, fields_only=True)):
                    continue      # overwritten on every path to the use (e.g. a default that is always re-assigned)
                F = tuple(view._named_fields(s["lhs"]["p"]))
                n = min(len(F), len(p))
                if F[:n] != p[:n]:
                    continue
                if len(F) == len(p):
                    # exact assignment of the tracked field (or whole value when p is empty)
                    if p and F:
                        out.append(Source("assign", b, i, _rv_operand(s["rv"]), "%s = %s" % (pl_str(s["lhs"]), _rv_short(s["rv"]))))
                        continue
                    visit_rv(s["rv"], (), b, i)
                elif len(F) > len(p):
                    out.append(Source("partial", b, i, _rv_operand(s["rv"]), "%s = %s" % (pl_str(s["lhs"]), _rv_short(s["rv"]))))
                else:
                    visit_rv(s["rv"], p[len(F):], b, i)
            else:
                b, t = d[1], d[2]
                if not view.def_reaches(b, len(view.blocks[b]["s"]), at_):
                    continue
                F = tuple(view._named_fields(t["dest"]["p"]))
                n = min(len(F), len(p))
                if F[:n] != p[:n]:
                    continue
                rest = p[len(F):] if len(F) <= len(p) else ()
                visit_call(t, rest, b)

    def visit_rv(rv, p, b, i):
        k = rv["r"]
        at_ = (b, i)
        if k in ("use", "cast"):
            o = rv["op"]
            if o["k"] == "const":
                out.append(Source("const", b, i, o))
            else:
                visit_pl(o["pl"], p, at_)
        elif k == "ref":
            visit_pl(rv["pl"], p, at_)
        elif k == "agg":
            if "adt" in rv:
                if not p:
                    if rv["variant"] in PAYLOAD_VARIANTS and len(rv["ops"]) == 1:
                        visit_op(rv["ops"][0], p, at_)
                    else:
                        out.append(Source("agg", b, i, None, "%s::%s" % (rv["adt"], rv["variant"])))
                    return
                head = p[0]
                if head.startswith("#"):
                    if head[1:] == rv["variant"]:
                        visit_rv(rv, p[1:], b, i)
                    return
                for n, o in zip(rv["fields"], rv["ops"]):
                    if n == head:
                        if len(p) == 1:
                            if not expand_field_variable(o, head, at_):
                                out.append(Source("agg", b, i, o, "%s::%s{%s: %s}" % (rv["adt"].split("::")[-1], rv["variant"], n, op_str(o))))
                        else:
                            visit_op(o, p[1:], at_)
            else:
                for o in rv["ops"]:
                    visit_op(o, p[1:] if (p and (p[0].startswith("[") or p[0].isdigit())) else p, at_)
        else:
            out.append(Source("const", b, i, None, _rv_short(rv)))

    def expand_field_variable(o, field, at_):
        """`let Config { owner: mut new_owner, .. } = stored; if .. { new_owner = x } ..; Config { owner: new_owner, .. }`:
        the struct is rebuilt from one local per field. Each re-assignment of such a local is an assignment of the field;
        its initial value (the same field of the loaded struct) is the unchanged stored value. True if expanded."""
        if o["k"] not in ("copy", "move") or o["pl"]["p"]:
            return False
        l = o["pl"]["l"]
        ds = view.defs().get(l, [])
        for _ in range(4):      # the temporary the aggregate reads is a copy of the variable
            if len(ds) == 1 and ds[0][0] == "s" and not ds[0][3]["lhs"]["p"] and ds[0][3]["rv"]["r"] == "use" \
                    and ds[0][3]["rv"]["op"]["k"] in ("copy", "move") and not ds[0][3]["rv"]["op"]["pl"]["p"]:
                at_ = (ds[0][1], ds[0][2])
                l = ds[0][3]["rv"]["op"]["pl"]["l"]
                ds = view.defs().get(l, [])
            else:
                break
        if len(ds) < 2 or any(d[0] == "s" and d[3]["lhs"]["p"] for d in ds) or any(d[0] != "s" and d[2]["dest"]["p"] for d in ds):
            return False
        identity = []
        for d in ds:
            if d[0] != "s":
                continue
            os_ = view.origins_of_operand(_rv_operand(d[3]["rv"]), at=(d[1], d[2])) if _rv_operand(d[3]["rv"]) else set()
            if os_ and all(x.kind in ("load", "param") and x.proj and x.proj[-1] == field for x in os_) and any(x.kind == "load" for x in os_):
                identity.append(d)
        if len(identity) != 1:
            return False
        for d in ds:
            if d[0] == "s":
                db, di = d[1], d[2]
                if not view.def_reaches_killing(l, db, di, at_, ()):
                    continue
                if d in identity:
                    visit_rv(d[3]["rv"], (), db, di)
                else:
                    out.append(Source("assign", db, di, _rv_operand(d[3]["rv"]), "%s = %s" % (pl_str(d[3]["lhs"]), _rv_short(d[3]["rv"]))))
            else:
                db, t_ = d[1], d[2]
                if not view.def_reaches_killing(l, db, len(view.blocks[db]["s"]), at_, ()) or t_.get("target") is None:
                    continue
                out.append(Source("assign", t_["target"], 0, {"k": "copy", "pl": {"l": l, "p": []}}, "%s = %s(..)" % (pl_str(t_["dest"]), mname(t_))))
        return True

    def visit_op(o, p, at_):
        if o["k"] in ("copy", "move"):
            visit_pl(o["pl"], p, at_)

    def visit_pl(pl, p, at_):
        visit_local(pl["l"], tuple(view._named_fields(pl["p"])) + tuple(p), at_)

    def visit_call(t, p, b):
        callee = mname(t)
        at_ = view.at_term(b)
        sc = storage_call(t)
        if sc and sc[1] in ("load", "may_load", "update", "query"):
            items = view.storage_item_of_call(t, at_)
            out.append(Source("load", b, None, None, ",".join(sorted(repr(o) for o in items)) + "." + ".".join(p)))
            return
        if callee.endswith("::from_residual"):
            return
        if _TRANSPARENT_RE.search(callee) and t["args"]:
            visit_op(t["args"][0], p, at_)
            return
        if TRANSPARENT_ARG1.search(callee) and len(t["args"]) > 1:
            visit_op(t["args"][1], p, at_)
            return
        out.append(Source("call", b, None, None, callee))

    if operand["k"] == "const":
        return [Source("const", None, None, operand)]
    visit_pl(operand["pl"], tuple(proj), at)
    return out


def _rv_operand(rv):
    if rv["r"] in ("use", "cast", "repeat"):
        return rv["op"]
    return None


def _rv_short(rv):
    from .facts import rv_str
    s = rv_str(rv)
    return s if len(s) < 120 else s[:117] + "..."


# ---------------------------------------------------------------------------------------
# G2: truth tables over the ordering domain

REGIONS = ("<", "=", ">")


def cmp_truth(op, region):
    """Truth of `X op K` when X `region` K."""
    return {
        "<": region == "<", "<=": region in ("<", "="), ">": region == ">", ">=": region in (">", "="),
        "==": region == "=", "!=": region != "=",
    }[op]


FLIP = {"<": ">", ">": "<", "<=": ">=", ">=": "<=", "==": "==", "!=": "!="}


def region_walk(view, decide, start=0, cut_edges=()):
    """Blocks reachable from `start` when each switch whose condition `decide(block, cond)` resolves
    to True/False follows only that edge; undecided switches follow every edge."""
    conds = {b: c for b, c, _ in switch_conds(view)}
    seen = {start}
    dq = deque([start])
    while dq:
        b = dq.popleft()
        succs = view.succs(b)
        c = conds.get(b)
        if c is not None and c.kind == "const" and getattr(c, "val", None) is not None and view.blocks[b]["t"]["k"] == "switch":
            # the branch reads a constant on this path (a duplicated merge block behind `flag = true`)
            truth = str(c.val) in ("1", "true")
            t_ = view.blocks[b]["t"]
            false_t = [tgt for val, tgt in t_["targets"] if str(val) == "0"]
            succs = [s_ for s_ in succs if (s_ in false_t) != truth]
        elif c is not None and c.kind in ("cmp", "call", "place"):
            r = decide(b, c)
            if r is not None:
                te, fe = cmp_true_false_edges(view, b, c)
                succs = [e[1] for e in (te if r else fe)]
        for s in succs:
            if s not in seen and (b, s) not in cut_edges:
                seen.add(s)
                dq.append(s)
    return seen


def reach_respecting_consts(view, start):
    """Blocks reachable from `start` when a branch on a value that is a known constant on its path follows that constant."""
    return region_walk(view, lambda b, c: None, start=start)


def consistent_reach(view, cut_edges=(), start=0):
    """Reachability in which a bool temporary set from constants (`matches!(x, V)`, `let ok = if .. {true} else {false}`)
    keeps its value: a switch on such a local follows only the edge of the one constant its reachable definitions
    assign. Iterated to a fixed point. Returns (reachable blocks, cut edges)."""
    cut = set(cut_edges)
    conds = list(switch_conds(view))
    for _ in range(6):
        reach = view.reachable(start, cut_edges=cut)
        changed = False
        for b, c, _e in conds:
            if b not in reach or c.kind not in ("place", "const") or getattr(c, "pl", None) is None or c.pl["p"]:
                continue
            l = c.pl["l"]
            ds = view.defs().get(l, [])
            if not ds or not all(d[0] == "s" and d[3]["rv"]["r"] == "use" and d[3]["rv"]["op"]["k"] == "const" for d in ds):
                continue
            vals = {str(d[3]["rv"]["op"].get("val")) in ("1", "true") for d in ds if d[1] in reach}
            if len(vals) != 1:
                continue
            truth = next(iter(vals)) != bool(getattr(c, "neg", False))
            t = view.blocks[b]["t"]
            if t["k"] != "switch":
                continue
            # switchInt(bool): target of value 0 is the false edge, everything else the true edge
            false_t = [tgt for val, tgt in t["targets"] if str(val) == "0"]
            keep = set()
            for (_, tgt) in view.edges_from(b):
                is_false = tgt in false_t
                # `neg` is already folded into `truth` relative to the raw local value: undo it to pick the raw edge
                raw = next(iter(vals))
                if is_false != raw:
                    keep.add(tgt)
            for (_, tgt) in view.edges_from(b):
                if tgt not in keep and (b, tgt) not in cut:
                    cut.add((b, tgt))
                    changed = True
        if not changed:
            return reach, cut
    return view.reachable(start, cut_edges=cut), cut


def truth_table(view, classify, targets, pairs=None):
    """classify(cond) -> (pair_id, orientation) with orientation 'fwd' if the comparison is `X op K`
    and 'rev' if it is `K op X`; or None for untracked comparisons.
    targets: set of blocks whose reachability defines 'accept'.
    Returns ({assignment(tuple of (pair, region)): accepted(bool)}, tracked_count)."""
    tracked = {}
    for b, c, _ in switch_conds(view):
        if c.kind == "cmp":
            r = classify(c)
            if r:
                tracked[b] = (c, r[0], r[1])
    ids = sorted({v[1] for v in tracked.values()}) if pairs is None else list(pairs)
    table = {}
    for combo in itertools.product(REGIONS, repeat=len(ids)):
        asg = dict(zip(ids, combo))

        def decide(b, c, asg=asg):
            t = tracked.get(b)
            if not t:
                return None
            cond, pid, orient = t
            op = cond.op if orient == "fwd" else FLIP[cond.op]
            return cmp_truth(op, asg[pid])
        reach = region_walk(view, decide)
        table[tuple(sorted(asg.items()))] = bool(reach & set(targets))
    return table, len(tracked)


def cut_path_exists(view, cut_edges, a_block, b_block):
    """In the CFG without `cut_edges`: is there a path entry -> a_block -> b_block?"""
    r0 = view.reachable(0, cut_edges=cut_edges)
    if a_block not in r0:
        return False
    if a_block == b_block:
        return True
    return b_block in view.reachable(a_block, cut_edges=cut_edges)


# ---------------------------------------------------------------------------------------
# constants and single-variable guards

from fractions import Fraction

_CONST_CTORS = {
    # callee -> lambda(list of const arg ints) -> Fraction
    "cosmwasm_std::Uint64::new": lambda a: Fraction(a[0]),
    "cosmwasm_std::Uint128::new": lambda a: Fraction(a[0]),
    "cosmwasm_std::Uint256::from_u128": lambda a: Fraction(a[0]),
    "cosmwasm_std::Uint64::one": lambda a: Fraction(1),
    "cosmwasm_std::Uint64::zero": lambda a: Fraction(0),
    "cosmwasm_std::Uint128::one": lambda a: Fraction(1),
    "cosmwasm_std::Uint128::zero": lambda a: Fraction(0),
    "cosmwasm_std::Uint256::zero": lambda a: Fraction(0),
    "cosmwasm_std::Uint256::one": lambda a: Fraction(1),
    "cosmwasm_std::Decimal::one": lambda a: Fraction(1),
    "cosmwasm_std::Decimal::zero": lambda a: Fraction(0),
    "cosmwasm_std::Decimal256::one": lambda a: Fraction(1),
    "cosmwasm_std::Decimal256::zero": lambda a: Fraction(0),
    "cosmwasm_std::Decimal::percent": lambda a: Fraction(a[0], 100),
    "cosmwasm_std::Decimal::permille": lambda a: Fraction(a[0], 1000),
    "cosmwasm_std::Decimal256::percent": lambda a: Fraction(a[0], 100),
    "<cosmwasm_std::Uint64 as std::default::Default>::default": lambda a: Fraction(0),
    "<cosmwasm_std::Uint128 as std::default::Default>::default": lambda a: Fraction(0),
    "<cosmwasm_std::Uint256 as std::default::Default>::default": lambda a: Fraction(0),
    "<cosmwasm_std::Decimal as std::default::Default>::default": lambda a: Fraction(0),
    "<cosmwasm_std::Decimal256 as std::default::Default>::default": lambda a: Fraction(0),
    "<cosmwasm_std::Uint64 as std::convert::From<u64>>::from": lambda a: Fraction(a[0]),
    "<cosmwasm_std::Uint128 as std::convert::From<u128>>::from": lambda a: Fraction(a[0]),
}


def const_of(view, operand, at, model=None, depth=0):
    """Numeric value of an operand if it is a compile-time constant (literal, named const item with an
    evaluated value, or a cosmwasm constructor applied to constants); else None."""
    os_ = view.origins_of_operand(operand, at=at)
    if len(os_) != 1:
        return None
    o = next(iter(os_))
    if o.kind == "const":
        try:
            return Fraction(int(o.a))
        except (TypeError, ValueError):
            return None
    if o.kind == "item" and o.b is not None:
        try:
            return Fraction(int(o.b))
        except (TypeError, ValueError):
            return None
    if o.kind == "item" and model is not None and depth < 2:
        # struct-typed named constant (e.g. const X: Uint128 = Uint128::new(1000)): not evaluated by the
        # driver; look for a const-eval'able constructor is not possible from MIR of the user. Unknown.
        return None
    if o.kind == "call":
        fn, bb = o.b.rsplit(":bb", 1)
        if fn != view.path:
            return None
        t = view.blocks[int(bb)]["t"]
        ctor = _CONST_CTORS.get(mname(t))
        if ctor is None:
            return None
        vals = []
        for a in t["args"]:
            c = const_of(view, a, view.at_term(int(bb)), model, depth + 1)
            if c is None:
                return None
            vals.append(c)
        try:
            return ctor(vals)
        except Exception:
            return None
    return None


def _num_truth(op, x, k):
    return {"<": x < k, "<=": x <= k, ">": x > k, ">=": x >= k, "==": x == k, "!=": x != k}[op]


def single_var_regions(thresholds):
    """Representative values for every region of the real line cut by the thresholds."""
    ts = sorted(set(thresholds))
    reps = []
    if not ts:
        return [Fraction(0)]
    reps.append(ts[0] - 1 if ts[0] >= 1 else ts[0] - Fraction(1, 2))
    for i, t in enumerate(ts):
        reps.append(t)
        if i + 1 < len(ts):
            reps.append((t + ts[i + 1]) / 2)
    reps.append(ts[-1] + 1)
    return reps


def single_var_guard(view, is_x, spec_thresholds, at_of=None):
    """Find comparisons `X op const` (either orientation) where is_x(origins of X side).
    Returns (tracked {block: (cond, orient, K)}, thresholds)."""
    tracked = {}
    ths = set(spec_thresholds)
    view._unresolved_cmp = []
    for b, c, _ in switch_conds(view):
        if c.kind == "call" and c.callee.endswith("::is_zero") and c.term["args"]:
            # x.is_zero()  ==  (x == 0)
            at = view.at_term(c.block)
            oa = view.origins_of_operand(c.term["args"][0], at=at)
            if is_x(oa):
                from .mir import Cond
                cc = Cond("cmp", op="!=" if c.neg else "==", a=c.term["args"][0], b=None, ty="is_zero", block=c.block, site=c.site)
                tracked[b] = (cc, "fwd", Fraction(0))
                ths.add(Fraction(0))
            continue
        if c.kind != "cmp":
            continue
        at = view.at_term(c.site[1]) if c.site[0] == "c" else (c.site[1], c.site[2])
        oa = view.origins_of_operand(c.a, at=at)
        ob = view.origins_of_operand(c.b, at=at)
        ka = const_of(view, c.a, at)
        kb = const_of(view, c.b, at)
        if is_x(oa) and kb is not None:
            tracked[b] = (c, "fwd", kb)
            ths.add(kb)
        elif is_x(ob) and ka is not None:
            tracked[b] = (c, "rev", ka)
            ths.add(ka)
        elif is_x(oa) or is_x(ob):
            other = ob if is_x(oa) else oa
            if other and all(o.kind in ("item", "const") for o in other):
                # compared with a constant the extractor could not evaluate: fail closed
                view._unresolved_cmp.append((b, sorted(map(repr, other))))
    return tracked, ths


def single_var_walk(view, tracked, x, start=0, cut_edges=()):
    def decide(b, c):
        t = tracked.get(b)
        if not t:
            return None
        cond, orient, k = t
        op = cond.op if orient == "fwd" else FLIP[cond.op]
        return _num_truth(op, x, k)
    return region_walk(view, decide, start=start, cut_edges=set(cut_edges))


def cond_at(view, c):
    return view.at_term(c.site[1]) if c.site[0] == "c" else (c.site[1], c.site[2])


_NEG_OP = {"==": "!=", "!=": "==", "<": ">=", ">=": "<", ">": "<=", "<=": ">"}


def two_var_table(view, class_x, class_y, targets, resolver=None, from_block=None):
    """Regions of X vs Y for comparisons whose operands satisfy class_x / class_y (origin-set
    predicates, either orientation). Returns ({region: target reachable}, n_tracked, blocks)."""
    res = resolver or (lambda os_: os_)

    def classify(c):
        at = cond_at(view, c)
        oa = res(view.origins_of_operand(c.a, at=at))
        ob = res(view.origins_of_operand(c.b, at=at))
        if class_x(oa) and class_y(ob):
            return ("xy", "fwd")
        if class_x(ob) and class_y(oa):
            return ("xy", "rev")
        return None
    tracked = {}
    for b, c, _ in switch_conds(view):
        if c.kind == "cmp":
            r = classify(c)
            if r:
                tracked[b] = (c, r[1])
    # a bool variable tested at several places (`let first = ..; if first && x < y { return Err }; if first { .. }`) has
    # one value per execution: every assignment of such variables is walked separately
    def ckey(c):
        if c.kind == "place" and not c.pl["p"]:
            return ("pl", c.pl["l"])
        if c.kind in ("cmp", "call") and getattr(c, "site", None) is not None:
            return ("site",) + tuple(c.site)
        return None
    by_local = {}
    ref = {}
    for b, c, _ in switch_conds(view):
        k = ckey(c)
        if k is not None and b not in tracked:
            by_local.setdefault(k, []).append(b)
            ref.setdefault(k, c)
    shared = sorted((l for l, bs in by_local.items() if len(bs) >= 2), key=repr)[:3]
    combos = list(itertools.product((True, False), repeat=len(shared))) or [()]
    out = {}
    for region in REGIONS:
        hit = False
        for combo in combos:
            val = dict(zip(shared, combo))

            def decide(b, c, region=region, val=val):
                t = tracked.get(b)
                if t:
                    op = t[0].op if t[1] == "fwd" else FLIP[t[0].op]
                    return cmp_truth(op, region)
                k = ckey(c)
                if k in val:
                    # the value of the tested expression; `neg` and the comparison operator of a negated copy are part of
                    # how THIS switch reads it
                    if c.kind == "cmp":
                        r0 = ref[k]
                        if c.op == r0.op:
                            return val[k]
                        if c.op == _NEG_OP.get(r0.op):
                            return not val[k]
                        return None
                    return val[k] != bool(getattr(c, "neg", False))
                return None
            if from_block is None:
                reach = region_walk(view, decide)
            else:
                r0 = region_walk(view, decide)
                reach = region_walk(view, decide, start=from_block) if from_block in r0 else set()
            hit = hit or bool(reach & set(targets))
        out[region] = hit
    return out, len(tracked), sorted(tracked)


def call_of(view, origin):
    """(block, terminator) of a 'call' origin located in this view, else None."""
    if origin.kind != "call":
        return None
    fn, bb = origin.b.rsplit(":bb", 1)
    if fn != view.path:
        return None
    return int(bb), view.blocks[int(bb)]["t"]


def call_shape(view, os_, callee_rx, arg_preds):
    """Every origin in os_ is a call (in this function) to a callee matching callee_rx whose i-th
    argument origins satisfy arg_preds[i] (None = don't care)."""
    if not os_:
        return False
    rx = re.compile(callee_rx)
    for o in os_:
        c = call_of(view, o)
        if c is None:
            return False
        b, t = c
        if not rx.search(mname(t)):
            return False
        for i, p in enumerate(arg_preds):
            if p is None:
                continue
            if i >= len(t["args"]):
                return False
            if not p(view.origins_of_operand(t["args"][i], at=view.at_term(b))):
                return False
    return True


# ---------------------------------------------------------------------------------------
# G4: forward flow of a created value to message sinks

SINK_RX = re.compile(r"^cosmwasm_std::Response::add_(message|messages|submessage|submessages)$")


def _op_local(o):
    if o["k"] in ("copy", "move"):
        return o["pl"]["l"]
    return None


def _ref_target(view, local):
    """If `local` is (only) defined as `&mut X` / `&X`, return X's local; follows one reborrow."""
    ds = view.defs().get(local, [])
    outs = set()
    for d in ds:
        if d[0] == "s" and d[3]["rv"]["r"] == "ref":
            pl = d[3]["rv"]["pl"]
            if "*" in pl["p"]:
                # reborrow (&mut *x): look through
                t = _ref_target(view, pl["l"])
                outs |= t if t else {pl["l"]}
            else:
                outs.add(pl["l"])
    return outs


def _alias_roots(view, local, depth=0, seen=None):
    """Locals that `local` (a pointer/reference) may point into: follows ref / cast / copy defs backwards."""
    seen = seen if seen is not None else set()
    if local in seen or depth > 6:
        return set()
    seen.add(local)
    out = set()
    for d in view.defs().get(local, []):
        if d[0] != "s":
            continue
        rv = d[3]["rv"]
        src = None
        if rv["r"] == "ref":
            src = rv["pl"]["l"]
        elif rv["r"] in ("cast", "use") and rv["op"]["k"] in ("copy", "move"):
            src = rv["op"]["pl"]["l"]
        if src is not None:
            out.add(src)
            out |= _alias_roots(view, src, depth + 1, seen)
    return out


def forward_flow(view, seed_locals):
    """Flow-insensitive forward closure of value flow from the seed locals.
    Returns (tainted locals, [(block, term) sinks reached], reaches_return(bool))."""
    tainted = set(seed_locals)
    sinks = {}
    changed = True
    while changed:
        changed = False
        for b, i, s in view.iter_stmts():
            rv = s["rv"]
            used = []
            k = rv["r"]
            if k in ("use", "cast", "repeat"):
                used = [_op_local(rv["op"])]
            elif k == "ref":
                used = [rv["pl"]["l"]]
            elif k == "agg":
                used = [_op_local(o) for o in rv["ops"]]
            elif k == "bin":
                used = [_op_local(rv["a"]), _op_local(rv["b"])]
            elif k == "un":
                used = [_op_local(rv["a"])]
            if any(u in tainted for u in used if u is not None):
                l = s["lhs"]["l"]
                # writing through a pointer: taint what it points to as well
                targets = {l}
                if "*" in s["lhs"]["p"]:
                    targets |= _alias_roots(view, l)
                for t in targets:
                    if t not in tainted:
                        tainted.add(t)
                        changed = True
        for b, t in view.iter_calls():
            args = [_op_local(a) for a in t["args"]]
            if not any(a in tainted for a in args if a is not None):
                continue
            n = mname(t)
            if SINK_RX.match(n):
                sinks[b] = t
            new = {t["dest"]["l"]}
            # a tainted value passed next to a `&mut X` argument may be stored into X
            for a in args:
                if a is None or a in tainted:
                    continue
                ty = view.local_ty(a)
                if ty.startswith("&mut "):
                    new |= _alias_roots(view, a)
            for x in new:
                if x not in tainted:
                    tainted.add(x)
                    changed = True
    return tainted, sorted(sinks.items()), 0 in tainted


MSG_CREATE_ADT = re.compile(r"^cosmwasm_std::(WasmMsg|BankMsg|SubMsg)$")
MSG_CREATE_CALL = re.compile(
    r"^(white_whale_std::pool_network::asset::Asset::(into_msg|into_burn_msg|into_submsg)"
    r"|cosmwasm_std::(wasm_execute|wasm_instantiate)"
    r"|cosmwasm_std::SubMsg::(new|reply_on_success|reply_on_error|reply_always)"
    r"|.*::(mint_lp_token_msg|burn_lp_token_msg|burn_lp_asset_msg|validate_funds_sent|migrate_\w+_msg|create_lp_token))$")


_MSG_TY = re.compile(r"cosmwasm_std::(CosmosMsg|SubMsg|WasmMsg|BankMsg)")


def message_creations(view, model=None):
    """[(block, idx|None, dest local, description)] -- message values created in this function:
    message aggregates, library constructors, and calls to workspace functions whose return type
    carries messages (but is not a Response)."""
    out = []
    for b, i, s in view.iter_stmts():
        rv = s["rv"]
        if rv["r"] == "agg" and "adt" in rv and MSG_CREATE_ADT.match(rv["adt"]):
            out.append((b, i, s["lhs"]["l"], "%s::%s" % (rv["adt"], rv["variant"])))
    for b, t in view.iter_calls():
        n = mname(t)
        if MSG_CREATE_CALL.match(n):
            out.append((b, None, t["dest"]["l"], n))
            continue
        if model is not None:
            c = term_callee(t)
            f = model.fnsrc.get(c)
            if f is not None and _MSG_TY.search(f["ret"]) and "Response" not in f["ret"]:
                out.append((b, None, t["dest"]["l"], n))
    return out


def variant_excluded_edges(view, enum_suffix, place_pred, variant):
    """Edges that are infeasible when every value satisfying place_pred(origins) of the enum `enum_suffix`
    has variant `variant` (all switches on that value are decided consistently, including the re-tests
    that drop elaboration inserts)."""
    excluded = set()
    for b, c, edges in switch_conds(view):
        if c.kind != "discr" or not (c.enum or "").endswith(enum_suffix) or not c.__dict__.get("variants"):
            continue
        if not place_pred(view.origins_of_place(c.pl, at=c.at)):
            continue
        inv = {name: val for val, name in c.variants.items()}
        t = view.blocks[b]["t"]
        explicit = {val: tgt for val, tgt in t["targets"]}
        keep = explicit.get(inv.get(variant), t["otherwise"])
        for _, tgt in view.edges_from(b):
            if tgt != keep:
                excluded.add((b, tgt))
    return excluded


# ---------------------------------------------------------------------------------------
# G2 with several quantities: evaluate guard expressions on representative sample points

_ARITH = {"Add": lambda a, b: a + b, "AddWithOverflow": lambda a, b: a + b, "AddUnchecked": lambda a, b: a + b,
          "Sub": lambda a, b: a - b, "SubWithOverflow": lambda a, b: a - b,
          "Mul": lambda a, b: a * b, "MulWithOverflow": lambda a, b: a * b}
_ARITH_CALLS = [
    (re.compile(r"(u64|u128|Uint128|Uint64|Uint256)::(checked_add|saturating_add)$|as std::ops::Add(<.*>)?>::add$"), lambda a, b: a + b),
    (re.compile(r"(u64|u128|Uint128|Uint64|Uint256)::(checked_sub)$|as std::ops::Sub(<.*>)?>::sub$"), lambda a, b: a - b),
    (re.compile(r"(u64|u128|Uint128|Uint64|Uint256)::(checked_mul|saturating_mul)$|as std::ops::Mul(<.*>)?>::mul$"), lambda a, b: a * b),
]


def expr_eval(view, operand, at, env, depth=0):
    """Value of an operand at a sample point. env: list of (origin-set predicate, value). Follows copies,
    primitive arithmetic (incl. *WithOverflow tuples) and checked_* calls over evaluable operands."""
    if depth > 8:
        return None
    k = const_of(view, operand, at)
    if k is not None:
        return k
    if operand["k"] not in ("copy", "move"):
        return None
    os_ = view.origins_of_operand(operand, at=at)
    for pred, val in env:
        if pred(os_):
            return val
    pl = operand["pl"]
    l = pl["l"]
    ds = [d for d in view.defs().get(l, []) if not (d[0] == "s" and d[3]["rv"]["r"] == "use" and d[3]["rv"]["op"]["k"] == "const")]
    ds = [d for d in ds if view.def_reaches_killing(l, d[1], d[2] if d[0] == "s" else len(view.blocks[d[1]]["s"]), at)]
    if len(ds) != 1:
        return None
    d = ds[0]
    if d[0] == "s":
        rv = d[3]["rv"]
        dat = (d[1], d[2])
        if rv["r"] == "bin" and rv["op"] in _ARITH:
            a = expr_eval(view, rv["a"], dat, env, depth + 1)
            b = expr_eval(view, rv["b"], dat, env, depth + 1)
            if a is None or b is None:
                return None
            return _ARITH[rv["op"]](a, b)
        if rv["r"] in ("use", "cast") and rv["op"]["k"] in ("copy", "move"):
            return expr_eval(view, rv["op"], dat, env, depth + 1)
        return None
    t = d[2]
    n = mname(t)
    dat = view.at_term(d[1])
    for rx, f in _ARITH_CALLS:
        if rx.search(n) and len(t["args"]) == 2:
            a = expr_eval(view, t["args"][0], dat, env, depth + 1)
            b = expr_eval(view, t["args"][1], dat, env, depth + 1)
            if a is None or b is None:
                return None
            return f(a, b)
    if _TRANSPARENT_RE.search(n) and t["args"]:
        return expr_eval(view, t["args"][0], dat, env, depth + 1)
    return None


def sample_walk(view, env, start=0):
    """CFG walk with every comparison whose two sides evaluate under env decided; returns (reachable blocks,
    number of decided comparisons)."""
    decided = {}
    for b, c, _ in switch_conds(view):
        if c.kind != "cmp" or c.b is None:
            continue
        at = cond_at(view, c)
        a = expr_eval(view, c.a, at, env)
        bb = expr_eval(view, c.b, at, env)
        if a is not None and bb is not None:
            decided[b] = _num_truth(c.op, a, bb)

    def decide(b, c):
        return decided.get(b)
    return region_walk(view, decide, start=start), len(decided)


# ---------------------------------------------------------------------------------------
# expression shape (operator tree) of a value, for wiring rules over arithmetic helpers

_VALUE_COMBINATOR = re.compile(r"^std::(bool::then|option::Option::(map|and_then|map_or|map_or_else)|result::Result::(map|and_then))$")


def _loop_accumulation_shape(view, os_, depth):
    """`let mut total = init; for x in xs.iter() { total = total.checked_add(f(x))?; }` over a fixed-size array: the value
    after the loop is ("add", (init, f(xs[0]), .., f(xs[n-1]))). Recognised by provenance: the value is either the initial
    one or the result of ONE add/mul call in this function that takes the value itself as an operand."""
    def is_op(o):
        c = call_of(view, o) if (o.kind == "call" and not o.proj) else None
        if c is None:
            return False
        sh = re.sub(r"^.*::", "", mname(c[1]).rstrip(">"))
        return any(rx.match(sh) and canon in ("add", "mul") for rx, canon in _OPS)
    calls = [o for o in os_ if is_op(o)]
    inits = [o for o in os_ if o not in calls and o.kind != "err"]
    if len(calls) != 1 or not inits:
        return None
    cb, ct = call_of(view, calls[0])
    short = re.sub(r"^.*::", "", mname(ct).rstrip(">"))
    op = None
    for rx, canon in _OPS:
        if rx.match(short):
            op = canon
    if op not in ("add", "mul") or len(ct["args"]) != 2:
        return None
    a_os = [view.origins_of_operand(a, at=view.at_term(cb)) for a in ct["args"]]
    carried = [i for i, x in enumerate(a_os) if calls[0] in x]
    if len(carried) != 1:
        return None
    elem_arg = ct["args"][1 - carried[0]]
    # the element: what the loop's next() yields, over a fixed-size array
    with view.opaque(r"Iterator>::next$"):
        eos = view.origins_of_operand(elem_arg, at=view.at_term(cb))
    nexts = [call_of(view, o) for o in eos if o.kind == "call" and o.a.endswith("Iterator>::next")]
    if len(nexts) != 1 or len(eos) != 1:
        return None
    eproj = tuple(next(iter(eos)).proj)
    nb_, nt_ = nexts[0]
    cur = (nt_["args"][0], view.at_term(nb_))
    n = None
    recv = ib = None
    for _ in range(3):      # `into_iter(iter(&array))`: down to the array itself
        with view.opaque(r"std::slice::iter$|IntoIterator>::into_iter$"):
            its = view.origins_of_operand(cur[0], at=cur[1])
        ics = [call_of(view, o) for o in its]
        if len(ics) != 1 or ics[0] is None:
            return None
        ib, it_ = ics[0]
        recv = it_["args"][0]
        if recv["k"] in ("copy", "move"):
            for l in [recv["pl"]["l"]] + sorted(view.alias_roots(recv["pl"]["l"])):
                m = re.search(r"\[.*; (\d+)\]", str(view.local_ty(l)))
                if m:
                    n = int(m.group(1))
                    break
        if n is not None:
            break
        cur = (recv, view.at_term(ib))
    if n is None or n > 8:
        return None
    elems = tuple(expr_shape(view, recv, view.at_term(ib), depth - 1, proj=("[%d]" % k,) + eproj) for k in range(n))
    init_shapes = sorted({subst_ for subst_ in (repr(o) for o in inits)})
    init = init_shapes[0] if len(init_shapes) == 1 else ("phi",) + tuple(init_shapes)
    c0 = call_of(view, inits[0]) if inits[0].kind == "call" else None
    if c0 is not None and len(inits) == 1:
        init = (re.sub(r"^.*::", "", mname(c0[1]).rstrip(">")), ())
    return (op, (init,) + elems)


_FOLD_RE = re.compile(r"as std::iter::Iterator>::(fold|try_fold)$")


def _fold_shape(view, b, t, depth):
    """`xs.iter().(try_)fold(init, |acc, x| acc + x)` over a fixed-size array is the sum (product) of init and the
    elements: ("add", (init, xs[0], .., xs[n-1])). None when the closure is not a plain accumulate or the length is unknown."""
    model = getattr(view, "model", None)
    if model is None:
        return None
    cps = [o.a for o in view.origins_of_operand(t["args"][2], at=view.at_term(b)) if o.kind == "closure" and o.a in model.fnsrc]
    if len(cps) != 1:
        return None
    cv = model.view(cps[0])
    rets = [norm_shape(expr_shape(cv, {"k": "copy", "pl": {"l": 0, "p": []}}, cv.at_term(rb), 4)) for rb in cv.return_blocks()]
    if len(rets) != 1 or not isinstance(rets[0], tuple) or rets[0][0] not in ("add", "mul") or sorted(rets[0][1]) != ["param(2)", "param(3)"]:
        return None
    # the iterated array and its length; a `.map(|x| f(x))` in front of the fold is applied to each element
    n = None
    mapper = None
    cur = (t["args"][0], view.at_term(b))
    recv = None
    for _ in range(3):
        with view.opaque(r"std::slice::iter$|IntoIterator>::into_iter$|Iterator>::map$"):
            its = view.origins_of_operand(cur[0], at=cur[1])
        cs = [call_of(view, o) for o in its]
        if len(cs) != 1 or cs[0] is None:
            return None
        cb_, ct_ = cs[0]
        if mname(ct_).endswith("Iterator>::map"):
            if mapper is not None:
                return None
            mcs = [o.a for o in view.origins_of_operand(ct_["args"][1], at=view.at_term(cb_)) if o.kind == "closure" and o.a in model.fnsrc]
            if len(mcs) != 1:
                return None
            mapper = model.view(mcs[0])
            cur = (ct_["args"][0], view.at_term(cb_))
            continue
        recv = (ct_["args"][0], view.at_term(cb_))
        break
    if recv is None:
        return None
    op = recv[0]
    if op["k"] in ("copy", "move"):
        for l in [op["pl"]["l"]] + sorted(view.alias_roots(op["pl"]["l"])):
            m = re.search(r"\[.*; (\d+)\]", str(view.local_ty(l)))
            if m:
                n = int(m.group(1))
                break
    if n is None or n > 8:
        return None
    elems = tuple(expr_shape(view, recv[0], recv[1], depth - 1, proj=("[%d]" % k,)) for k in range(n))
    if mapper is not None:
        mrets = [expr_shape(mapper, {"k": "copy", "pl": {"l": 0, "p": []}}, mapper.at_term(rb), 4) for rb in mapper.return_blocks()]
        if len(mrets) != 1:
            return None

        def apply(sh, e):
            if isinstance(sh, str):
                if sh == "param(2)" or sh.startswith("param(2)."):
                    return (e + sh[len("param(2)"):]) if isinstance(e, str) else (e if sh == "param(2)" else None)
                return sh
            sub = tuple(apply(x, e) for x in (sh[1:] if sh[0] == "phi" else sh[1]))
            if any(x is None for x in sub):
                return None
            return (("phi",) + sub) if sh[0] == "phi" else ((sh[0], sub) + tuple(sh[2:]))
        elems = tuple(apply(mrets[0], e) for e in elems)
        if any(e is None for e in elems):
            return None
    return (rets[0][0], (expr_shape(view, t["args"][1], view.at_term(b), depth - 1),) + elems)


def _closure_result_shapes(view, b, t, depth):
    """`cond.then(|| e)`, `opt.map(|x| e)`, ...: the value is what the closure computes. Shapes of the closure's results
    with its captured variables replaced by the shapes of what was captured; None when the closure cannot be read."""
    model = getattr(view, "model", None)
    if model is None:
        return None
    cpath = None
    cop = None
    for a in t["args"]:
        for o in view.origins_of_operand(a, at=view.at_term(b), taint=True):
            if o.kind == "closure" and o.a in model.fnsrc:
                cpath = o.a
    if cpath is None:
        return None
    ops = None
    cblock = None
    for cb, cp, cops in view.closures_created():
        if cp == cpath:
            ops, cblock = cops, cb
    if ops is None:
        return None
    cv = model.view(cpath)
    subst = {}
    for k, op in enumerate(ops):
        subst["param(1).%d" % k] = expr_shape(view, op, (cblock, len(view.blocks[cblock]["s"])), depth - 1)
    out = []
    for rb in cv.return_blocks():
        sh = expr_shape(cv, {"k": "copy", "pl": {"l": 0, "p": []}}, cv.at_term(rb), depth - 1, subst=subst)
        out.append(sh)
    return out or None


def _subst_shape(sh, subst):
    if isinstance(sh, str):
        return subst.get(sh, sh)
    if sh and sh[0] == "phi":
        return ("phi",) + tuple(_subst_shape(x, subst) for x in sh[1:])
    return (sh[0], tuple(_subst_shape(x, subst) for x in sh[1])) + tuple(sh[2:])


def expr_shape(view, operand, at, depth=8, _seen=None, subst=None, proj=()):
    """Nested tuple describing how the operand is computed inside this function: ("callee", (arg shapes..)) for
    a non-transparent call or primitive operation, "param(i).f" / "const" / "load(..)" for leaves. Several reaching
    definitions give ("phi", shapes..). Transparent calls (clone, into, `?`, unwrap, ...) do not appear."""
    os_ = view.origins_of_operand(operand, at=at, proj=proj)
    if subst is None and not proj and depth > 1 and len(os_) >= 2:
        acc = _loop_accumulation_shape(view, os_, depth)
        if acc is not None:
            return acc
    shapes = []
    for o in sorted(os_, key=repr):
        if o.kind == "err":
            continue
        if o.kind == "call" and depth > 0:
            c = call_of(view, o)
            if c is not None:
                b, t = c
                if _FOLD_RE.search(mname(t)) and len(t["args"]) == 3 and subst is None and not o.proj:
                    folded = _fold_shape(view, b, t, depth)
                    if folded is not None:
                        shapes.append(folded)
                        continue
                if _VALUE_COMBINATOR.search(mname(t)) and subst is None:
                    inner = _closure_result_shapes(view, b, t, depth)
                    if inner is not None:
                        shapes.extend(inner)
                        continue
                name = mname(t).split("<")[0] if mname(t).startswith("<") is False else mname(t)
                short = re.sub(r"^.*::", "", mname(t).rstrip(">"))
                args = tuple(expr_shape(view, a, view.at_term(b), depth - 1, subst=subst) for a in t["args"])
                shapes.append((short, args) if not o.proj else (short, args, tuple(o.proj)))
                continue
        if o.kind == "arith" and depth > 0 and o.b and ":bb" in str(o.b):
            # primitive operation `_x = Op(a, b)` at a statement of this function
            fn, bb, idx = str(o.b).rsplit(":", 2)
            if fn == view.path:
                st = view.blocks[int(bb[2:])]["s"][int(idx)]
                rv = st["rv"]
                ops = [rv[k] for k in ("a", "b") if k in rv]
                shapes.append((str(o.a), tuple(expr_shape(view, a, (int(bb[2:]), int(idx)), depth - 1, subst=subst) for a in ops)))
                continue
        shapes.append(subst.get(repr(o), repr(o)) if subst else repr(o))
    if not shapes:
        return "?"
    if len(shapes) == 1:
        return shapes[0]
    return ("phi",) + tuple(shapes)


_OPS = [(re.compile(r"^(checked_|saturating_|wrapping_)?mul(WithOverflow)?$|^Mul(WithOverflow)?$"), "mul"),
        (re.compile(r"^(checked_|saturating_|wrapping_)?add(WithOverflow)?$|^Add(WithOverflow)?$"), "add"),
        (re.compile(r"^(checked_|wrapping_|saturating_)?sub(WithOverflow)?$|^Sub(WithOverflow)?$"), "sub"),
        (re.compile(r"^(checked_)?div(_euclid)?$|^Div$"), "div")]
_CONV = re.compile(r"^(to_u\d+|to_i\d+|from|into|try_from|try_into|u128|u64|new|from_u128|from_uint128)$")


def norm_shape(sh):
    """Normalise an expr_shape for comparison: arithmetic spelled as checked_*/operator/primitive becomes mul/add/
    sub/div, unary conversions disappear, arguments of commutative operations are sorted."""
    if isinstance(sh, str):
        return sh
    if sh and sh[0] == "phi":
        return ("phi",) + tuple(sorted((norm_shape(x) for x in sh[1:]), key=repr))
    name, args = sh[0], tuple(norm_shape(a) for a in sh[1])
    if _CONV.match(name) and len(args) == 1:
        return args[0]
    if not args and name in ("one", "zero") and len(sh) == 2:
        return "const(%d)" % (1 if name == "one" else 0)      # Uint128::one() is the literal 1u128.into()
    for rx, canon in _OPS:
        if rx.match(name):
            name = canon
            break
    if name in ("mul", "add"):
        # associative and commutative: flatten nested applications, then sort
        flat = []
        for a in args:
            if isinstance(a, tuple) and len(a) == 2 and a[0] == name:
                flat.extend(a[1])
            else:
                flat.append(a)
        unit = "const(0)" if name == "add" else "const(1)"
        kept = [a for a in flat if a != unit]
        if kept and len(kept) < len(flat):
            flat = kept            # x + 0 / x * 1
            if len(flat) == 1:
                return flat[0]
        args = tuple(sorted(flat, key=repr))
    return (name, args) if len(sh) == 2 else (name, args, sh[2])
