"""G1: guard recognition and call-chain dominance."""
import re
from .facts import mname, term_callee, pl_str, op_str
from .mir import (Origin, switch_conds, cmp_true_false_edges, try_edges, resolve_bool, storage_call)
from .effects import site_term, return_origins


def _closure_stmt(view, block, closure_path):
    for s in view.blocks[block]["s"]:
        rv = s["rv"]
        if rv["r"] == "agg" and rv.get("closure") == closure_path:
            return s
    return None


_ELEMENT_ADAPTERS = re.compile(
    r"as std::iter::Iterator>::(map|for_each|filter|any|all|find|filter_map|try_for_each|position|flat_map|inspect|take_while|skip_while|find_map)$"
    r"|^std::option::Option::(map|and_then|map_or|map_or_else|filter|is_some_and)$|^std::result::Result::(map|and_then)$")


_FOLD_ADAPTERS = re.compile(r"as std::iter::Iterator>::(fold|try_fold)$")


def resolve(model, chain, view, origins, depth=0, taint=False, elems=False):
    """Resolve `param` origins of `view` (the callee at the end of `chain`) to origins in the
    frames above it, up to the root. Closure upvars are resolved to the parent's operands;
    the value argument of a closure given to Item/Map::update is the loaded item."""
    out = set()
    for o in origins:
        if o.kind != "param" or not chain or o.b != view.path or depth > 8:
            out.add(o)
            continue
        caller, b, kind = chain[-1]
        cv = model.view(caller)
        if kind == "call":
            t = cv.blocks[b]["t"]
            if t["k"] != "call" or o.a - 1 >= len(t["args"]):
                out.add(o)
                continue
            sub = cv.origins_of_operand(t["args"][o.a - 1], proj=o.proj, at=cv.at_term(b), taint=taint)
            out |= resolve(model, chain[:-1], cv, sub, depth + 1, taint, elems)
        elif kind == "closure":
            st = _closure_stmt(cv, b, view.path)
            if st is None:
                out.add(o)
                continue
            if o.a == 1:
                if o.proj and o.proj[0].isdigit():
                    idx = int(o.proj[0])
                    ops = st["rv"]["ops"]
                    if idx < len(ops):
                        i = cv.blocks[b]["s"].index(st)
                        sub = cv.origins_of_operand(ops[idx], proj=o.proj[1:], at=(b, i), taint=taint)
                        out |= resolve(model, chain[:-1], cv, sub, depth + 1, taint, elems)
                        continue
                out.add(o)
            else:
                # runtime argument of the closure: who calls it?
                lhs = st["lhs"]["l"]
                found = False
                for cb, t in cv.iter_calls():
                    for a in t["args"]:
                        if a["k"] in ("copy", "move") and a["pl"]["l"] == lhs and not a["pl"]["p"]:
                            sc = storage_call(t)
                            if sc and sc[1] == "update":
                                for it in cv.storage_item_of_call(t, cv.at_term(cb)):
                                    if it.kind == "item":
                                        out.add(Origin("load", it.a, None, o.proj))
                                        found = True
                            elif elems and o.a in (2, 3) and _FOLD_ADAPTERS.search(mname(t)) and len(t["args"]) == 3 and depth < 6:
                                if o.a == 3:
                                    # the element
                                    sub = cv.origins_of_operand(t["args"][0], proj=o.proj, at=cv.at_term(cb), taint=taint)
                                    out |= resolve(model, chain[:-1], cv, sub, depth + 1, taint, elems)
                                else:
                                    # the accumulator: the initial value, or what the closure returned for the previous element
                                    sub = cv.origins_of_operand(t["args"][1], proj=o.proj, at=cv.at_term(cb), taint=taint)
                                    out |= resolve(model, chain[:-1], cv, sub, depth + 1, taint, elems)
                                    for rb in view.return_blocks():
                                        rs = view.origins_of_place({"l": 0, "p": []}, proj=o.proj, at=view.at_term(rb), taint=taint)
                                        rs = {x for x in rs if not (x.kind == "param" and x.b == view.path and x.a == 2)}
                                        out |= resolve(model, chain, view, rs, depth + 1, taint, elems)
                                found = True
                            elif elems and o.a == 2 and _ELEMENT_ADAPTERS.search(mname(t)) and t["args"][0] is not a:
                                # the closure's argument is an element of the adapted iterator / the payload of the option
                                sub = cv.origins_of_operand(t["args"][0], proj=o.proj, at=cv.at_term(cb), taint=taint)
                                out |= resolve(model, chain[:-1], cv, sub, depth + 1, taint, elems)
                                found = True
                            else:
                                out.add(Origin("closure_arg", mname(t), "%s:bb%d" % (cv.path, cb), o.proj))
                                found = True
                if not found:
                    out.add(o)
        else:
            out.add(o)
    return out


def origins_at(model, chain, view, operand, at, taint=False):
    return resolve(model, chain, view, view.origins_of_operand(operand, at=at, taint=taint))


def cond_at(view, cond):
    site = cond.site
    if site[0] == "c":
        return view.at_term(site[1])
    return (site[1], site[2])


def root_param_is(model, o, ty_suffix, proj):
    """Origin o is a parameter of some function whose declared type ends with ty_suffix and the
    projection equals proj."""
    if o.kind != "param":
        return False
    if tuple(o.proj) != tuple(proj):
        return False
    v = model.view(o.b)
    ty = v.local_ty(o.a)
    return ty.replace("&", "").replace("mut ", "").strip().endswith(ty_suffix)


# ---- origin classes -------------------------------------------------------------------

def is_sender(model):
    def f(os_):
        return bool(os_) and all(root_param_is(model, o, "cosmwasm_std::MessageInfo", ("sender",)) for o in os_)
    return f


def is_self_addr(model):
    def f(os_):
        return bool(os_) and all(root_param_is(model, o, "cosmwasm_std::Env", ("contract", "address")) for o in os_)
    return f


def is_loaded(item_suffix, proj):
    proj = tuple(proj)

    def f(os_):
        return bool(os_) and all(o.kind == "load" and o.a.endswith(item_suffix) and tuple(o.proj) == proj for o in os_)
    return f


def is_query_field(callee_rx, proj):
    rx = re.compile(callee_rx)
    proj = tuple(proj)

    def f(os_):
        return bool(os_) and all(o.kind == "call" and rx.search(o.a) and tuple(o.proj) == proj for o in os_)
    return f


def any_of(*preds):
    def f(os_):
        return any(p(os_) for p in preds)
    return f


# ---- guard specs ----------------------------------------------------------------------

class EqGuard:
    """Pass edge = the edge on which classA-value == classB-value."""

    def __init__(self, name, class_a, class_b):
        self.name = name
        self.class_a = class_a
        self.class_b = class_b

    def pass_edges(self, model, chain, view):
        edges = []
        for b, cond, _ in switch_conds(view):
            if cond.kind != "cmp" or cond.op not in ("==", "!="):
                continue
            at = cond_at(view, cond)
            oa = origins_at(model, chain, view, cond.a, at)
            ob = origins_at(model, chain, view, cond.b, at)
            if (self.class_a(oa) and self.class_b(ob)) or (self.class_a(ob) and self.class_b(oa)):
                te, fe = cmp_true_false_edges(view, b, cond)
                edges += te if cond.op == "==" else fe
        return edges


def result_edges(view, rx):
    """[(ok edges, call block, call term, err edges)]: for every call matching rx that returns a Result, the edges taken
    when it returned Ok / Err, however the caller tests it: `helper(..)?`, `match helper(..) { Ok(..) => .., Err(e) => return Err(e) }`,
    `if let Err(e) = helper(..) { return .. }`, `if helper(..).is_err() { return .. }`."""
    out = []
    seen = set()
    for b in sorted(view.live_blocks()):
        te = try_edges(view, b)
        if te:
            cont, brk, bblock, inner = te
            for o in view.origins_of_operand(inner, at=view.at_term(bblock)):
                if o.kind == "call" and rx.search(o.a) and o.b and o.b.startswith(view.path + ":bb"):
                    hb = int(o.b.rsplit(":bb", 1)[1])
                    out.append((cont, hb, view.blocks[hb]["t"], brk))
                    seen.add((b, hb))
    for b, c, _ in switch_conds(view):
        if c.kind == "discr" and (c.enum or "").endswith("result::Result") and c.__dict__.get("variants"):
            with view.opaque(r"as std::ops::Try>::branch$"):
                os_ = view.origins_of_place(c.pl, at=c.at)
            for o in os_:
                if o.kind == "call" and rx.search(o.a) and not o.proj and o.b and o.b.startswith(view.path + ":bb"):
                    hb = int(o.b.rsplit(":bb", 1)[1])
                    inv = {n: val for val, n in c.variants.items()}
                    t = view.blocks[b]["t"]
                    okt = [tgt for val, tgt in t["targets"] if val == inv.get("Ok")] or [t["otherwise"]]
                    oke = [(b, x) for x in okt]
                    out.append((oke, hb, view.blocks[hb]["t"], [e for e in view.edges_from(b) if e not in oke]))
        elif c.kind == "call" and re.search(r"^std::result::Result::(is_ok|is_err)$", c.callee) and c.term["args"]:
            for o in view.origins_of_operand(c.term["args"][0], at=view.at_term(c.block)):
                if o.kind == "call" and rx.search(o.a) and not o.proj and o.b and o.b.startswith(view.path + ":bb"):
                    hb = int(o.b.rsplit(":bb", 1)[1])
                    te_, fe_ = cmp_true_false_edges(view, b, c)
                    okt_ = c.callee.endswith("is_ok") != bool(c.neg)
                    out.append((te_ if okt_ else fe_, hb, view.blocks[hb]["t"], fe_ if okt_ else te_))
    return out


def result_ok_edges(view, rx):
    return [(ok, hb, t) for ok, hb, t, err in result_edges(view, rx)]


class HelperGuard:
    """Pass edge = Continue edge of `helper(..)?` (or the true edge of a bool helper), when the
    helper call satisfies `arg_check(model, chain, view, block, term)`."""

    def __init__(self, name, callee_rx, arg_check=None, bool_true_passes=True):
        self.name = name
        self.rx = re.compile(callee_rx)
        self.arg_check = arg_check
        self.bool_true_passes = bool_true_passes

    def pass_edges(self, model, chain, view):
        edges = []
        for ok_e, hb, t in result_ok_edges(view, self.rx):
            if self.arg_check is None or self.arg_check(model, chain, view, hb, t):
                edges += ok_e
        for b, cond, _ in switch_conds(view):
            if cond.kind == "call" and self.rx.search(cond.callee):
                if self.arg_check is None or self.arg_check(model, chain, view, cond.block, cond.term):
                    te, fe = cmp_true_false_edges(view, b, cond)
                    passes = te if (self.bool_true_passes != cond.neg) else fe
                    edges += passes
        return edges


class AnyGuard:
    def __init__(self, *specs):
        self.specs = specs
        self.name = "|".join(s.name for s in specs)

    def pass_edges(self, model, chain, view):
        e = []
        for s in self.specs:
            e += s.pass_edges(model, chain, view)
        return e


class AllGuard:
    """Conjunction: the site must be guarded by every member spec (each possibly in a different frame)."""

    def __init__(self, *specs):
        self.specs = specs
        self.name = "&".join(s.name for s in specs)

    def pass_edges(self, model, chain, view):
        # a conjunction has no single edge set; site_guarded evaluates the members one by one
        return []


def helper_guard_edges(model, chain, view, spec, depth=0):
    """Pass edges contributed by workspace helpers used as guards: `helper(..)?` where every non-error return
    of the helper is dominated by the guard `spec` evaluated inside the helper with its parameters resolved
    at this call site (so extracting a guard into a function does not change the verdict)."""
    edges = []
    if depth > 1:
        return edges
    for b in sorted(view.live_blocks()):
        te = try_edges(view, b)
        if not te:
            continue
        cont, brk, bblock, inner = te
        for o in view.origins_of_operand(inner, at=view.at_term(bblock)):
            if o.kind != "call":
                continue
            fn, bb = o.b.rsplit(":bb", 1)
            if fn != view.path:
                continue
            t = view.blocks[int(bb)]["t"]
            callee = term_callee(t)
            if callee not in model.fnsrc or callee == view.path:
                continue
            hv = model.view(callee)
            if "Result" not in hv.fn["ret"] or "Response" in hv.fn["ret"]:
                continue
            sub = chain + ((view.path, int(bb), "call"),)
            he = spec.pass_edges(model, sub, hv) + (helper_guard_edges(model, sub, hv, spec, depth + 1) if depth < 1 else [])
            oks = ok_return_blocks(hv)
            if he and oks and all(hv.edge_dominated(ob, he) for ob in oks):
                edges += cont
    return edges


def site_guarded(model, chain, fn_path, block, spec):
    """Is (fn_path, block), reached through `chain`, dominated by pass edges of `spec` in some
    frame of the chain? Returns (True, frame description) or (False, None)."""
    if isinstance(spec, AllGuard):
        whys = []
        for s in spec.specs:
            ok, why = site_guarded(model, chain, fn_path, block, s)
            if not ok:
                return False, None
            whys.append(why)
        return True, "; ".join(whys)
    frames = [(c[0], c[1], chain[:i]) for i, c in enumerate(chain)] + [(fn_path, block, chain)]
    for f, b, sub in reversed(frames):
        v = model.view(f)
        edges = spec.pass_edges(model, sub, v)
        if not (edges and v.edge_dominated(b, edges)) and not isinstance(spec, HelperGuard):
            edges = edges + helper_guard_edges(model, sub, v, spec)
        if edges and v.edge_dominated(b, edges):
            return True, "%s guard in %s dominates bb%d via edges %s" % (spec.name, f, b, sorted(set(edges)))
    return False, None


def ok_return_blocks(view):
    """Blocks where `_0` is assigned an Ok value (Result::Ok aggregate) or delegated to a call
    result / moved from another local -- i.e. every non-error way of producing the result."""
    out = []
    for b in sorted(view.live_blocks()):
        bb = view.blocks[b]
        for s in bb["s"]:
            if s["lhs"]["l"] == 0 and not s["lhs"]["p"]:
                rv = s["rv"]
                if rv["r"] == "agg" and rv.get("variant") == "Err":
                    continue
                out.append(b)
        t = bb["t"]
        if t["k"] == "call" and t["dest"]["l"] == 0 and not t["dest"]["p"]:
            if mname(t).endswith("::from_residual"):
                continue
            out.append(b)
    return out


class FlagGuard:
    """Pass edge = the edge on which a bool read from storage (e.g. CONFIG.feature_toggle.swaps_enabled)
    is true. `origin_pred(os)` decides whether the switch operand is the flag."""

    def __init__(self, name, origin_pred):
        self.name = name
        self.pred = origin_pred

    def pass_edges(self, model, chain, view):
        edges = []
        for b, cond, _ in switch_conds(view):
            if cond.kind != "place":
                continue
            os_ = resolve(model, chain, view, view.origins_of_place(cond.pl, at=cond.at))
            if self.pred(os_):
                te, fe = cmp_true_false_edges(view, b, cond)
                edges += fe if cond.neg else te
        return edges


def flag_tests(model, chain, view, blocks=None):
    """All bool-place switch tests in `view` (restricted to `blocks`): [(block, origins, neg)]."""
    out = []
    for b, cond, _ in switch_conds(view):
        if cond.kind != "place":
            continue
        if blocks is not None and b not in blocks:
            continue
        os_ = resolve(model, chain, view, view.origins_of_place(cond.pl, at=cond.at))
        out.append((b, os_, cond.neg))
    return out


class BoolVarGuard:
    """A local bool `flag` initialised false, set to true only on the equality edge of a qualifying comparison
    (`if a == b { flag = true }`), and later tested (`if !flag { return Err }`). Pass edge = the true edge of the
    test. `class_a`/`class_b` are origin-set predicates of the comparison that may set the flag."""

    def __init__(self, name, class_a, class_b):
        self.name = name
        self.class_a = class_a
        self.class_b = class_b

    def pass_edges(self, model, chain, view):
        eq = EqGuard(self.name, self.class_a, self.class_b).pass_edges(model, chain, view)
        edges = []
        # the same search written as `xs.iter().any(|x| a(x) == b)`: the test's true edge passes
        for b, cond, _ in switch_conds(view):
            if cond.kind != "call" or not cond.callee.endswith("as std::iter::Iterator>::any") or len(cond.term["args"]) != 2:
                continue
            hit = False
            for o in view.origins_of_operand(cond.term["args"][1], at=view.at_term(cond.block)):
                if o.kind != "closure" or o.a not in model.fnsrc:
                    continue
                cv = model.view(o.a)
                cb = int(o.b.rsplit(":bb", 1)[1])
                cchain = tuple(chain) + ((view.path, cb, "closure"),)
                for xb, xt in cv.iter_calls():
                    if not re.search(r"as std::cmp::PartialEq(<.*>)?>::eq$", mname(xt)) or len(xt["args"]) != 2:
                        continue
                    oa = resolve(model, cchain, cv, cv.origins_of_operand(xt["args"][0], at=cv.at_term(xb)), elems=True)
                    ob = resolve(model, cchain, cv, cv.origins_of_operand(xt["args"][1], at=cv.at_term(xb)), elems=True)
                    if (self.class_a(oa) and self.class_b(ob)) or (self.class_a(ob) and self.class_b(oa)):
                        hit = True
            if hit:
                te, fe = cmp_true_false_edges(view, b, cond)
                edges += fe if cond.neg else te
        if not eq:
            return edges
        for b, cond, _ in switch_conds(view):
            if cond.kind != "place" or cond.pl["p"]:
                continue
            l = cond.pl["l"]
            if view.local_ty(l) != "bool":
                continue
            defs = [d for d in view.defs().get(l, []) if d[0] == "s" and d[3]["rv"]["r"] == "use" and d[3]["rv"]["op"]["k"] == "const"]
            if len(defs) != len(view.defs().get(l, [])):
                continue
            trues = [d for d in defs if str(d[3]["rv"]["op"].get("val")) == "1"]
            falses = [d for d in defs if str(d[3]["rv"]["op"].get("val")) == "0"]
            if not trues or not falses:
                continue
            # every `flag = true` is dominated by an equality edge of the qualifying comparison
            if all(view.edge_dominated(d[1], eq) for d in trues):
                te, fe = cmp_true_false_edges(view, b, cond)
                edges += fe if cond.neg else te
        return edges
