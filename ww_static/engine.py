"""Check runner: loads facts for the current /repo tree, runs the rule module of a property,
prints VIOLATION / KNOWN-FINDING lines, writes evidence and replay files."""
import importlib, json, os, sys, time, hashlib, re, traceback
from . import extract
from .facts import Program
from .mir import Model

VERIF = extract.VERIF
OUT = os.path.join(VERIF, "out")
EVID = os.path.join(VERIF, "evidence")
KNOWN = os.path.join(VERIF, "known_findings.json")

ASSUMPTIONS_COMMON = [
    "CosmWasm atomicity: an Err return or abort reverts all state changes and messages of the call (platform guarantee)",
    "rustc MIR construction and name resolution are correct; MIR is taken at mir-opt-level=0 from `cargo +nightly check`",
    "cosmwasm-std / cw-storage-plus / cw-controllers / cw20-base library semantics as documented",
    "structural necessary conditions only: the check decides the listed code-shape clauses, not the runtime behaviour",
]


class Obligation:
    def __init__(self, rule, key, ok, detail, where="", config="default", nontrivial=True, kind="violation"):
        self.rule = rule
        self.key = key          # stable, no line numbers
        self.ok = ok
        self.detail = detail
        self.where = where      # file:line for humans
        self.config = config
        self.nontrivial = nontrivial
        self.kind = kind        # 'violation' | 'anchor-missing' | 'unrecognised'

    def to_json(self):
        return {"rule": self.rule, "key": self.key, "ok": self.ok, "detail": self.detail,
                "where": self.where, "config": self.config, "kind": self.kind}


class _Renamed:
    def __init__(self, ctx, mapping):
        self._ctx = ctx
        self._map = mapping

    def __getattr__(self, name):
        return getattr(self._ctx, name)

    def ob(self, rule, key, ok, detail="", where="", nontrivial=True, kind="violation"):
        if rule in self._map:
            return self._ctx.ob(self._map[rule], key, ok, detail, where, nontrivial, kind)
        return None

    def missing(self, rule, what):
        if rule in self._map:
            return self._ctx.missing(self._map[rule], what)
        return None

    def floor(self, rule, what, count, minimum):
        if rule in self._map:
            return self._ctx.floor(self._map[rule], what, count, minimum)

    def view(self, path, rule=None):
        return self._ctx.view(path, self._map.get(rule) if rule else None) if (rule is None or rule in self._map) else (
            self._ctx.model().view(path) if self._ctx.model().has(path) else None)


class Ctx:
    def __init__(self, prop, tier):
        self.prop = prop
        self.tier = tier
        self.obs = []
        self.models = {}
        self.model_reg = {}
        self.config = "default"
        self.notes = []
        self.fn_seen = set()
        self.call_sites = 0
        self.floors = []

    # -- models -------------------------------------------------------------------------
    def configs(self):
        if self.tier == "thorough":
            return ["default", "injective", "osmosis_token_factory"]
        return ["default"]

    def model(self, config=None, registry_std=None):
        config = config or self.config
        if registry_std is None:
            registry_std = getattr(self, "use_registry", False)
        k = (config, registry_std)
        m = self.models.get(k)
        if m is None:
            d = extract.facts_dir(config)
            prog = self._progs.get(config) if hasattr(self, "_progs") else None
            if prog is None:
                prog = Program(d)
                if not hasattr(self, "_progs"):
                    self._progs = {}
                self._progs[config] = prog
            m = Model(prog, use_registry_std=registry_std)
            self.models[k] = m
        return m

    # -- obligations ----------------------------------------------------------------------
    def ob(self, rule, key, ok, detail="", where="", nontrivial=True, kind="violation"):
        o = Obligation(rule, "%s|%s" % (rule, key), bool(ok), detail, where, self.config, nontrivial, kind)
        self.obs.append(o)
        return o

    def renamed(self, mapping):
        """Proxy that files obligations of another property's rule function under this property's rule ids:
        rules named in `mapping` are renamed, all others are dropped (they are decided under their own property)."""
        return _Renamed(self, mapping)

    def missing(self, rule, what):
        """Fail closed: an anchor the rule hangs on does not exist."""
        return self.ob(rule, "ANCHOR-MISSING:%s" % what, False,
                       "anchor not found: %s (the construct this rule is attached to no longer exists; "
                       "the table needs a maintainer's look)" % what, kind="anchor-missing")

    def floor(self, rule, what, count, minimum):
        self.floors.append({"rule": rule, "what": what, "count": count, "floor": minimum})
        if count < minimum:
            self.ob(rule, "FLOOR:%s" % what, False,
                    "instance count %d below the floor %d confirmed on the pinned tree for %s" % (count, minimum, what),
                    kind="anchor-missing")
        else:
            self.ob(rule, "FLOOR:%s" % what, True, "count %d >= floor %d" % (count, minimum), nontrivial=False)

    def view(self, path, rule=None):
        m = self.model()
        if not m.has(path):
            if rule:
                self.missing(rule, path)
            return None
        self.fn_seen.add(path)
        return m.view(path)


def load_known():
    if not os.path.exists(KNOWN):
        return {}
    d = json.load(open(KNOWN))
    out = {}
    for e in d.get("known_findings", []):
        out[(e["property"], e["key"])] = e
    return out


def run_canaries(prop):
    """Thorough tier only: positive examples that must match on every run. Every kept seeded change of this property
    (/verif/seeded/<id>, recorded as detected) is applied to a scratch copy of /repo's CURRENT working tree (outside
    /repo and /verif, removed afterwards) and the same rules are run on it: the check must report a violation there.
    A rule that lost its teeth (anchor renamed, instance count dropped to zero, pattern no longer matching) would pass
    vacuously on /repo; this is what detects it. A patch that no longer applies to the current tree is skipped."""
    import shutil, subprocess, tempfile
    base = os.path.join(VERIF, "seeded")
    out = []
    if not os.path.isdir(base):
        return out
    ids = []
    for i in sorted(os.listdir(base)):
        mp = os.path.join(base, i, "meta.json")
        if os.path.exists(mp):
            m = json.load(open(mp))
            if m.get("property") == prop and m.get("detected", True):
                ids.append(i)
    if not ids:
        return out
    scratch = tempfile.mkdtemp(prefix="wwv-canary-")
    try:
        for i in ids:
            d = os.path.join(scratch, i)
            rc = subprocess.call(["rsync", "-a", "--exclude", "target", "--exclude", ".git", "--exclude", "artifacts",
                                  extract.REPO.rstrip("/") + "/", d + "/"])
            if rc != 0:
                out.append({"id": i, "status": "skipped", "why": "could not copy the tree"})
                continue
            r = subprocess.run(["git", "apply", os.path.join(base, i, "patch.diff")], cwd=d, capture_output=True, text=True)
            if r.returncode != 0:
                out.append({"id": i, "status": "skipped", "why": "patch does not apply to the current tree"})
                shutil.rmtree(d, ignore_errors=True)
                continue
            env = dict(os.environ)
            env.update({"WWV_REPO": d, "WWV_CANARY": "1"})
            env.pop("WWV_VERBOSE", None)
            r = subprocess.run([sys.executable, "-m", "ww_static.engine", prop, "--tier", "quick"], cwd=VERIF, env=env,
                               capture_output=True, text=True)
            keys = re.findall(r"^  key=(.+)$", r.stdout, re.M)
            if r.returncode == 1 and keys:
                out.append({"id": i, "status": "fired", "keys": keys[:4]})
            elif r.returncode == 0:
                out.append({"id": i, "status": "silent"})
            else:
                out.append({"id": i, "status": "skipped", "why": "analysis of the scratch copy failed: " + (r.stderr or r.stdout)[-200:]})
            shutil.rmtree(d, ignore_errors=True)
    finally:
        shutil.rmtree(scratch, ignore_errors=True)
    return out


def run_check(prop, tier, module=None, explanation="", extra_assumptions=()):
    t0 = time.time()
    canary_mode = bool(os.environ.get("WWV_CANARY"))
    seed = int(os.environ.get("VERIF_SEED", "0") or 0)
    ctx = Ctx(prop, tier)
    mod = module or importlib.import_module("ww_static.rules.%s" % prop)
    try:
        for cfg in ctx.configs():
            ctx.config = cfg
            mod.run(ctx)
        if tier == "thorough":
            # once more with the registry copy of white-whale-std (the copy the contracts actually link)
            # substituted for the workspace copy; obligations with the same key are merged
            ctx.config = "default+registry-std"
            ctx.use_registry = True
            _cfg = ctx.config
            ctx.config = "default"
            mod.run(ctx)
            ctx.use_registry = False
            if hasattr(mod, "run_thorough"):
                mod.run_thorough(ctx)
    except RuntimeError as e:
        sys.stderr.write("TOOL-FAILURE: %s\n" % e)
        return 2
    except Exception:
        # a rule met a code shape it does not know how to read. The facts were extracted (the tree compiles), so this is
        # not a tool failure: fail closed and report the construct as unrecognised -- the rule tables need a maintainer's look
        tb = traceback.format_exc()
        sys.stderr.write(tb)
        last = [l for l in tb.strip().splitlines() if l.strip()][-3:]
        ctx.ob("%s-unrecognised" % prop, "rule-aborted|%s" % (last[0].strip()[:120] if last else "?"), False,
               "a rule of this property could not read the current code (unrecognised construct): %s" % " | ".join(x.strip() for x in last),
               kind="unrecognised")
    known = load_known()
    # merge obligations across configs by key
    merged = {}
    for o in ctx.obs:
        m = merged.get(o.key)
        if m is None:
            merged[o.key] = {"o": o, "configs": [o.config], "ok": o.ok}
        else:
            if o.config not in m["configs"]:
                m["configs"].append(o.config)
            if not o.ok and m["ok"]:
                m["ok"] = False
                m["o"] = o
    viols, knowns = [], []
    os.makedirs(os.path.join(OUT, prop), exist_ok=True)
    for key, m in merged.items():
        if m["ok"]:
            continue
        o = m["o"]
        if (prop, key) in known:
            knowns.append((o, known[(prop, key)]))
            continue
        viols.append((o, m["configs"]))
    for o, kf in knowns:
        print("KNOWN-FINDING: property=%s %s -- %s" % (prop, o.key, kf.get("what", o.detail)))
    if canary_mode:
        # scratch-copy run on behalf of run_canaries: report keys only, touch no evidence / replay file
        for o, cfgs in viols:
            print("CANARY-HIT property=%s\n  key=%s" % (prop, o.key))
        return 1 if viols else 0
    for o, cfgs in viols:
        h = hashlib.sha1(o.key.encode()).hexdigest()[:12]
        rp = os.path.join(OUT, prop, "%s.json" % h)
        with open(rp, "w") as fh:
            json.dump({"property": prop, "key": o.key, "rule": o.rule, "kind": o.kind, "configs": cfgs,
                       "where": o.where, "detail": o.detail}, fh, indent=1)
        print("VIOLATION property=%s replay=%s" % (prop, rp))
        print("  rule=%s kind=%s at %s\n  key=%s\n  %s" % (o.rule, o.kind, o.where, o.key, o.detail))
    with open(os.path.join(OUT, prop, "obligations.json"), "w") as fh:
        json.dump([dict(m["o"].to_json(), configs=m["configs"], ok=m["ok"]) for m in merged.values()], fh, indent=1)
    if os.environ.get("WWV_VERBOSE"):
        for key, m in merged.items():
            print("  [%s] %s  (%s)\n        %s" % ("ok" if m["ok"] else "FAIL", key, m["o"].where, m["o"].detail[:400]))
    n_ob = len(merged)
    n_ok = sum(1 for m in merged.values() if m["ok"])
    nontrivial = sum(1 for m in merged.values() if m["o"].nontrivial)
    samples = []
    for key, m in list(merged.items()):
        if m["o"].nontrivial and len(samples) < 12:
            samples.append({"obligation": key, "verdict": "holds" if m["ok"] else "FAILS",
                            "where": m["o"].where, "detail": m["o"].detail[:300], "configs": m["configs"]})
    rules = sorted({m["o"].rule for m in merged.values()})
    canaries = run_canaries(prop) if tier == "thorough" else []
    silent = [c["id"] for c in canaries if c["status"] == "silent"]
    ev = {
        "property_id": prop,
        "tier": tier,
        "seed": seed,
        "level": "other",
        "coverage": {
            "explanation": (getattr(mod, "EXPLANATION", explanation) or "").strip(),
            "evaluations": len(ctx.obs),
            "distinct_nontrivial": nontrivial,
            "rule": "one obligation per (rule, site) enumerated from the MIR of the current /repo tree; "
                    "non-trivial = the obligation had at least one real path/site to examine (floor and "
                    "bookkeeping obligations are excluded); distinct = distinct obligation key after merging configurations",
            "obligations": n_ob,
            "discharged": n_ok,
            "known_findings": len(knowns),
            "rules": rules,
            "functions_analysed": len(ctx.fn_seen),
            "configs": ctx.configs(),
            "floors": ctx.floors,
            "std_copies_identical": extract.std_copies_identical(),
            "tree_key": extract.tree_hash(),
            "samples": samples,
            "canaries": {"what": "kept seeded changes of this property applied to scratch copies of the current tree; the check must fire on each",
                         "fired": [c["id"] for c in canaries if c["status"] == "fired"], "silent": silent,
                         "skipped": [{"id": c["id"], "why": c.get("why")} for c in canaries if c["status"] == "skipped"]} if tier == "thorough" else None,
            "notes": ctx.notes,
            "exhaustive": True,
        },
        "assumptions": ASSUMPTIONS_COMMON + list(getattr(mod, "ASSUMPTIONS", [])) + list(extra_assumptions),
        "wall_s": round(time.time() - t0, 2),
        "violations": len(viols),
    }
    dev_tree = os.environ.get("WWV_REPO")
    if not dev_tree or os.path.realpath(dev_tree) == os.path.realpath("/repo"):
        # (a development run against another checkout -- WWV_REPO=<scratch worktree> -- never overwrites the evidence of /repo)
        os.makedirs(EVID, exist_ok=True)
        with open(os.path.join(EVID, "%s.json" % prop), "w") as fh:
            json.dump(ev, fh, indent=1)
    if canaries:
        print("%s canaries: %d fired, %d silent, %d skipped" % (prop, len([c for c in canaries if c["status"] == "fired"]), len(silent),
                                                                 len([c for c in canaries if c["status"] == "skipped"])))
    print("%s tier=%s obligations=%d discharged=%d known=%d violations=%d functions=%d wall=%.1fs" % (
        prop, tier, n_ob, n_ok, len(knowns), len(viols), len(ctx.fn_seen), time.time() - t0))
    if silent and not viols:
        sys.stderr.write("TOOL-FAILURE: the check stays silent on seeded change(s) %s that break this property -- a rule has lost its "
                         "anchor; the verdict on /repo cannot be trusted\n" % silent)
        return 2
    return 1 if viols else 0


def main(argv):
    import argparse
    ap = argparse.ArgumentParser()
    ap.add_argument("prop")
    ap.add_argument("--tier", default=os.environ.get("VERIF_TIER", "quick"))
    ap.add_argument("--replay", default=None)
    a = ap.parse_args(argv)
    if a.replay:
        d = json.load(open(a.replay))
        print("replaying obligation %s" % d["key"])
        rc = run_check(d["property"], a.tier)
        return rc
    return run_check(a.prop, a.tier)


if __name__ == "__main__":
    sys.exit(main(sys.argv[1:]))
