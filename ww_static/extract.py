"""Fact extraction: run the rustc_private driver over /repo (current working tree) and cache
the MIR facts keyed by a hash of the analysed sources. Any edit to /repo changes the key and
forces re-extraction, so checks always decide the *current* tree."""
import hashlib, os, subprocess, sys, time, fcntl, shutil, glob, json

VERIF = os.path.dirname(os.path.dirname(os.path.abspath(__file__)))
REPO = os.environ.get("WWV_REPO", "/repo")
DRIVER = os.path.join(VERIF, "driver", "target", "debug", "wwv-driver")
CACHE = os.path.join(VERIF, ".cache")

CRATES = [
    "white_whale_std", "fee_collector", "fee_distributor", "stableswap_3pool", "terraswap_factory",
    "terraswap_pair", "terraswap_router", "terraswap_token", "vault", "vault_factory", "whale_lair",
    "frontend_helper", "incentive", "incentive_factory", "vault_router", "epoch_manager",
]
# cargo package names whose fingerprints are removed so the wrapper re-runs on a warm target dir
PKG_GLOBS = ["white-whale-std-*", "fee_collector-*", "fee_distributor-*", "stableswap-3pool-*",
             "terraswap-factory-*", "terraswap-pair-*", "terraswap-router-*", "terraswap-token-*",
             "vault-*", "vault_factory-*", "vault_router-*", "whale-lair-*", "frontend-helper-*",
             "incentive-*", "incentive-factory-*", "epoch-manager-*", "stable-swap-sim-*",
             "white-whale-testing-*", "fee-distributor-mock-*"]

CONFIGS = {
    "default": [],
    "injective": ["--features", "injective"],
    "osmosis_token_factory": ["--features", "osmosis_token_factory"],
}


def registry_std_dir():
    c = glob.glob(os.path.expanduser("~/.cargo/registry/src/*/white-whale-std-1.2.6"))
    return c[0] if c else None


def tree_hash(repo=None):
    repo = repo or REPO
    h = hashlib.sha256()
    files = []   # (name relative to its root, absolute path): the key does not depend on where the tree lives
    for root, dirs, fs in os.walk(repo):
        dirs[:] = [d for d in dirs if d not in ("target", ".git", "node_modules", "artifacts")]
        for f in fs:
            if f.endswith(".rs") or f in ("Cargo.toml", "Cargo.lock"):
                ap = os.path.join(root, f)
                files.append(("repo/" + os.path.relpath(ap, repo), ap))
    reg = registry_std_dir()
    if reg:
        for root, dirs, fs in os.walk(reg):
            for f in fs:
                if f.endswith(".rs") or f == "Cargo.toml":
                    ap = os.path.join(root, f)
                    files.append(("registry/" + os.path.relpath(ap, reg), ap))
    files.sort()
    for name, f in files:
        h.update(name.encode())
        h.update(b"\0")
        with open(f, "rb") as fh:
            h.update(fh.read())
        h.update(b"\0")
    # the driver itself is part of the key
    for f in (os.path.join(VERIF, "driver", "src", "main.rs"),):
        with open(f, "rb") as fh:
            h.update(fh.read())
    return h.hexdigest()[:20]


def std_copies_identical():
    """Is packages/white-whale-std/src byte-identical to the registry copy the contracts link?"""
    reg = registry_std_dir()
    if not reg:
        return None
    a = os.path.join(REPO, "packages", "white-whale-std", "src")
    b = os.path.join(reg, "src")
    r = subprocess.run(["diff", "-rq", a, b], capture_output=True, text=True)
    return r.returncode == 0


def ensure_driver():
    src = os.path.join(VERIF, "driver", "src", "main.rs")
    if not os.path.exists(DRIVER) or os.path.getmtime(DRIVER) < os.path.getmtime(src):
        build_driver()


def build_driver():
    env = dict(os.environ)
    env["CARGO_NET_OFFLINE"] = "true"
    subprocess.check_call(["cargo", "build", "--offline"], cwd=os.path.join(VERIF, "driver"), env=env)


def sysroot():
    return subprocess.check_output(["rustc", "+nightly", "--print", "sysroot"], text=True).strip()


def _run_cargo(config, out_dir, target_dir, log):
    env = dict(os.environ)
    env.update({
        "LD_LIBRARY_PATH": os.path.join(sysroot(), "lib") + ":" + env.get("LD_LIBRARY_PATH", ""),
        "RUSTFLAGS": "-Zmir-opt-level=0 -Awarnings",
        "RUSTC_WRAPPER": DRIVER,
        "WWV_OUT": out_dir,
        "WWV_CRATES": ",".join(CRATES),
        "CARGO_TARGET_DIR": target_dir,
        "CARGO_NET_OFFLINE": "true",
    })
    env.pop("RUSTC_WORKSPACE_WRAPPER", None)
    cmd = ["cargo", "+nightly", "check", "--offline", "--workspace", "--lib"] + CONFIGS[config]
    with open(log, "w") as lf:
        return subprocess.call(cmd, cwd=REPO, env=env, stdout=lf, stderr=subprocess.STDOUT)


def expected_files(out_dir):
    have = {}
    for f in glob.glob(os.path.join(out_dir, "*.json")):
        name = os.path.basename(f).rsplit("-", 1)[0]
        have.setdefault(name, []).append(f)
    missing = [c for c in CRATES if c not in have]
    # two copies of white_whale_std (workspace member + registry)
    if len(have.get("white_whale_std", [])) < 2:
        missing.append("white_whale_std(second copy)")
    return missing


def facts_dir(config="default", verbose=True):
    """Return the directory with facts for the current /repo tree + config (extracting if needed).
    Raises RuntimeError on build failure (tool failure, exit code 2 at the CLI)."""
    ensure_driver()
    key = tree_hash()
    d = os.path.join(CACHE, key, config)
    done = os.path.join(d, "DONE")
    os.makedirs(os.path.join(CACHE, key), exist_ok=True)
    lockf = open(os.path.join(CACHE, "lock-%s" % config), "w")
    fcntl.flock(lockf, fcntl.LOCK_EX)
    try:
        if os.path.exists(done):
            return d
        t0 = time.time()
        tmp = d + ".tmp"
        shutil.rmtree(tmp, ignore_errors=True)
        os.makedirs(tmp)
        target = os.path.join(CACHE, "target-" + config)
        log = os.path.join(CACHE, key, "cargo-%s.log" % config)
        for attempt in (0, 1):
            fp = os.path.join(target, "debug", ".fingerprint")
            if attempt == 1:
                shutil.rmtree(target, ignore_errors=True)
            elif os.path.isdir(fp):
                for g in PKG_GLOBS:
                    for p in glob.glob(os.path.join(fp, g)):
                        shutil.rmtree(p, ignore_errors=True)
            rc = _run_cargo(config, tmp, target, log)
            if rc != 0:
                if attempt == 1:
                    tail = open(log).read()[-3000:]
                    raise RuntimeError("cargo check failed for config %s (rc=%d):\n%s" % (config, rc, tail))
                continue
            missing = expected_files(tmp)
            if not missing:
                break
            if attempt == 1:
                raise RuntimeError("fact files missing after extraction: %s" % missing)
            for f in glob.glob(os.path.join(tmp, "*")):
                os.remove(f)
        shutil.rmtree(d, ignore_errors=True)
        os.rename(tmp, d)
        with open(done, "w") as fh:
            fh.write(json.dumps({"key": key, "config": config, "wall_s": time.time() - t0}))
        if verbose:
            sys.stderr.write("[extract] %s/%s in %.1fs\n" % (key, config, time.time() - t0))
        _gc(key)
        return d
    finally:
        fcntl.flock(lockf, fcntl.LOCK_UN)
        lockf.close()


def _gc(keep_key, keep=10):
    """Drop old fact caches (not the warm target dirs)."""
    ents = []
    for e in os.listdir(CACHE):
        p = os.path.join(CACHE, e)
        if os.path.isdir(p) and not e.startswith("target-") and e != keep_key:
            ents.append((os.path.getmtime(p), p))
    ents.sort(reverse=True)
    for _, p in ents[keep:]:
        shutil.rmtree(p, ignore_errors=True)


if __name__ == "__main__":
    cfgs = sys.argv[1:] or ["default"]
    for c in cfgs:
        print(facts_dir(c))
