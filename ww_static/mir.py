"""Program model (G0): per-function CFG helpers, call graph, value provenance (G3),
edge-cut dominance (G1), boolean-region walks (G2), storage/effect maps (G5).

Everything here works on the JSON MIR facts written by /verif/driver. Nothing keys on
source text, line numbers or variable names; lines are carried only for reports.
"""
import re
from collections import defaultdict, deque
from .facts import pl_str, op_str, rv_str, term_str, term_callee, mname, norm_name

# ---------------------------------------------------------------------------------------
# path helpers


def sg(path):
    return norm_name(path)


# Calls through which a value passes unchanged for provenance purposes (receiver / arg 0).
TRANSPARENT = [
    r"<.* as std::clone::Clone>::clone$",
    r"::clone$",
    r"<.* as std::ops::Deref>::deref$",
    r"<.* as std::ops::DerefMut>::deref_mut$",
    r"<.* as std::convert::Into<.*>>::into$",
    r"<.* as std::convert::From<.*>>::from$",
    r"<.* as std::convert::TryInto<.*>>::try_into$",
    r"<.* as std::convert::TryFrom<.*>>::try_from$",
    r"<.* as std::convert::AsRef<.*>>::as_ref$",
    r"<.* as std::borrow::Borrow<.*>>::borrow$",
    r"<.* as std::string::ToString>::to_string$",
    r"<.* as std::borrow::ToOwned>::to_owned$",
    r"std::string::String::as_str$",
    r"std::string::String::as_bytes$",
    r"std::string::String::into_bytes$",
    r"std::str::as_bytes$",
    r"std::str::to_lowercase$",
    r"cosmwasm_std::Addr::as_str$",
    r"cosmwasm_std::Addr::into_string$",
    r"cosmwasm_std::Addr::to_string$",
    r"cosmwasm_std::Addr::as_bytes$",
    r"cosmwasm_std::Addr::unchecked$",
    r"cosmwasm_std::CanonicalAddr::as_slice$",
    r"<.* as std::ops::Try>::branch$",
    r"std::result::Result::unwrap$",
    r"std::result::Result::expect$",
    r"std::result::Result::map_err$",
    r"std::result::Result::unwrap_or_default$",
    r"std::result::Result::ok$",
    r"std::option::Option::unwrap$",
    r"std::option::Option::expect$",
    r"std::option::Option::ok_or$",
    r"std::option::Option::ok_or_else$",
    r"std::option::Option::unwrap_or_default$",
    r"std::option::Option::as_ref$",
    r"std::option::Option::as_mut$",
    r"std::option::Option::cloned$",
    r"std::option::Option::copied$",
    r"std::option::Option::as_deref$",
    r"std::option::Option::take$",
    r"std::vec::Vec::as_slice$",
    r"std::vec::Vec::to_vec$",
    r"std::slice::to_vec$",
    r"std::slice::iter$",
    r"std::slice::from_ref$",      # a one-element slice of the value
    r"std::slice::from_mut$",
    r"std::slice::into_vec$",
    r"<.* as std::iter::IntoIterator>::into_iter$",
    r"<.* as std::iter::Iterator>::next$",
    r"<.* as std::iter::Iterator>::cloned$",
    r"<.* as std::iter::Iterator>::copied$",
    r"<.* as std::iter::Iterator>::rev$",
    r"<.* as std::iter::Iterator>::enumerate$",
    r"<.* as std::iter::Iterator>::peekable$",
    r"<.* as std::iter::Iterator>::(filter|skip|take|take_while|skip_while|step_by|fuse|inspect|by_ref)$",   # same elements
    r"std::slice::iter_mut$",
    r"std::slice::first$",
    r"std::slice::last$",
    r"std::vec::Vec::remove$",        # the removed element is an element of the vector
    r"std::vec::Vec::swap_remove$",
    r"std::vec::Vec::pop$",
    r"std::vec::Vec::first$",
    r"std::vec::Vec::last$",
    r"<.* as std::ops::Index<.*>>::index$",
    r"<.* as std::ops::IndexMut<.*>>::index_mut$",
    r"std::boxed::Box::new$",
    r"cosmwasm_std::Uint128::u128$",
    r"cosmwasm_std::Uint128::new$",
    r"cosmwasm_std::Uint256::from_uint128$",
    r"cosmwasm_std::Uint256::from_u128$",
    r"cosmwasm_std::Timestamp::nanos$",
    r"cosmwasm_std::Uint64::u64$",
    r"cosmwasm_std::Uint64::new$",
    r"cw_storage_plus::Map::key$",
    r"cw_storage_plus::Map::prefix$",
    r"cw_storage_plus::Map::sub_prefix$",
    r"cosmwasm_std::Timestamp::from_nanos$",
]
_TRANSPARENT_RE = re.compile("|".join("(?:%s)" % p for p in TRANSPARENT))

_AND_THEN_RE = re.compile(r"^std::(option::Option|result::Result)::and_then$|^std::result::Result::map$")
_MAP_OR_RE = re.compile(r"^std::(option::Option|result::Result)::(map_or|map_or_else)$")
# value is one of the two arguments
_UNION_ARGS_RE = re.compile(r"^(std::option::Option::unwrap_or|std::result::Result::unwrap_or|std::option::Option::unwrap_or_else|std::result::Result::unwrap_or_else)$")

# api.addr_validate(x) / addr_canonicalize(x) / addr_humanize(x): value is arg 1.
TRANSPARENT_ARG1 = re.compile(
    r"(?:<.* as cosmwasm_std::Api>::addr_\w+|cosmwasm_std::Api::addr_\w+)$")

def is_idx(x):
    """Index element of a named-field projection: "[]" (unknown index) or "[k]" (constant index)."""
    return isinstance(x, str) and x.startswith("[")


PAYLOAD_VARIANTS = {"Some", "Ok", "Continue", "Break", "Err"}

STORAGE_READ = {"load", "may_load", "has", "range", "keys", "prefix", "query", "range_raw", "keys_raw"}
STORAGE_WRITE = {"save", "update", "remove"}
_STORAGE_RE = re.compile(r"^cw_storage_plus::(Item|Map|Path|Prefix|IndexedMap|SnapshotMap|SnapshotItem)::(\w+)$")


def storage_call(t):
    """-> (kind, method) if the call terminator is a cw_storage_plus Item/Map method."""
    m = _STORAGE_RE.match(mname(t))
    if m:
        return m.group(1), m.group(2)
    return None


class Origin(tuple):
    """(kind, a, b, proj) -- proj is a tuple of field names applied to the origin."""
    __slots__ = ()

    def __new__(cls, kind, a=None, b=None, proj=()):
        return tuple.__new__(cls, (kind, a, b, tuple(proj)))

    kind = property(lambda s: s[0])
    a = property(lambda s: s[1])
    b = property(lambda s: s[2])
    proj = property(lambda s: s[3])

    def __repr__(self):
        p = "".join("." + x for x in self.proj)
        if self.kind == "param":
            return "param(%s)%s" % (self.a, p)
        if self.kind == "load":
            return "load(%s)%s" % (self.a, p)
        if self.kind == "call":
            return "call(%s@%s)%s" % (self.a, self.b, p)
        if self.kind == "const":
            return "const(%s)" % (self.a,)
        if self.kind == "item":
            return "item(%s)" % (self.a,)
        if self.kind == "agg":
            return "agg(%s@%s)%s" % (self.a, self.b, p)
        return "%s(%s,%s)%s" % (self.kind, self.a, self.b, p)


class FnView:
    """Analysis view of one MIR body."""

    def __init__(self, prog, fn):
        self.prog = prog
        self.fn = fn
        self.path = fn["path"]
        self.body = fn["body"]
        self.blocks = self.body["blocks"]
        self.n = len(self.blocks)
        self.argc = self.body["argc"]
        self._succ = [None] * self.n
        self._pred = None
        self._defs = None
        self._reach0 = None
        self._origin_cache = {}
        self._rs = {}
        self._wd = {}
        self._ks = {}
        self._cw = None
        self._stop = None
        self._dw = None
        self._only = None

    # -- CFG ---------------------------------------------------------------------------
    def succs(self, b):
        s = self._succ[b]
        if s is not None:
            return s
        bb = self.blocks[b]
        if bb.get("cleanup"):
            s = []
        else:
            t = bb["t"]
            k = t["k"]
            if k in ("goto", "drop", "assert"):
                s = [t["target"]]
            elif k == "call":
                s = [t["target"]] if t["target"] is not None else []
            elif k == "switch":
                s = [x[1] for x in t["targets"]] + [t["otherwise"]]
            else:
                s = []
        # de-dup preserving order
        seen = []
        for x in s:
            if x not in seen:
                seen.append(x)
        self._succ[b] = seen
        return seen

    def preds(self):
        if self._pred is None:
            p = [[] for _ in range(self.n)]
            for b in range(self.n):
                for s in self.succs(b):
                    p[s].append(b)
            self._pred = p
        return self._pred

    def edges_from(self, b):
        """List of (label, target) for block b. Labels: switch value string, 'otherwise', or ''."""
        bb = self.blocks[b]
        if bb.get("cleanup"):
            return []
        t = bb["t"]
        if t["k"] == "switch":
            return [(v, tgt) for v, tgt in t["targets"]] + [("otherwise", t["otherwise"])]
        return [("", s) for s in self.succs(b)]

    def reachable(self, start=0, cut_edges=(), cut_blocks=()):
        """Blocks reachable from `start` with the given (src, dst) edges / blocks removed."""
        cut_edges = set(cut_edges)
        cut_blocks = set(cut_blocks)
        if start in cut_blocks:
            return set()
        seen = {start}
        dq = deque([start])
        while dq:
            b = dq.popleft()
            for s in self.succs(b):
                if (b, s) in cut_edges or s in cut_blocks or s in seen:
                    continue
                seen.add(s)
                dq.append(s)
        return seen

    def reach_strict(self, b):
        """Blocks reachable from b through at least one edge."""
        r = self._rs.get(b)
        if r is None:
            r = set()
            dq = deque(self.succs(b))
            while dq:
                x = dq.popleft()
                if x in r:
                    continue
                r.add(x)
                dq.extend(self.succs(x))
            self._rs[b] = r
        return r

    def def_reaches(self, db, di, at):
        """Can a definition at (db, di) be observed by a use at `at` = (block, idx)?"""
        if at is None:
            return True
        ub, ui = at
        if db == ub and di < ui:
            return True
        return ub in self.reach_strict(db)

    def whole_defs(self, l):
        """Sites (block, idx) where local l is assigned as a whole (no projection on the lhs)."""
        r = self._wd.get(l)
        if r is None:
            r = []
            for d in self.defs().get(l, []):
                if d[0] == "s":
                    if not d[3]["lhs"]["p"]:
                        r.append((d[1], d[2]))
                else:
                    if not d[2]["dest"]["p"]:
                        r.append((d[1], len(self.blocks[d[1]]["s"])))
            self._wd[l] = r
        return r

    def kill_sites(self, l, proj):
        """Sites that overwrite everything a read of `l.proj` observes: whole assignments of l and
        assignments to a field path that is a prefix of proj."""
        key = (l, proj)
        r = self._ks.get(key)
        if r is None:
            r = list(self.whole_defs(l))
            if proj:
                for d in self.defs().get(l, []):
                    if d[0] == "s":
                        F = tuple(self._named_fields(d[3]["lhs"]["p"]))
                        if F and F == tuple(proj[:len(F)]) and "[]" not in F and "[]" not in proj[:len(F)]:
                            r.append((d[1], d[2]))
                    else:
                        F = tuple(self._named_fields(d[2]["dest"]["p"]))
                        if F and F == tuple(proj[:len(F)]) and "[]" not in F and "[]" not in proj[:len(F)]:
                            r.append((d[1], len(self.blocks[d[1]]["s"])))
            self._ks[key] = r
        return r

    def def_reaches_killing(self, l, db, di, at, proj=(), fields_only=False):
        """Reaching-definition test with kills: the definition of (part of) local l at (db, di) reaches the
        use at `at` along some path on which the part being read is not overwritten. With fields_only, only assignments
        to the field path itself (or a prefix of it) kill, not re-definitions of the whole local (whose new value may be
        the old one handed through a helper)."""
        if at is None:
            return True
        ub, ui = at
        kills = [(kb, ki) for kb, ki in self.kill_sites(l, tuple(proj)) if (kb, ki) != (db, di)]
        if fields_only:
            whole = set(self.whole_defs(l))
            kills = [k for k in kills if k not in whole]
        if not kills:
            return self.def_reaches(db, di, at)
        if db == ub and di < ui and not any(kb == db and di < ki < ui for kb, ki in kills):
            return True
        if any(kb == db and ki > di for kb, ki in kills):
            return False
        blocked = {kb for kb, ki in kills if not (kb == ub and ki >= ui)}
        if ub in blocked:
            return False
        seen = set()
        dq = deque(self.succs(db))
        while dq:
            x = dq.popleft()
            if x in seen:
                continue
            seen.add(x)
            if x == ub:
                return True
            if x in blocked:
                continue
            dq.extend(self.succs(x))
        return False

    def entry_reaches(self, l, at, proj=()):
        """Does the value local l (a parameter) had on entry reach the use at `at` along some path on which the part
        being read (l.proj) is not overwritten?"""
        if at is None:
            return True
        ub, ui = at
        kills = self.kill_sites(l, tuple(proj))
        if not kills:
            return True
        if ub == 0:
            return not any(kb == 0 and ki < ui for kb, ki in kills)
        blocked = {kb for kb, ki in kills if not (kb == ub and ki >= ui)}
        if 0 in blocked or ub in blocked:
            return False
        seen = set()
        dq = deque(self.succs(0))
        while dq:
            x = dq.popleft()
            if x in seen:
                continue
            seen.add(x)
            if x == ub:
                return True
            if x in blocked:
                continue
            dq.extend(self.succs(x))
        return False

    def live_blocks(self):
        if self._reach0 is None:
            self._reach0 = self.reachable(0)
        return self._reach0

    def edge_dominated(self, target_block, pass_edges):
        """True iff every path entry->target_block uses at least one of pass_edges."""
        if target_block not in self.live_blocks():
            return True
        return target_block not in self.reachable(0, cut_edges=pass_edges)

    def can_reach(self, src, dst, cut_edges=(), cut_blocks=()):
        return dst in self.reachable(src, cut_edges, cut_blocks)

    def return_blocks(self):
        return [b for b in self.live_blocks() if self.blocks[b]["t"]["k"] == "return"]

    # -- statements / defs --------------------------------------------------------------
    def iter_stmts(self):
        for b in sorted(self.live_blocks()):
            bb = self.blocks[b]
            for i, s in enumerate(bb["s"]):
                yield b, i, s

    def iter_calls(self):
        for b in sorted(self.live_blocks()):
            t = self.blocks[b]["t"]
            if t["k"] == "call":
                yield b, t

    def defs(self):
        """local -> list of ('s', b, i, stmt) | ('c', b, term)"""
        if self._defs is None:
            d = defaultdict(list)
            for b in range(self.n):
                bb = self.blocks[b]
                if bb.get("cleanup"):
                    continue
                for i, s in enumerate(bb["s"]):
                    d[s["lhs"]["l"]].append(("s", b, i, s))
                t = bb["t"]
                if t["k"] == "call":
                    d[t["dest"]["l"]].append(("c", b, t))
            self._defs = d
        return self._defs

    def local_ty(self, l):
        return self.body["locals"][l]

    def var_name(self, l):
        for v in self.body["vars"]:
            if v["pl"]["l"] == l and not v["pl"]["p"]:
                return v["name"]
        return None

    # -- promoted constants -------------------------------------------------------------
    def promoted_origins(self, idx):
        """Origins of the value a promoted body refers to (item path / const / string)."""
        out = set()
        proms = self.fn.get("promoted", [])
        if idx >= len(proms):
            return out
        for bb in proms[idx]["blocks"]:
            if bb.get("cleanup"):
                continue
            for s in bb["s"]:
                rv = s["rv"]
                ops = []
                if rv["r"] == "use":
                    ops = [rv["op"]]
                elif rv["r"] == "agg":
                    ops = rv["ops"]
                for o in ops:
                    if o["k"] == "const":
                        if "item" in o:
                            out.add(Origin("item", o["item"], o.get("val")))
                        elif "val" in o:
                            out.add(Origin("const", o["val"]))
                        elif "str" in o:
                            out.add(Origin("const", o["str"]))
            t = bb.get("t")
            if t and t["k"] == "call":
                # const fn evaluated in the promoted body, e.g. RangeInclusive::new(a, b)
                for o in t["args"]:
                    if o["k"] == "const" and "val" in o:
                        out.add(Origin("const", o["val"]))
        return out

    # -- provenance ---------------------------------------------------------------------
    def origins_of_operand(self, op, proj=(), taint=False, at=None):
        """`at` = (block, stmt index) of the use; the terminator is index len(stmts)."""
        if op["k"] == "const":
            return self._const_origins(op, proj)
        return self.origins_of_place(op["pl"], proj, taint, at)

    def at_term(self, b):
        return (b, len(self.blocks[b]["s"]))

    def _const_origins(self, o, proj):
        if "promoted" in o:
            r = self.promoted_origins(o["promoted"])
            return r or {Origin("const", "promoted")}
        if "item" in o:
            return {Origin("item", o["item"], o.get("val"), proj)}
        if "fn" in o:
            return {Origin("fnitem", o["fn"])}
        if "val" in o:
            return {Origin("const", o["val"])}
        if "str" in o:
            return {Origin("const", o["str"])}
        return {Origin("const", "<%s>" % o["ty"])}

    def origins_of_place(self, pl, proj=(), taint=False, at=None):
        """Origins of the value read from `pl` followed by the named-field projection `proj`."""
        return self._origins_pl(pl, tuple(proj), taint, frozenset(), at)

    def _named_fields(self, projs):
        """Reduce a MIR projection list to named struct fields / user-enum variants.
        Deref is dropped; payload variants (Some/Ok/Continue/...) and their `.0` are dropped;
        tuple indices are kept as their number."""
        out = []
        skip_next_zero = False
        for e in projs:
            if e == "*":
                continue
            if isinstance(e, dict):
                if "d" in e:
                    if e["d"] in PAYLOAD_VARIANTS:
                        skip_next_zero = True
                    else:
                        out.append("#" + e["d"])
                    continue
                if "f" in e:
                    if skip_next_zero and e["f"] == 0:
                        skip_next_zero = False
                        continue
                    skip_next_zero = False
                    out.append(e["n"] if e["n"] else str(e["f"]))
                    continue
                if "i" in e or "ci" in e:
                    k = self._const_index(e)
                    out.append("[]" if k is None else "[%d]" % k)
                    continue
            else:
                out.append("[]")
        return out

    def _origins_local(self, l, proj, taint, visiting, at=None):
        key = (l, proj, taint, at)
        if key in self._origin_cache:
            return self._origin_cache[key]
        if (l, proj, at) in visiting:
            return set()
        visiting = visiting | {(l, proj, at)}
        out = set()
        if 1 <= l <= self.argc and self.entry_reaches(l, at, proj):
            out.add(Origin("param", l, self.path, proj))
        for d in self.defs().get(l, []):
            if self._only is not None and d[1] not in self._only:
                continue
            if d[0] == "s":
                if not self.def_reaches_killing(l, d[1], d[2], at, proj):
                    continue
                s = d[3]
                lhs_fields = self._named_fields(s["lhs"]["p"])
                # writes through a deref of a reference local (e.g. (*_5) = x) define the pointee; treat same
                rest = self._match_prefix(lhs_fields, proj)
                if rest is None:
                    continue
                out |= self._origins_rvalue(s["rv"], rest, taint, visiting, d[1], d[2], (d[1], d[2]))
            else:
                if not self.def_reaches_killing(l, d[1], len(self.blocks[d[1]]["s"]), at, proj):
                    continue
                t = d[2]
                lhs_fields = self._named_fields(t["dest"]["p"])
                rest = self._match_prefix(lhs_fields, proj)
                if rest is None:
                    continue
                out |= self._origins_call(t, rest, taint, visiting, d[1], (d[1], len(self.blocks[d[1]]["s"])))
        # element reads of a growable container: values pushed / inserted / appended to it so far
        if proj and len(visiting) < 40:
            out |= self._container_write_origins(l, proj, taint, visiting, at)
        # taint mode: `x += y` / `x -= y` on a non-primitive (a call taking `&mut x`): x depends on y
        if taint and len(visiting) < 12:
            out |= self._op_assign_origins(l, visiting | {(l, proj, at)}, at)
        # taint mode: writes through references that (by provenance) point into the value being read
        if taint and len(visiting) < 4 and out:
            out |= self._alias_write_origins(l, proj, out, visiting, at)
        # writes performed by closures that captured `&mut l`
        if getattr(self, "model", None) is not None and len(visiting) < 60:
            out |= self._closure_write_origins(l, proj, taint, at)
        if not visiting - {(l, proj, at)}:
            self._origin_cache[key] = out
        return out

    _PUSH_RE = re.compile(r"^std::(?:vec::Vec|collections::VecDeque)::(push|push_back|push_front|insert|extend_from_slice|append)$"
                          r"|^<std::vec::Vec<.*> as std::iter::Extend<.*>>::(extend)$")

    _OPASSIGN_RE = re.compile(r"as std::ops::\w+Assign(<.*>)?>::\w+_assign$")

    def _op_assign_origins(self, l, visiting, at):
        oa = getattr(self, "_oa", None)
        if oa is None:
            oa = []
            for b, t in self.iter_calls():
                if not self._OPASSIGN_RE.search(mname(t)) or len(t["args"]) != 2 or t["args"][0]["k"] not in ("copy", "move"):
                    continue
                r = t["args"][0]["pl"]["l"]
                tgt = set()
                for d in self.defs().get(r, []):
                    if d[0] == "s" and d[3]["rv"]["r"] == "ref":
                        tgt.add(d[3]["rv"]["pl"]["l"])
                oa.append((b, t, tgt))
            self._oa = oa
        out = set()
        for b, t, tgt in oa:
            if l not in tgt:
                continue
            n = len(self.blocks[b]["s"])
            if at is not None and not self.def_reaches(b, n, at):
                continue
            out |= self._origins_op(t["args"][1], (), True, visiting, (b, n))
        return out

    def _container_write_origins(self, l, proj, taint, visiting, at):
        """`v.push(x)` / `v.insert(i, x)` / `v.extend(it)` / `v.append(&mut w)` executed before `at` on the Vec local `l`:
        an element read `v[..].proj` may yield x.proj (resp. the elements of it / w)."""
        pw = getattr(self, "_pw", None)
        if pw is None:
            pw = []
            for b, t in self.iter_calls():
                m = self._PUSH_RE.search(mname(t))
                if not m or not t["args"] or t["args"][0]["k"] not in ("copy", "move"):
                    continue
                r = t["args"][0]["pl"]["l"]
                tgt = set()
                for d in self.defs().get(r, []):
                    if d[0] == "s" and d[3]["rv"]["r"] == "ref" and not d[3]["rv"]["pl"]["p"]:
                        tgt.add(d[3]["rv"]["pl"]["l"])
                pw.append((b, t, tgt, m.group(1) or m.group(2)))
            self._pw = pw
        out = set()
        for b, t, tgt, kind in pw:
            if l not in tgt or not str(self.local_ty(l)).startswith(("std::vec::Vec<", "std::collections::VecDeque<")):
                continue
            n = len(self.blocks[b]["s"])
            if at is not None and not self.def_reaches(b, n, at):
                continue
            val = t["args"][-1]
            out |= self._origins_op(val, proj, taint, visiting | {(l, proj, at)}, (b, n))
        return out

    def _closure_result_origins(self, op, b, proj, taint, at):
        """Origins (in this function's terms) of what the closure / function item passed as `op` returns; None when
        it cannot be read."""
        cps = set()
        for o in self._origins_op(op, (), False, frozenset(), at):
            if o.kind == "closure" and o.a in self.model.fnsrc:
                cps.add((o.a, int(o.b.rsplit(":bb", 1)[1]) if o.b else b))
            elif o.kind == "fnitem":
                n = norm_name(str(o.a))
                if n.endswith("::default") or n.endswith("::new") or n.endswith("::zero"):
                    return {Origin("call", n, "%s:bb%d" % (self.path, b), proj)}
                return None
            else:
                return None
        if not cps:
            return None
        from .guards import resolve
        out = set()
        for cp, cb in cps:
            cv = self.model.view(cp)
            for rb in cv.return_blocks():
                sub = cv.origins_of_place({"l": 0, "p": []}, proj=proj, at=cv.at_term(rb), taint=taint)
                out |= resolve(self.model, ((self.path, cb, "closure"),), cv, sub, taint=taint, elems=True)
        return out

    def _alias_write_origins(self, l, proj, cur, visiting, at):
        res = set()
        dw = self._dw
        if dw is None:
            dw = [(b, i, s) for b, i, s in self.iter_stmts() if "*" in s["lhs"]["p"]]
            self._dw = dw
        roots = {(o.kind, o.a, o.b): o for o in cur if o.kind in ("load", "call", "param")}
        if not roots:
            return res
        for b, i, s in dw:
            base = s["lhs"]["l"]
            if base == l:
                continue
            if at is not None and not self.def_reaches(b, i, at):
                continue
            F = tuple(self._named_fields(s["lhs"]["p"]))
            self._zip_all = True       # what the written-through pointer points into: zip components count
            try:
                base_os = self._origins_local(base, (), False, visiting | {(l, proj, at)}, (b, i))
            finally:
                self._zip_all = False
            for o in base_os:
                r = roots.get((o.kind, o.a, o.b))
                if r is None:
                    continue
                wp = tuple(x for x in tuple(o.proj) + F if not is_idx(x))
                rp = tuple(x for x in r.proj if not is_idx(x))
                n = min(len(wp), len(rp))
                if wp[:n] == rp[:n]:
                    res |= self._origins_rvalue(s["rv"], (), True, visiting | {(l, proj, at)}, b, i, (b, i))
        return res

    def _closure_write_origins(self, l, proj, taint, at):
        out = set()
        cw = self._cw
        if cw is None:
            cw = []
            for cb, cpath, ops in self.closures_created():
                if cpath not in self.model.fnsrc:
                    continue
                for k, op in enumerate(ops):
                    if op["k"] not in ("copy", "move"):
                        continue
                    r = op["pl"]["l"]
                    for d in self.defs().get(r, []):
                        if d[0] == "s" and d[3]["rv"]["r"] == "ref" and d[3]["rv"].get("mut") and not d[3]["rv"]["pl"]["p"]:
                            cw.append((cb, cpath, k, d[3]["rv"]["pl"]["l"]))
            self._cw = cw
        for cb, cpath, k, target in cw:
            if target != l:
                continue
            if at is not None and not (at[0] == cb or at[0] in self.reach_strict(cb)):
                continue
            cv = self.model.view(cpath)
            for b, i, s in cv.iter_stmts():
                lhs = s["lhs"]
                if "*" not in lhs["p"]:
                    continue
                F = cv._named_fields(lhs["p"])
                if lhs["l"] == 1:
                    if not F or F[0] != str(k):
                        continue
                    F = F[1:]
                else:
                    base = cv.origins_of_place({"l": lhs["l"], "p": []}, at=(b, i))
                    if not any(o.kind == "param" and o.a == 1 and tuple(o.proj) == (str(k),) for o in base):
                        continue
                rest = self._match_prefix(F, proj)
                if rest is None:
                    continue
                sub = cv._origins_rvalue(s["rv"], rest, taint, frozenset(), b, i, (b, i))
                from .guards import resolve
                out |= resolve(self.model, ((self.path, cb, "closure"),), cv, sub, taint=taint)
        return out

    @staticmethod
    def _match_prefix(lhs_fields, proj):
        """A def of `local.lhs_fields` feeds a read of `local.proj` when one is a prefix of the
        other. Returns the projection left to apply to the rvalue, or None if disjoint."""
        n = min(len(lhs_fields), len(proj))
        for x, y in zip(lhs_fields[:n], proj[:n]):
            if x != y and not (is_idx(x) and is_idx(y) and "[]" in (x, y)):
                return None
        if len(lhs_fields) <= len(proj):
            return tuple(proj[len(lhs_fields):])
        # def writes a sub-field of what is read: the read value (partly) comes from it
        return ()

    def _origins_rvalue(self, rv, proj, taint, visiting, b, i, at=None):
        k = rv["r"]
        if k == "use":
            o = rv["op"]
            if o["k"] == "const":
                return self._const_origins(o, proj)
            return self._origins_pl(o["pl"], proj, taint, visiting, at)
        if k == "ref":
            return self._origins_pl(rv["pl"], proj, taint, visiting, at)
        if k == "cast":
            o = rv["op"]
            if o["k"] == "const":
                return self._const_origins(o, proj)
            return self._origins_pl(o["pl"], proj, taint, visiting, at)
        if k == "agg":
            if "adt" in rv:
                if (rv["variant"] in ("Some", "Ok", "Continue") and len(rv["ops"]) == 1
                        and re.search(r"(option::Option|result::Result|ops::ControlFlow)$", rv["adt"])):
                    return self._origins_op(rv["ops"][0], proj, taint, visiting, at)
                if proj:
                    # descend into the named field
                    head = proj[0]
                    if head.startswith("#"):
                        if head[1:] == rv["variant"]:
                            return self._origins_rvalue(rv, proj[1:], taint, visiting, b, i, at)
                        return set()
                    for n, o in zip(rv["fields"], rv["ops"]):
                        if n == head:
                            return self._origins_op(o, proj[1:], taint, visiting, at)
                    return set()
                if rv["variant"] == "Err" and rv["adt"].endswith("result::Result"):
                    return {Origin("err", None, "%s:bb%d" % (self.path, b))}
                if rv["variant"] in PAYLOAD_VARIANTS and len(rv["ops"]) == 1:
                    return self._origins_op(rv["ops"][0], proj, taint, visiting, at)
                out = {Origin("agg", "%s::%s" % (rv["adt"], rv["variant"]), "%s:bb%d" % (self.path, b))}
                if taint:
                    for o in rv["ops"]:
                        out |= self._origins_op(o, (), taint, visiting, at)
                return out
            if "closure" in rv:
                if proj and str(proj[0]).isdigit() and int(proj[0]) < len(rv["ops"]):
                    # a captured variable read through the closure value (body inlined at a direct call)
                    return self._origins_op(rv["ops"][int(proj[0])], proj[1:], taint, visiting, at)
                return {Origin("closure", rv["closure"], "%s:bb%d" % (self.path, b))}
            # tuple / array
            if proj and (proj[0].isdigit()) and rv.get("tuple"):
                idx = int(proj[0])
                if idx < len(rv["ops"]):
                    return self._origins_op(rv["ops"][idx], proj[1:], taint, visiting, at)
                return set()
            if proj and rv.get("array") and re.match(r"^\[\d+\]$", proj[0]):
                idx = int(proj[0][1:-1])
                if idx < len(rv["ops"]):
                    return self._origins_op(rv["ops"][idx], proj[1:], taint, visiting, at)
                return set()
            out = set()
            p2 = proj[1:] if (proj and is_idx(proj[0])) else proj
            for o in rv["ops"]:
                out |= self._origins_op(o, p2, taint, visiting, at)
            return out or {Origin("const", "<empty-agg>")}
        if k in ("bin", "un"):
            out = {Origin("arith", rv["op"], "%s:bb%d:%d" % (self.path, b, i))}
            if taint:
                out |= self._origins_op(rv["a"], (), taint, visiting, at)
                if "b" in rv:
                    out |= self._origins_op(rv["b"], (), taint, visiting, at)
            return out
        if k == "discr":
            return {Origin("discr", pl_str(rv["pl"]), None)}
        if k == "repeat":
            return self._origins_op(rv["op"], proj, taint, visiting, at)
        return {Origin("other", rv.get("dbg", ""), None)}

    def _origins_op(self, o, proj, taint, visiting, at=None):
        if o["k"] == "const":
            return self._const_origins(o, proj)
        if o["k"] in ("copy", "move"):
            return self._origins_pl(o["pl"], proj, taint, visiting, at)
        return set()

    def _const_index(self, e):
        """Constant value of an index projection element ({"ci": k} or {"i": local} with a single constant def)."""
        if "ci" in e:
            return int(e["ci"])
        ds = self.defs().get(e["i"], [])
        if len(ds) == 1 and ds[0][0] == "s":
            rv = ds[0][3]["rv"]
            if rv["r"] == "use" and rv["op"]["k"] == "const" and str(rv["op"].get("val", "")).isdigit():
                return int(rv["op"]["val"])
        # an index variable: constant when every definition that counts (all of them, or those of the configuration the
        # view is restricted to) yields the same literal -- `let (i, j) = if first { (0, 1) } else { (1, 0) }`
        if getattr(self, "_in_ci", False):
            return None
        self._in_ci = True
        try:
            os_ = self._origins_local(e["i"], (), False, frozenset(), None)
        finally:
            self._in_ci = False
        vals = {o.a for o in os_ if o.kind == "const"}
        if os_ and len(vals) == 1 and all(o.kind == "const" for o in os_) and str(next(iter(vals))).isdigit():
            return int(next(iter(vals)))
        return None

    def _origins_pl(self, pl, proj, taint, visiting, at=None):
        # constant index into a fixed array literal `[a, b][k]`: select the k-th element
        if pl["p"] and isinstance(pl["p"][0], dict) and ("i" in pl["p"][0] or "ci" in pl["p"][0]):
            k = self._const_index(pl["p"][0])
            ds = self.defs().get(pl["l"], [])
            if k is not None and len(ds) == 1 and ds[0][0] == "s" and not ds[0][3]["lhs"]["p"]:
                rv = ds[0][3]["rv"]
                if rv["r"] == "agg" and rv.get("array") and k < len(rv["ops"]):
                    rest = tuple(self._named_fields(pl["p"][1:])) + tuple(proj)
                    return self._origins_op(rv["ops"][k], rest, taint, visiting, (ds[0][1], ds[0][2]))
        fields = self._named_fields(pl["p"])
        return self._origins_local(pl["l"], tuple(fields) + tuple(proj), taint, visiting, at)

    def alias_roots(self, local, depth=0, seen=None):
        """Locals that `local` (a pointer / reference / moved box) may refer to: follows ref / cast /
        copy definitions backwards."""
        seen = seen if seen is not None else set()
        if local in seen or depth > 6:
            return set()
        seen.add(local)
        out = set()
        for d in self.defs().get(local, []):
            if d[0] != "s":
                continue
            rv = d[3]["rv"]
            src = None
            if rv["r"] == "ref":
                src = rv["pl"]["l"]
            elif rv["r"] in ("cast", "use") and rv["op"]["k"] in ("copy", "move"):
                src = rv["op"]["pl"]["l"]
            if src is not None:
                out.add(src)
                out |= self.alias_roots(src, depth + 1, seen)
        return out

    def _vec_macro_elements(self, t, proj, taint, visiting, at):
        """`vec![a, b]` lowers to Box::new_uninit + a write of the array through a raw pointer +
        box_assume_init_into_vec_unsafe(box). Return the origins of the written array elements."""
        out = set()
        a0 = t["args"][0]
        if a0["k"] not in ("copy", "move"):
            return out
        boxes = {a0["pl"]["l"]} | self.alias_roots(a0["pl"]["l"])
        p2 = proj[1:] if (proj and is_idx(proj[0])) else proj
        for b, i, s in self.iter_stmts():
            if "*" not in s["lhs"]["p"]:
                continue
            roots = {s["lhs"]["l"]} | self.alias_roots(s["lhs"]["l"])
            if roots & boxes:
                out |= self._origins_rvalue(s["rv"], p2, taint, visiting, b, i, (b, i))
        return out

    def restricted(self, blocks):
        """Context manager: ignore definitions located outside `blocks` (path-sensitive provenance for one
        configuration: pass the blocks reachable under that configuration)."""
        view = self

        class _Ctx:
            def __enter__(self_):
                self_.old = (view._only, view._origin_cache, view._ks)
                view._only = set(blocks)
                view._origin_cache = {}
                view._ks = {}

            def __exit__(self_, *a):
                view._only, view._origin_cache, view._ks = self_.old
        return _Ctx()

    def opaque(self, rx):
        """Context manager: treat calls matching rx as opaque origins (no look-through) inside the block."""
        view = self

        class _Ctx:
            def __enter__(self_):
                self_.old = (view._stop, view._origin_cache)
                view._stop = re.compile(rx)
                view._origin_cache = {}

            def __exit__(self_, *a):
                view._stop, view._origin_cache = self_.old
        return _Ctx()

    def storage_item_of_call(self, t, at=None):
        """For a cw_storage_plus call: origins of the receiver (item paths / params)."""
        if not t["args"]:
            return set()
        return self.origins_of_operand(t["args"][0], at=at)

    def _origins_call(self, t, proj, taint, visiting, b, at=None):
        callee = mname(t)
        sc = storage_call(t)
        if sc and sc[1] in ("load", "may_load", "update", "query"):
            out = set()
            for o in self.storage_item_of_call(t, at):
                if o.kind == "item":
                    out.add(Origin("load", o.a, None, proj))
                elif o.kind == "param":
                    out.add(Origin("load", "param:%s" % o.a, None, proj))
                else:
                    out.add(Origin("load", repr(o), None, proj))
            return out or {Origin("load", "?", None, proj)}
        if callee.endswith("::from_residual"):
            return {Origin("err", None, "%s:bb%d" % (self.path, b))}
        if self._stop is not None and self._stop.search(callee):
            return {Origin("call", callee, "%s:bb%d" % (self.path, b), proj)}
        if callee == "std::boxed::box_assume_init_into_vec_unsafe" and t["args"]:
            r = self._vec_macro_elements(t, proj, taint, visiting, at)
            if r:
                return r
        if proj and callee in ("std::vec::Vec::new", "std::vec::Vec::with_capacity"):
            return set()     # an empty vector has no elements: element reads see what was pushed (see _origins_local)
        if (taint or getattr(self, "_zip_all", False)) and callee.endswith("as std::iter::Iterator>::zip") and len(t["args"]) == 2 and proj and str(proj[0]) in ("0", "1") \
                and not (self._stop is not None and self._stop.search(callee)):
            # the pairs of a zip (dependency mode only: which values a pair component may depend on): component 0 is an element
            # of the receiver, component 1 an element of the argument
            return self._origins_op(t["args"][int(proj[0])], proj[1:], taint, visiting, at)
        if callee == "std::array::map" and len(t["args"]) == 2:
            # `arr.map(T::from)`: element k of the result is the conversion of element k of the array
            f = self._origins_op(t["args"][1], (), False, visiting, at)
            if f and all(o.kind == "fnitem" and re.search(r"(as std::convert::(From|Into)<.*>>|^std::convert::(From|Into))::(from|into)$", norm_name(str(o.a))) for o in f):
                return self._origins_op(t["args"][0], proj, taint, visiting, at)
        if _AND_THEN_RE.search(callee) and len(t["args"]) == 2 and getattr(self, "model", None) is not None:
            # r.and_then(|x| f(x)) / r.map(|x| f(x)): what the closure computes from the payload (an Err / None passes through)
            r = self._closure_result_origins(t["args"][1], b, proj, taint, at)
            if r is not None:
                return r
        if _MAP_OR_RE.search(callee) and len(t["args"]) == 3 and getattr(self, "model", None) is not None:
            # opt.map_or(default, |x| e) / map_or_else(|| d, |x| e): the default, or what the closure computes from the payload
            r = self._closure_result_origins(t["args"][2], b, proj, taint, at)
            if r is not None:
                d = (self._closure_result_origins(t["args"][1], b, proj, taint, at) if callee.endswith("_else")
                     else self._origins_op(t["args"][1], proj, taint, visiting, at))
                if d is not None:
                    return r | d
        if _UNION_ARGS_RE.search(callee) and len(t["args"]) >= 2:
            a1 = None
            if callee.endswith("_else") and getattr(self, "model", None) is not None:
                a1 = self._closure_result_origins(t["args"][1], b, proj, taint, at)
            return (self._origins_op(t["args"][0], proj, taint, visiting, at)
                    | (a1 if a1 is not None else self._origins_op(t["args"][1], proj, taint, visiting, at)))
        if _TRANSPARENT_RE.search(callee):
            if t["args"]:
                return self._origins_op(t["args"][0], proj, taint, visiting, at)
        if TRANSPARENT_ARG1.search(callee):
            if len(t["args"]) > 1:
                return self._origins_op(t["args"][1], proj, taint, visiting, at)
        out = {Origin("call", callee, "%s:bb%d" % (self.path, b), proj)}
        if taint:
            for a in t["args"]:
                out |= self._origins_op(a, (), taint, visiting, at)
        return out

    # -- call sites ---------------------------------------------------------------------
    def calls_to(self, pattern):
        """[(block, term)] for calls whose resolved callee (generics stripped) matches regex."""
        rx = re.compile(pattern) if isinstance(pattern, str) else pattern
        out = []
        for b, t in self.iter_calls():
            if rx.search(mname(t)):
                out.append((b, t))
        return out

    def closures_created(self):
        """[(block, closure_path, ops)]"""
        out = []
        for b, i, s in self.iter_stmts():
            rv = s["rv"]
            if rv["r"] == "agg" and "closure" in rv:
                out.append((b, rv["closure"], rv["ops"]))
        return out

    def line_of_block(self, b):
        return self.blocks[b]["t"]["ln"]

    def where(self, b=None):
        ln = self.fn["line"] if b is None else self.line_of_block(b)
        return "%s:%d" % (self.fn["file"], ln)


class Model:
    """Whole-program view: FnViews, call graph, closure parents."""

    def __init__(self, prog, use_registry_std=False):
        self.prog = prog
        self.views = {}
        fns = dict(prog.fns)
        if use_registry_std:
            for p, f in prog.fns_registry.items():
                fns[p] = f
        self.fnsrc = fns
        self._callers = None
        self._callees = {}
        self._inl_memo = {}

    def has(self, path):
        return path in self.fnsrc

    def view(self, path):
        v = self.views.get(path)
        if v is None:
            from . import inline
            v = FnView(self.prog, inline.inline_fn(self.fnsrc, self.fnsrc[path], _memo=self._inl_memo))
            v.model = self
            self.views[path] = v
        return v

    def inlined_helpers(self):
        """Workspace functions unknown to the rule tables that are called somewhere: they are analysed as part of every
        caller (inline.py), so whole-crate scans do not visit them a second time out of context."""
        r = getattr(self, "_inl_helpers", None)
        if r is None:
            from . import inline
            called = set()
            for p, f in self.fnsrc.items():
                for bb in f.get("body", {}).get("blocks", []):
                    t = bb.get("t")
                    if t and t["k"] == "call":
                        c = t.get("resolved") or t.get("callee") or ""
                        if c and c != p:
                            called.add(c)
            r = {c for c in called if inline.is_unknown_helper(self.fnsrc, c)}
            self._inl_helpers = r
        return r

    def all_paths(self, crate=None, include_inlined=False):
        skip = set() if include_inlined else self.inlined_helpers()
        for p, f in self.fnsrc.items():
            if p in skip:
                continue
            if crate is None or f["crate"] == crate:
                yield p

    def closures_of(self, path, depth=3):
        """Closures belonging to `path`: those nested in it by name and those created by helper bodies inlined into it."""
        out = [x for x in self.fnsrc if x.startswith(path + "::{closure")]
        if depth > 0 and path in self.fnsrc:
            for cb, cp, ops in self.view(path).closures_created():
                if cp in self.fnsrc and cp not in out:
                    out.append(cp)
                    for y in self.closures_of(cp, depth - 1):
                        if y not in out:
                            out.append(y)
        return out

    def callees(self, path):
        """[(block, callee_path, kind)] kind in call|closure; only callees with known bodies
        are resolvable but all are listed."""
        r = self._callees.get(path)
        if r is not None:
            return r
        v = self.view(path)
        out = []
        for b, t in v.iter_calls():
            c = term_callee(t)
            if c:
                out.append((b, c, "call"))
            # fn items passed as arguments (e.g. .map(helper))
            for a in t["args"]:
                if a["k"] == "const" and "fn" in a:
                    out.append((b, a["fn"], "fnarg"))
        for b, cp, ops in v.closures_created():
            out.append((b, cp, "closure"))
        self._callees[path] = out
        return out

    def callers(self):
        if self._callers is None:
            d = defaultdict(list)
            for p in self.fnsrc:
                for b, c, k in self.callees(p):
                    d[c].append((p, b, k))
            self._callers = d
        return self._callers

    def reach_fns(self, root, start_blocks=None, max_depth=8):
        """Functions (with bodies) reachable from root; if start_blocks given, only calls made
        in those blocks of root are followed at depth 0. Returns {path: depth}."""
        out = {}
        dq = deque()
        for b, c, k in self.callees(root):
            if start_blocks is not None and b not in start_blocks:
                continue
            if c in self.fnsrc and c not in out:
                out[c] = 1
                dq.append(c)
        while dq:
            p = dq.popleft()
            if out[p] >= max_depth:
                continue
            for b, c, k in self.callees(p):
                if c in self.fnsrc and c not in out and c != root:
                    out[c] = out[p] + 1
                    dq.append(c)
        return out


# ---------------------------------------------------------------------------------------
# Boolean conditions: resolve what a switch tests


CMP_METHODS = {"eq": "==", "ne": "!=", "lt": "<", "le": "<=", "gt": ">", "ge": ">="}
BIN_CMP = {"Eq": "==", "Ne": "!=", "Lt": "<", "Le": "<=", "Gt": ">", "Ge": ">="}
NEGATE = {"==": "!=", "!=": "==", "<": ">=", ">=": "<", ">": "<=", "<=": ">"}
_CMP_RE = re.compile(r"<(.*) as std::cmp::Partial(?:Eq|Ord)(?:<.*>)?>::(eq|ne|lt|le|gt|ge)$")


class Cond:
    """A resolved branch condition: op over two operands (a, b), or a predicate call, or a
    bool place; `neg` tells whether the switch tests its negation."""

    def __init__(self, kind, **kw):
        self.kind = kind  # 'cmp' | 'call' | 'place' | 'discr' | 'const'
        self.__dict__.update(kw)

    def __repr__(self):
        if self.kind == "cmp":
            return "cmp(%s %s %s)" % (op_str(self.a), self.op, op_str(self.b))
        if self.kind == "call":
            return "%scall(%s)" % ("!" if self.neg else "", self.callee)
        if self.kind == "place":
            return "%splace(%s)" % ("!" if self.neg else "", pl_str(self.pl))
        return self.kind


def resolve_bool(v, op, depth=0, at=None):
    """Resolve a bool operand to a Cond (following single-def copies and Not).
    `at` is the position where the operand is read (for flow-aware provenance)."""
    if op["k"] == "const":
        return Cond("const", val=op.get("val"))
    pl = op["pl"]
    if pl["p"]:
        return Cond("place", pl=pl, neg=False, at=at)
    l = pl["l"]
    ds = [d for d in v.defs().get(l, [])]
    if at is not None and len(ds) > 1:
        # only the definitions that can reach this read (a merge block duplicated per predecessor sees one each)
        rs = [d for d in ds if v.def_reaches_killing(l, d[1], d[2] if d[0] == "s" else len(v.blocks[d[1]]["s"]), at)]
        if rs:
            ds = rs
    # ignore drop-flag style constant defs when there is exactly one non-const def
    nonconst = [d for d in ds if not (d[0] == "s" and d[3]["rv"]["r"] == "use" and d[3]["rv"]["op"]["k"] == "const")]
    if len(nonconst) != 1 or depth > 6:
        if len(ds) == 1 and not nonconst and ds[0][0] == "s":
            return Cond("const", val=ds[0][3]["rv"]["op"].get("val"), pl=pl, neg=False)
        if len(ds) >= 1 and not nonconst:
            if v.var_name(l) is not None:
                # a user-declared bool set from constants on different paths (`let mut ok = false; .. ok = true;`)
                return Cond("place", pl=pl, neg=False, at=at)
            return Cond("const", val=None, pl=pl, neg=False)
        return Cond("place", pl=pl, neg=False, at=at)
    d = nonconst[0]
    if d[0] == "c":
        t = d[2]
        callee = mname(t)
        m = _CMP_RE.search(callee)
        if m and len(t["args"]) == 2:
            return Cond("cmp", op=CMP_METHODS[m.group(2)], a=t["args"][0], b=t["args"][1], ty=m.group(1),
                        block=d[1], site=("c", d[1]))
        return Cond("call", callee=callee, term=t, block=d[1], neg=False, site=("c", d[1]))
    s = d[3]
    rv = s["rv"]
    if rv["r"] == "bin" and rv["op"] in BIN_CMP:
        return Cond("cmp", op=BIN_CMP[rv["op"]], a=rv["a"], b=rv["b"], ty="prim", block=d[1], site=("s", d[1], d[2]))
    if rv["r"] == "un" and rv["op"] == "Not":
        c = resolve_bool(v, rv["a"], depth + 1, at=(d[1], d[2]))
        return negate(c)
    if rv["r"] == "use" and rv["op"]["k"] in ("copy", "move"):
        return resolve_bool(v, rv["op"], depth + 1, at=(d[1], d[2]))
    if rv["r"] == "discr":
        return Cond("discr", pl=rv["pl"], enum=rv.get("enum"), variants=rv.get("variants"), block=d[1], at=(d[1], d[2]))
    return Cond("place", pl=pl, neg=False, at=at)


def negate(c):
    if c.kind == "cmp":
        return Cond("cmp", op=NEGATE[c.op], a=c.a, b=c.b, ty=c.ty, block=c.block, site=c.site)
    if c.kind in ("call", "place"):
        d = dict(c.__dict__)
        d["neg"] = not c.neg
        k = d.pop("kind")
        return Cond(k, **d)
    return c


def switch_conds(v):
    """For every live switch block: (block, Cond, [(label, target)]).
    For bool switches label '0' is the false edge and 'otherwise' the true edge."""
    out = []
    for b in sorted(v.live_blocks()):
        t = v.blocks[b]["t"]
        if t["k"] != "switch":
            continue
        c = resolve_bool(v, t["discr"], at=v.at_term(b))
        out.append((b, c, v.edges_from(b)))
    return out


def cmp_true_false_edges(v, b, cond):
    """For a bool switch at block b: (true_targets, false_targets) as edge tuples (b, tgt)."""
    t = v.blocks[b]["t"]
    false_t = [tgt for val, tgt in t["targets"] if val == "0"]
    true_t = [tgt for val, tgt in t["targets"] if val != "0"]
    # 'otherwise' is the complement
    if false_t and not true_t:
        true_t = [t["otherwise"]]
    elif true_t and not false_t:
        false_t = [t["otherwise"]]
    return [(b, x) for x in true_t], [(b, x) for x in false_t]


def try_edges(v, b):
    """If block b is `switchInt(discriminant(x))` where x = Try::branch(..) [the `?` operator],
    return (continue_edge, break_edge, branch_call_block, inner_operand) else None."""
    t = v.blocks[b]["t"]
    if t["k"] != "switch":
        return None
    c = resolve_bool(v, t["discr"])
    if c.kind != "discr":
        return None
    l = c.pl["l"]
    ds = v.defs().get(l, [])
    for d in ds:
        if d[0] == "c" and re.search(r"as std::ops::Try>::branch$", mname(d[2])):
            cont = [(b, tgt) for val, tgt in t["targets"] if val == "0"]
            brk = [(b, tgt) for val, tgt in t["targets"] if val == "1"]
            return cont, brk, d[1], d[2]["args"][0]
    return None
