"""G5/G8: dispatch tables, effect sites and call-chain enumeration."""
import re
from collections import defaultdict, deque
from .facts import mname, term_callee, pl_str, op_str
from .mir import storage_call, resolve_bool, Origin

MSG_ADT_RE = re.compile(
    r"^(cosmwasm_std::(WasmMsg|BankMsg|CosmosMsg|SubMsg|StakingMsg|DistributionMsg|IbcMsg|GovMsg)"
    r"|cw20::Cw20ExecuteMsg|.*::ExecuteMsg|.*::Cw20HookMsg|.*::CallbackMsg|.*::MsgBurn|.*::MsgMint|.*::MsgCreateDenom)$")


class Effect:
    __slots__ = ("kind", "what", "fn", "block", "idx", "extra")

    def __init__(self, kind, what, fn, block, idx=None, extra=None):
        self.kind = kind      # 'write' | 'msg' | 'call'
        self.what = what      # item path / adt::variant / callee
        self.fn = fn
        self.block = block
        self.idx = idx
        self.extra = extra

    def __repr__(self):
        return "%s:%s@%s:bb%d" % (self.kind, self.what, self.fn, self.block)


def dispatch_table(view, param=None):
    """Find the `match msg` of an entry point: the switch on discriminant(param_k).
    Returns (switch_block, enum_path, {variant: target_block}, variants_by_value) or None.
    If several switches test the param's discriminant, the one closest to entry (dominating
    the others) is returned."""
    cands = []
    for b in sorted(view.live_blocks()):
        t = view.blocks[b]["t"]
        if t["k"] != "switch":
            continue
        c = resolve_bool(view, t["discr"])
        if c.kind != "discr" or not c.__dict__.get("variants"):
            continue
        pl = c.pl
        if pl["p"]:
            continue
        l = pl["l"]
        ok = False
        if 1 <= l <= view.argc and (param is None or l == param):
            ok = True
        else:
            # a moved/copied param
            os_ = view.origins_of_place(pl, at=view.at_term(c.block))
            if any(o.kind == "param" and not o.proj and (param is None or o.a == param) for o in os_):
                ok = True
        if ok:
            cands.append((b, c))
    if not cands:
        return None
    # prefer ExecuteMsg/QueryMsg-like enums and the earliest block
    b, c = cands[0]
    t = view.blocks[b]["t"]
    variants = c.variants
    table = {}
    used = set()
    for val, tgt in t["targets"]:
        name = variants.get(val)
        if name is not None:
            table[name] = tgt
            used.add(val)
    rest = [n for v, n in variants.items() if v not in used]
    for n in rest:
        table[n] = t["otherwise"]
    return b, c.enum, table, variants


def site_term(model, o):
    """Terminator of the call site recorded in a 'call' origin."""
    fn, bb = o.b.rsplit(":bb", 1)
    return model.view(fn), int(bb), model.view(fn).blocks[int(bb)]["t"]


def return_origins(model, path, proj=(), depth=0):
    """Origins of the value a workspace function returns (payload of Ok/Some unwrapped)."""
    v = model.view(path)
    out = set()
    for o in v.origins_of_place({"l": 0, "p": []}, proj=proj):
        if o.kind == "err":
            continue
        if o.kind == "call" and depth < 3:
            _, _, t = site_term(model, o)
            c = term_callee(t)
            if c in model.fnsrc and c != path:
                out |= return_origins(model, c, o.proj, depth + 1)
                continue
        out.add(o)
    return out


def resolve_items(model, view, origins):
    """Map receiver origins to storage item paths where possible (following helper returns)."""
    out = set()
    for o in origins:
        if o.kind == "call":
            _, _, t = site_term(model, o)
            c = term_callee(t)
            if c in model.fnsrc:
                for r in return_origins(model, c, o.proj):
                    out.add(r)
                continue
        out.add(o)
    return out


def fn_effects(model, path):
    """Effects located directly in function `path`."""
    v = model.view(path)
    out = []
    for b, t in v.iter_calls():
        sc = storage_call(t)
        if sc and sc[1] in ("save", "update", "remove"):
            items = resolve_items(model, v, v.storage_item_of_call(t, v.at_term(b)))
            items = {o for o in items if o.kind != "err"}
            for o in items:
                if o.kind == "item":
                    out.append(Effect("write", o.a, path, b, extra=sc[1]))
                elif o.kind == "param":
                    out.append(Effect("write", "param:%d" % o.a, path, b, extra=sc[1]))
                else:
                    out.append(Effect("write", "?" + repr(o), path, b, extra=sc[1]))
            if not items:
                out.append(Effect("write", "?", path, b, extra=sc[1]))
            continue
        n = mname(t)
        out.append(Effect("call", n, path, b))
    for b, i, s in v.iter_stmts():
        rv = s["rv"]
        if rv["r"] == "agg" and "adt" in rv and MSG_ADT_RE.match(rv["adt"]):
            out.append(Effect("msg", "%s::%s" % (rv["adt"], rv["variant"]), path, b, idx=i, extra=rv))
    return out


def dispatch_on_enum(view, enum_suffix):
    """Find a `match` on a value of the enum whose path ends with enum_suffix, wherever the value
    comes from (e.g. the decoded cw20 hook message). -> (switch_block, enum, {variant: target})"""
    for b in sorted(view.live_blocks()):
        t = view.blocks[b]["t"]
        if t["k"] != "switch":
            continue
        c = resolve_bool(view, t["discr"])
        if c.kind != "discr" or not c.__dict__.get("variants") or not (c.enum or "").endswith(enum_suffix):
            continue
        table = {}
        used = set()
        for val, tgt in t["targets"]:
            name = c.variants.get(val)
            if name is not None:
                table[name] = tgt
                used.add(val)
        for vv, n in c.variants.items():
            if vv not in used:
                table[n] = t["otherwise"]
        return b, c.enum, table
    return None


def enumerate_chains(model, root, start_blocks=None, max_depth=6, follow=None, prefix=()):
    """Yield (chain, path) for every call chain root -> ... -> f, where chain is a tuple of
    (fn_path, block) call sites leading to f (the last element's callee is f). The root itself
    is yielded with an empty chain. Recursion is cut at max_depth and on cycles.
    `follow(path)` may veto descending into a function."""
    out = []

    def rec(path, chain, seen):
        out.append((chain, path))
        if len(chain) - len(prefix) >= max_depth:
            return
        for b, c, k in model.callees(path):
            if path == root and start_blocks is not None and b not in start_blocks:
                continue
            if c not in model.fnsrc or c in seen:
                continue
            if follow and not follow(c):
                continue
            rec(c, chain + ((path, b, k),), seen | {c})

    rec(root, tuple(prefix), {root} | {c[0] for c in prefix})
    return out


def arm_blocks(view, target, switch_block):
    """Blocks belonging to a dispatch arm: reachable from the arm's target without going back
    through the switch block."""
    return view.reachable(target, cut_blocks=[switch_block])


def resolve_param_item(model, chain, param_idx):
    """Resolve a storage receiver that is parameter `param_idx` of the last function in the
    chain to item paths, by looking at the call site in the caller (recursively)."""
    if not chain:
        return set()
    caller, b, kind = chain[-1]
    v = model.view(caller)
    t = v.blocks[b]["t"]
    if kind != "call" or t["k"] != "call":
        return set()
    if param_idx - 1 >= len(t["args"]):
        return set()
    os_ = v.origins_of_operand(t["args"][param_idx - 1], at=v.at_term(b))
    res = set()
    for o in os_:
        if o.kind == "item":
            res.add(o.a)
        elif o.kind == "param" and not o.proj:
            res |= resolve_param_item(model, chain[:-1], o.a)
    return res


CONFIG_CLASS_MSGS = re.compile(r"(WasmMsg::(Instantiate|Migrate|UpdateAdmin|ClearAdmin)|::ExecuteMsg::UpdateConfig)$")
CONFIG_CLASS_CALLS = re.compile(r"^cw_controllers::(Hooks::(execute_add_hook|execute_remove_hook|add_hook|remove_hook)"
                                r"|Admin::(execute_update_admin|set))$")
MSG_EFFECT = re.compile(r"^cosmwasm_std::(WasmMsg|BankMsg|SubMsg|StakingMsg|DistributionMsg)::")
MSG_HELPER_CALLS = re.compile(r"^cosmwasm_std::(wasm_execute|wasm_instantiate)$|^cosmwasm_std::SubMsg::(new|reply_\w+)$")


def collect_effects(model, root, start_blocks=None, prefix=()):
    """[(chain, effect, item)] for all state/message effects reachable from `start_blocks` of `root`
    (whole function if None): storage writes (receiver resolved), cosmwasm message constructions,
    message-building helper calls and cw_controllers management calls."""
    out = []
    for chain, f in enumerate_chains(model, root, start_blocks=start_blocks, prefix=prefix):
        for e in fn_effects(model, f):
            if f == root and start_blocks is not None and e.block not in start_blocks:
                continue
            if e.kind == "write":
                item = e.what
                if item.startswith("param:"):
                    items = resolve_param_item(model, chain, int(item[6:]))
                    if not items:
                        out.append((chain, e, item))
                    for it in items:
                        out.append((chain, e, it))
                    continue
                out.append((chain, e, item))
            elif e.kind == "msg":
                if MSG_EFFECT.match(e.what) or CONFIG_CLASS_MSGS.search(e.what):
                    out.append((chain, e, e.what))
            elif e.kind == "call":
                if CONFIG_CLASS_CALLS.search(e.what) or MSG_HELPER_CALLS.search(e.what):
                    out.append((chain, e, e.what))
    return out


def expand_passthrough(model, view, origins, depth=0):
    """Look through workspace helpers that return (a field of) one of their arguments unchanged:
    origin call(f).proj where f returns param(i).proj is replaced by the origins of argument i."""
    out = set()
    for o in origins:
        if o.kind == "call" and depth < 3:
            cv, cb, t = site_term(model, o)
            c = term_callee(t)
            if c in model.fnsrc and cv.path == view.path:
                ros = return_origins(model, c, o.proj)
                if ros and all(r.kind == "param" and r.b == c for r in ros):
                    for r in ros:
                        if r.a - 1 < len(t["args"]):
                            sub = view.origins_of_operand(t["args"][r.a - 1], proj=r.proj, at=view.at_term(cb))
                            out |= expand_passthrough(model, view, sub, depth + 1)
                    continue
        out.add(o)
    return out
