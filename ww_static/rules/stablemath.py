"""Wiring rules shared by the two stableswap implementations (pair: C03, three-asset pool: C04)."""
import re
from collections import Counter
from ..facts import mname
from ..dataflow import expr_shape, norm_shape
from ..mir import _TRANSPARENT_RE


def _short(t):
    return re.sub(r"^.*::", "", mname(t).rstrip(">"))


def swap_params(sh, a, b):
    if isinstance(sh, str):
        A, B = "param(%d)" % a, "param(%d)" % b
        return sh.replace(A, "\x00").replace(B, A).replace("\x00", B)
    return tuple(swap_params(x, a, b) if isinstance(x, (tuple, str)) else x for x in sh)


def check_mint_helper(ctx, rule, v, compute_d_rx, dep, pool, supply, key):
    """The mint helper computes d0 = D(pool_0..pool_n), d1 = D(pool_0 + deposit_0, .., pool_n + deposit_n) -- each reserve
    grows by the deposit of the SAME index -- and returns supply * (d1 - d0) / d0."""
    cds = v.calls_to(compute_d_rx)
    n = len(dep)
    want0 = ["param(%d)" % p for p in pool]
    want1 = [norm_shape(("add", ("param(%d)" % p, "param(%d)" % d))) for p, d in zip(pool, dep)]

    def dargs(t):
        # the reserves are the last n arguments (a leading self / amp argument is not one)
        return t["args"][-n:]
    shapes = [[norm_shape(expr_shape(v, a, v.at_term(b), depth=3)) for a in dargs(t)] for b, t in cds]
    ok = len(cds) == 2 and sorted(shapes, key=repr) == sorted([want0, want1], key=repr)
    ctx.ob(rule, "%s|invariants-before-and-after" % key, ok,
           "the invariant is computed on %s (expected %s and %s: pool_i + deposit_i)" % (shapes, want0, want1), v.where(cds[0][0]) if cds else v.where())
    rets = []
    for b, i, s_ in v.iter_stmts():
        if s_["lhs"]["l"] == 0 and s_["rv"]["r"] == "agg" and s_["rv"].get("variant") == "Some":
            rets.append(norm_shape(expr_shape(v, s_["rv"]["ops"][0], (b, i), depth=7)))
    # `(d_1 > d_0).then(|| amount)`: the payload is what the closure computes
    from ..dataflow import _closure_result_shapes
    ret_os = set()
    for rb in v.return_blocks():
        ret_os |= v.origins_of_place({"l": 0, "p": []}, at=v.at_term(rb))
    for b, t in v.calls_to(r"^std::bool::then$"):
        if any(o.kind == "call" and o.b == "%s:bb%d" % (v.path, b) for o in ret_os):
            for sh in _closure_result_shapes(v, b, t, 8) or ["?"]:
                rets.append(norm_shape(sh))
    name = re.sub(r"\W+$", "", compute_d_rx).split("::")[-1].rstrip("$")

    def leafify(sh):
        if isinstance(sh, str):
            return sh
        if sh[0] == name:
            inner = [norm_shape(x) for x in sh[1][-n:]]
            return "d0" if inner == want0 else ("d1" if inner == want1 else "d?")
        return (sh[0], tuple(leafify(x) for x in sh[1])) + tuple(sh[2:])
    got = [norm_shape(leafify(r)) for r in rets]
    want = norm_shape(("div", (("mul", ("param(%d)" % supply, ("sub", ("d1", "d0")))), "d0")))
    ctx.ob(rule, "%s|mint=supply*(d1-d0)/d0" % key, got == [want], "minted amount computed as %s (expected %s)" % (got, want), v.where())


def check_symmetric(ctx, rule, w, params, key):
    """A function that is mathematically symmetric in `params` must use them symmetrically: for every call site that
    takes one of them as a direct argument, the pair (operator tree of the maximal same-operation chain the site belongs
    to, consumers of the chain's result) forms a multiset that is invariant under exchanging any two of the parameters."""
    sites = {}
    for b, t in w.iter_calls():
        sites["%s:bb%d" % (w.path, b)] = (b, t)

    def consumers(me):
        out = []
        for cb, ct in w.iter_calls():
            if _TRANSPARENT_RE.search(mname(ct)):
                continue   # unwrap / into / `?`: the value passes through to the real consumer
            for ai, a in enumerate(ct["args"]):
                os_ = w.origins_of_operand(a, at=w.at_term(cb))
                if os_ and all(o.kind == "call" and o.b == me for o in os_):
                    out.append((cb, ct, ai))
        return out

    def canon(t):
        n = norm_shape((_short(t), ()))
        return n[0]

    def sig(swap):
        out = Counter()
        for me, (b, t) in sites.items():
            hit = False
            for a in t["args"]:
                os_ = w.origins_of_operand(a, at=w.at_term(b))
                if len(os_) == 1 and all(o.kind == "param" and o.a in params and not o.proj for o in os_):
                    hit = True
            if not hit:
                continue
            # climb while the only consumer is the same associative operation
            top, tb, tt = me, b, t
            for _ in range(4):
                cons = consumers(top)
                if len(cons) == 1 and canon(cons[0][1]) == canon(tt) and canon(tt) in ("add", "mul"):
                    tb, tt = cons[0][0], cons[0][1]
                    top = "%s:bb%d" % (w.path, tb)
                else:
                    break
            node = norm_shape((_short(tt), tuple(expr_shape(w, a, w.at_term(tb), depth=2) for a in tt["args"])))
            cons = sorted((_short(ct), ai) for cb, ct, ai in consumers(top))
            if swap:
                node = norm_shape(swap_params(node, *swap))
            out[(repr(node), tuple(cons))] += 1
        return out
    base = sig(None)
    bad = []
    for i in range(len(params) - 1):
        sw = sig((params[i], params[i + 1]))
        if sw != base:
            diff = sorted(map(repr, (base - sw).elements())) + sorted(map(repr, (sw - base).elements()))
            bad.append("exchanging param(%d) and param(%d): %s" % (params[i], params[i + 1], diff[:4]))
    ctx.ob(rule, "%s|symmetric-in-the-reserves" % key, bool(base) and not bad,
           ("operations applied to the reserves and the consumers of their results are invariant under exchanging the reserves: %s" % sorted(map(repr, base)))
           if not bad else "not symmetric: %s" % bad, w.where())


def check_newton_step(ctx, rule, v, amp, d, dprod, sumx, n, key):
    """The Newton step of the invariant solver is d' = (Ann*S + Dp*n) * d / ((Ann - 1)*d + (n + 1)*Dp) with Ann = amp * n
    (operator tree of the returned value, spelling normalised). Dropping the n of Ann prices deposits with half the
    amplification while swaps keep the full one."""
    rets = []
    for b, i, s_ in v.iter_stmts():
        if s_["lhs"]["l"] == 0 and s_["rv"]["r"] == "agg" and s_["rv"].get("variant") == "Some":
            rets.append(norm_shape(expr_shape(v, s_["rv"]["ops"][0], (b, i), depth=9)))
    ann = ("mul", (amp, n))
    want = norm_shape(("div", (("mul", (d, ("add", (("mul", (ann, sumx)), ("mul", (dprod, n)))))),
                               ("add", (("mul", (d, ("sub", (ann, "const(1)")))), ("mul", (dprod, ("add", (n, "const(1)")))))))))
    ctx.ob(rule, "%s|newton-step" % key, rets == [want], "returned value %s (expected %s)" % (rets, want), v.where())


def deposit_pool_index(v, model, operand, at, proj=()):
    """Which pool position a deposit amount belongs to: the operand must be
    `assets.iter().find(|a| a.info.equal(&pools[i].info)).map(|a| a.amount)` (in any spelling that keeps these calls);
    returns the sorted list of pool indices `i` the find-closure compares with ("?" when the shape is not recognised)."""
    from ..dataflow import call_of
    from ..guards import resolve
    found = set()
    for o in v.origins_of_operand(operand, proj=tuple(proj), at=at):
        c = call_of(v, o)
        if not c or not mname(c[1]).endswith("Option::map"):
            found.add("?")
            continue
        for fo in v.origins_of_operand(c[1]["args"][0], at=v.at_term(c[0])):
            fc = call_of(v, fo)
            if not fc or not mname(fc[1]).endswith("Iterator>::find"):
                found.add("?")
                continue
            for co in v.origins_of_operand(fc[1]["args"][1], at=v.at_term(fc[0])):
                if co.kind == "closure" and co.a in model.fnsrc:
                    cv = model.view(co.a)
                    chain = ((v.path, fc[0], "closure"),)
                    for xb, xt in cv.calls_to(r"AssetInfo::equal$"):
                        for arg in xt["args"]:
                            for r in resolve(model, chain, cv, cv.origins_of_operand(arg, at=cv.at_term(xb))):
                                if r.kind == "call" and r.a.endswith("query_pools") and r.proj and r.proj[-1] == "info":
                                    found.add(r.proj[0])
    if not found or found == {"?"}:
        z = _zip_built_index(v, model, operand, at, proj)
        if z is not None:
            return [z]
    return sorted(found) or ["?"]


def _zip_built_index(v, model, operand, at, proj=()):
    """The deposits array filled position by position next to the pools:
    `for (deposit, pool) in deposits.iter_mut().zip(pools.iter()) { .. if asset.info.equal(&pool.info) { m = Some(asset.amount) } ..; *deposit = m }`.
    `zip` pairs equal positions, so deposits[k] is matched against pools[k] for every k: returns "[k]" for an operand that
    reads element k of such an array, None when the pattern does not hold."""
    from ..dataflow import call_of
    from ..mir import switch_conds
    # the array local and the constant index the operand reads
    def locate(op, depth=0):
        if op.get("k") not in ("copy", "move"):
            return None
        pl = op["pl"]
        F = [x for x in list(v._named_fields(pl["p"])) + list(proj) if isinstance(x, str)]
        idx = [x for x in F if re.fullmatch(r"\[\d+\]", x)]
        if idx:
            return pl["l"], idx[0]
        if depth < 4 and not pl["p"]:
            ds = v.defs().get(pl["l"], [])
            if len(ds) == 1 and ds[0][0] == "s" and ds[0][3]["rv"]["r"] == "use":
                return locate(ds[0][3]["rv"]["op"], depth + 1)
            if len(ds) == 1 and ds[0][0] == "s" and ds[0][3]["rv"]["r"] == "ref":
                return locate({"k": "copy", "pl": ds[0][3]["rv"]["pl"]}, depth + 1)     # `&deposits[k]` (a method receiver)
        return None
    loc = locate(operand)
    if loc is None:
        return None
    arr, k = loc
    roots = {arr} | v.alias_roots(arr)
    for b, i, s_ in v.iter_stmts():
        if s_["lhs"]["p"] != ["*"]:
            continue
        with v.opaque(r"Iterator>::next$"):
            od = v.origins_of_place({"l": s_["lhs"]["l"], "p": []}, at=(b, i))
        if len(od) != 1:
            continue
        o = next(iter(od))
        c = call_of(v, o)
        if not c or not mname(c[1]).endswith("Iterator>::next") or tuple(o.proj) != ("0",):
            continue
        nb, nt = c
        with v.opaque(r"Iterator>::zip$"):
            zo = v.origins_of_operand(nt["args"][0], at=v.at_term(nb))
        zs = [call_of(v, x) for x in zo if x.kind == "call" and x.a.endswith("Iterator>::zip")]
        if len(zs) != 1 or zs[0] is None:
            continue
        zb, zt = zs[0]
        with v.opaque(r"std::slice::iter_mut$"):
            mo = v.origins_of_operand(zt["args"][0], at=v.at_term(zb))
        ims = [call_of(v, x) for x in mo if x.kind == "call" and x.a.endswith("slice::iter_mut")]
        if len(ims) != 1 or ims[0] is None or ims[0][1]["args"][0].get("k") not in ("copy", "move"):
            continue
        a0l = ims[0][1]["args"][0]["pl"]["l"]
        if not (({a0l} | v.alias_roots(a0l)) & roots):
            continue
        partner = v.origins_of_operand(zt["args"][1], at=v.at_term(zb))
        if not (partner and all(x.kind == "call" and x.a.endswith("query_pools") for x in partner)):
            continue
        # the value written derives from an asset's amount, selected by equality with the zip partner's info
        val = v.origins_of_operand(s_["rv"]["op"], at=(b, i), taint=True) if s_["rv"]["r"] == "use" else set()
        if not any(x.kind == "param" and x.proj and x.proj[-1] == "amount" for x in val):
            continue
        for sb, cnd, _ in switch_conds(v):
            if cnd.kind != "call" or not cnd.callee.endswith("AssetInfo::equal"):
                continue
            for arg in cnd.term["args"]:
                with v.opaque(r"Iterator>::next$"):
                    ao = v.origins_of_operand(arg, at=v.at_term(cnd.block))
                if ao and all(x.kind == "call" and x.b == o.b and tuple(x.proj[:1]) == ("1",) and x.proj[-1] == "info" for x in ao):
                    return k
    return None


def loop_bounds(v):
    """Constant upper bounds of `for _ in 0..N` / `0..=N` loops in a function."""
    from ..dataflow import const_of
    out = []
    for b, i, s_ in v.iter_stmts():
        rv = s_["rv"]
        if rv["r"] == "agg" and rv.get("adt", "").endswith("ops::Range") and "end" in rv.get("fields", []):
            k = const_of(v, rv["ops"][rv["fields"].index("end")], (b, i))
            if k is not None:
                out.append(int(k))
    for b, t in v.calls_to(r"^std::ops::RangeInclusive::new$"):
        k = const_of(v, t["args"][1], v.at_term(b))
        if k is not None:
            out.append(int(k) + 1)
    return out


def check_solver_bounds_agree(ctx, rule):
    """The two deposit-side invariant solvers (pair helpers::compute_d, 3-pool StableSwap::compute_d) return their last
    iterate without signalling non-convergence, so the iteration budget is part of the result for very unbalanced pools:
    the two sibling implementations must use the same constant bound (cross-check of siblings; today 256)."""
    a = ctx.view("terraswap_pair::helpers::compute_d", rule)
    b = ctx.view("stableswap_3pool::stableswap_math::curve::StableSwap::compute_d", rule)
    if a is None or b is None:
        return
    ba, bb = loop_bounds(a), loop_bounds(b)
    ctx.ob(rule, "compute_d|iteration-bounds-agree", len(ba) == 1 and ba == bb,
           "Newton iteration bounds: pair %s, 3-pool %s (must be one constant each, equal)" % (ba, bb), a.where())


def check_no_self_comparison(ctx, rule, v, key):
    """Convergence tests of an iterative solver compare the new iterate with the PREVIOUS one. When the snapshot of the
    previous value is taken after the update, both operands have the same provenance: the test compares a value with
    itself, the loop stops after one step and returns an unconverged value. No ordering comparison in a solver may have
    identical, non-constant provenance on both sides."""
    from ..mir import switch_conds
    from ..dataflow import cond_at
    bad = []
    n = 0
    for b, c, _ in switch_conds(v):
        if c.kind != "cmp" or c.op not in (">", "<", ">=", "<="):
            continue
        at = cond_at(v, c)
        oa, ob = v.origins_of_operand(c.a, at=at), v.origins_of_operand(c.b, at=at)
        if not oa or not ob:
            continue
        n += 1
        if oa == ob and any(o.kind == "call" for o in oa):
            bad.append("line %s: both sides are %s" % (v.line_of_block(b), sorted(map(repr, oa))[:2]))
    ctx.ob(rule, "%s|iterate-compared-with-previous" % key, n > 0 and not bad,
           "; ".join(bad) if bad else "%d ordering comparisons, none compares a value with itself" % n, v.where())


def check_amp_used_unmodified(ctx, rule, v, amp_param, key, forward_rx=None):
    """The amplification a solver is given is used as it is: its only consumers are conversions, the product with the
    number of coins (Ann = amp * n) and forwarding to a sibling solver -- no clamp, cap or rescaling in one solver of a
    pair that must work on the same curve."""
    bad = []
    n = 0
    for b, t in v.iter_calls():
        if _TRANSPARENT_RE.search(mname(t)):
            continue
        for ai, a in enumerate(t["args"]):
            os_ = v.origins_of_operand(a, at=v.at_term(b))
            if os_ and all(o.kind == "param" and o.a == amp_param and not o.proj for o in os_):
                n += 1
                name = _short(t)
                nm = norm_shape((name, ()))[0]
                if nm == "mul" or name in ("from_u128", "from", "into", "new") or (forward_rx and re.search(forward_rx, mname(t))):
                    continue
                bad.append("%s (line %s)" % (name, t.get("ln")))
    ctx.ob(rule, "%s|amp-used-unmodified" % key, n > 0 and not bad,
           "amp consumed by %s" % bad if bad else "amp only converted, multiplied by the coin count or forwarded (%d uses)" % n, v.where())
