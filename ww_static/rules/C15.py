"""C15 -- slippage limits and minimum-receive are enforced (structural part)."""
import re
from fractions import Fraction
from ..facts import mname, term_callee
from ..mir import switch_conds, cmp_true_false_edges
from ..dataflow import (call_of, cond_at, two_var_table, truth_table, variant_excluded_edges, message_creations,
                        single_var_guard, single_var_regions, single_var_walk, forward_flow, REGIONS)
from ..guards import HelperGuard, site_guarded
from .common import arg_origins, ok_value_blocks, storage_calls
from .C02 import cp_arm_blocks

EXPLANATION = """
M1: pair and 3-pool `swap` call assert_max_spread(belief_price, max_spread, offer amount, return + all fees, spread) with
each argument's provenance checked by position, and the success edge of that call dominates every outgoing
message and every ledger write of the swap. M2: assert_max_spread (workspace copy; registry copy in the thorough tier):
the default is parsed from the literal "0.01" and capped by min with the literal "0.5"; without a belief price the
Ok return is reachable exactly when spread/(return+spread) <= max; with a belief price exactly when
NOT (return < expected AND (expected-return)/expected > max) -- both decided over the orderings of the compared
quantities, recognised by provenance (from_ratio shapes, offer * inv(belief)). M3: provide_liquidity calls
assert_slippage_tolerance with the caller's tolerance and propagates the error; the helper rejects tolerances
above 1. M4: the router appends AssertMinimumReceive{asset = last hop's ask asset, prev_balance = receiver's balance
queried now, minimum_receive, receiver = to} after all hop messages, and assert_minimum_receive succeeds exactly when
balance - prev >= minimum. 'Up to one base unit of rounding' is numerical and not decided.
"""
ASSUMPTIONS = ["Decimal::from_str parses the literal exactly; Ord::min returns the smaller value (library semantics)"]

AMS = "white_whale_std::pool_network::swap::assert_max_spread"


def check_swap_call(ctx, model, crate):
    p = "%s::commands::swap" % crate
    v = ctx.view(p, "C15-M1")
    if v is None:
        return
    calls = v.calls_to(r"^white_whale_std::pool_network::swap::assert_max_spread$")
    if len(calls) != 1:
        ctx.missing("C15-M1", "single assert_max_spread call in %s" % p)
        return
    b, t = calls[0]
    a = [arg_origins(v, b, t, i) for i in range(5)]
    ta = [arg_origins(v, b, t, i, taint=True) for i in range(5)]
    isparam_opt_dec = lambda os_: bool(os_) and all(o.kind == "param" and "Option<cosmwasm_std::Decimal>" in v.local_ty(o.a) for o in os_)
    ok0 = isparam_opt_dec(a[0]) and isparam_opt_dec(a[1]) and a[0] != a[1]
    ok2 = bool(a[2]) and all(o.kind == "param" and tuple(o.proj) == ("amount",) for o in a[2])
    cs = lambda f: any(o.kind == "call" and o.a.endswith("helpers::compute_swap") and tuple(o.proj) == (f,) for o in ta[3])
    ok3 = cs("return_amount") and cs("swap_fee_amount") and cs("protocol_fee_amount") and cs("burn_fee_amount") and not cs("spread_amount")
    ok4 = bool(a[4]) and all(o.kind == "call" and o.a.endswith("helpers::compute_swap") and tuple(o.proj) == ("spread_amount",) for o in a[4])
    ctx.ob("C15-M1", "%s|args" % p, ok0 and ok2 and ok3 and ok4,
           "assert_max_spread(belief/max from distinct Option<Decimal> params: %s, offer amount: %s, return+3 fees: %s, spread: %s)" % (ok0, ok2, ok3, ok4), v.where(b))
    # which param is belief and which is max_spread: by the callee's use -- position 0 must be the parameter the
    # entry point names belief_price: compare with the dispatch in execute (same order as ExecuteMsg::Swap fields)
    # which request field each of the two Option<Decimal> parameters carries: resolve at every call site of swap
    names = {0: set(), 1: set()}
    n_sites = 0
    for (cp, cb, ck) in model.callers().get(p, []):
        if ck != "call":
            continue
        cv = model.view(cp)
        ct = cv.blocks[cb]["t"]
        n_sites += 1
        for pos in (0, 1):
            for o in a[pos]:
                if o.kind == "param" and o.a - 1 < len(ct["args"]):
                    xs = cv.origins_of_operand(ct["args"][o.a - 1], at=cv.at_term(cb))
                    # every entry path (direct message and cw20 hook) forwards the request's own limit: a constant
                    # None here silently switches the check off for that path
                    names[pos] |= {(x.proj[-1] if x.proj else "<%s>" % x.kind) for x in xs} or {"<nothing>"}
    ctx.floor("C15-M1", "call sites of %s" % p, n_sites, 2)
    ctx.ob("C15-M1", "%s|belief-and-max-not-swapped" % p, names[0] == {"belief_price"} and names[1] == {"max_spread"},
           "assert_max_spread's belief_price argument carries the request's %s and its max_spread argument the request's %s" % (sorted(names[0]), sorted(names[1])), v.where(b))
    spec = HelperGuard("assert_max_spread(..)?", r"^white_whale_std::pool_network::swap::assert_max_spread$")
    effects = [bb for bb, i, l, d in message_creations(v, model)] + [bb for bb, tt in v.calls_to(r"::state::store_fee$")]
    bad = [bb for bb in effects if not site_guarded(model, (), p, bb, spec)[0]]
    ctx.ob("C15-M1", "%s|dominates-effects" % p, bool(effects) and not bad,
           "%d messages/ledger writes; not dominated by the spread check: %s" % (len(effects), bad), v.where(b))


def check_assert_max_spread(ctx, model, tag):
    if not model.has(AMS):
        ctx.missing("C15-M2", AMS)
        return
    v = model.view(AMS)
    ctx.fn_seen.add(AMS)
    oks = ok_value_blocks(v)
    # default and cap literals
    lits = []
    for b, t in v.calls_to(r"as std::str::FromStr>::from_str$"):
        for o in arg_origins(v, b, t, 0):
            if o.kind == "const":
                lits.append(str(o.a))
            elif o.kind == "item":
                lits.append(o.a.split("::")[-1])
    mins = v.calls_to(r"as std::cmp::Ord>::min$")
    uor = v.calls_to(r"^std::option::Option::unwrap_or$")
    ctx.ob("C15-M2", "%s|%s|default-and-cap" % (AMS, tag), sorted(lits) in (["0.01", "0.5"], ["DEFAULT_SLIPPAGE", "MAX_ALLOWED_SLIPPAGE"]) and len(mins) == 1 and len(uor) == 1,
           "literals parsed: %s; Ord::min calls: %d; unwrap_or calls: %d" % (lits, len(mins), len(uor)), v.where())
    for b, t in uor:
        a0 = arg_origins(v, b, t, 0)
        ctx.ob("C15-M2", "%s|%s|default-applies-to-max_spread" % (AMS, tag), bool(a0) and all(o.kind == "param" and o.a == 2 for o in a0),
               "unwrap_or applied to %s (must be the max_spread parameter)" % sorted(map(repr, a0)), v.where(b))
    max_l = lambda os_: bool(os_) and all(o.kind == "call" and (o.a.endswith("Ord>::min") or "Into" in o.a or o.a.endswith("::into")) or
                                          (o.kind == "param" and o.a == 2) or o.kind == "const" for o in os_)

    def is_max(os_):
        # after `.into()` transparency the origin is the min() call
        return bool(os_) and all(o.kind == "call" and o.a.endswith("as std::cmp::Ord>::min") for o in os_)

    def ratio_shape(os_, num_pred, den_pred):
        if not os_:
            return False
        for o in os_:
            c = call_of(v, o)
            if not c or not mname(c[1]).endswith("Decimal256::from_ratio"):
                return False
            n_ = v.origins_of_operand(c[1]["args"][0], at=v.at_term(c[0]), taint=True)
            d_ = v.origins_of_operand(c[1]["args"][1], at=v.at_term(c[0]), taint=True)
            if not (num_pred(n_) and den_pred(d_)):
                return False
        return True
    has = lambda n: (lambda os_: any(o.kind == "param" and o.a == n for o in os_))
    hasnt = lambda n: (lambda os_: not any(o.kind == "param" and o.a == n for o in os_))
    both = lambda *ps: (lambda os_: all(p(os_) for p in ps))
    # no belief: from_ratio(spread, return + spread)
    nb_ratio = lambda os_: ratio_shape(os_, both(has(5), hasnt(4), hasnt(1)), both(has(4), has(5), hasnt(1)))
    # belief: expected = offer * inv(belief); from_ratio(expected - return, expected)
    expected = lambda os_: bool(os_) and all(o.kind == "call" and re.search(r"as std::ops::Mul<cosmwasm_std::Decimal>>::mul$", o.a) for o in os_)
    b_ratio = lambda os_: ratio_shape(os_, both(has(3), has(1), has(4)), both(has(3), has(1), hasnt(4)))
    ret = lambda os_: bool(os_) and all(o.kind == "param" and o.a == 4 and not o.proj for o in os_)

    pred1 = lambda os_: bool(os_) and all(o.kind == "param" and o.a == 1 for o in os_)
    excl_none = variant_excluded_edges(v, "option::Option", pred1, "None")
    excl_some = variant_excluded_edges(v, "option::Option", pred1, "Some")

    def classify(c):
        at = cond_at(v, c)
        oa = v.origins_of_operand(c.a, at=at)
        ob = v.origins_of_operand(c.b, at=at)
        for name, px, py in (("nb", nb_ratio, is_max), ("br", b_ratio, is_max), ("re", ret, expected)):
            if px(oa) and py(ob):
                return (name, "fwd")
            if px(ob) and py(oa):
                return (name, "rev")
        return None
    table, n = truth_table(v, classify, oks, pairs=["nb", "br", "re"])
    # evaluate per configuration by restricting the CFG (belief given / not given)
    from ..dataflow import region_walk, cmp_truth, FLIP
    tracked = {}
    for b, c, _ in switch_conds(v):
        if c.kind == "cmp":
            r = classify(c)
            if r:
                tracked[b] = (c, r[0], r[1])
    names = {t[1] for t in tracked.values()}
    ctx.ob("C15-M2", "%s|%s|comparisons-recognised" % (AMS, tag), names == {"nb", "br", "re"},
           "recognised comparisons: %s (need spread ratio vs max without belief, spread ratio vs max with belief, return vs expected)" % sorted(names), v.where())

    def walk(asg, excl):
        conds = {b: c for b, c, _ in switch_conds(v)}
        seen = {0}
        work = [0]
        while work:
            x = work.pop()
            succ = v.succs(x)
            t = tracked.get(x)
            if t:
                cond, nm, orient = t
                op = cond.op if orient == "fwd" else FLIP[cond.op]
                te, fe = cmp_true_false_edges(v, x, cond)
                succ = [e[1] for e in (te if cmp_truth(op, asg[nm]) else fe)]
            for s_ in succ:
                if (x, s_) in excl or s_ in seen:
                    continue
                seen.add(s_)
                work.append(s_)
        return seen
    bad = []
    for r in REGIONS:
        acc = bool(walk({"nb": r, "br": "=", "re": "="}, excl_none) & set(oks))
        if acc != (r != ">"):
            bad.append("no belief price, spread ratio %s max: %s" % (r, "accepted" if acc else "rejected"))
    for r1 in REGIONS:
        for r2 in REGIONS:
            acc = bool(walk({"nb": "=", "br": r2, "re": r1}, excl_some) & set(oks))
            exp = not (r1 == "<" and r2 == ">")
            if acc != exp:
                bad.append("belief price, return %s expected, ratio %s max: %s" % (r1, r2, "accepted" if acc else "rejected"))
    ctx.ob("C15-M2", "%s|%s|accept-set" % (AMS, tag), not bad and bool(excl_none) and bool(excl_some),
           ("MISMATCH %s | " % bad if bad else "") + "12 ordering combinations walked (3 without, 9 with belief price)", v.where())
    # expected = offer * inv(belief)
    okexp = False
    for b, t in v.calls_to(r"as std::ops::Mul<cosmwasm_std::Decimal>>::mul$"):
        a0 = arg_origins(v, b, t, 0)
        a1 = arg_origins(v, b, t, 1, taint=True)
        if a0 and all(o.kind == "param" and o.a == 3 for o in a0) and any(o.kind == "call" and ("::inv" in o.a) for o in a1) and any(
                o.kind == "param" and o.a == 1 for o in a1):
            okexp = True
    ctx.ob("C15-M2", "%s|%s|expected=offer*inv(belief)" % (AMS, tag), okexp, "expected return computed as offer_amount * belief_price.inv(): %s" % okexp, v.where())


def check_slippage_tolerance(ctx, model, crate):
    p = "%s::commands::provide_liquidity" % crate
    v = ctx.view(p, "C15-M3")
    if v is None:
        return
    calls = v.calls_to(r"^%s::helpers::assert_slippage_tolerance$" % crate)
    ctx.ob("C15-M3", "%s|called" % p, len(calls) >= 1, "assert_slippage_tolerance call sites: %d" % len(calls), v.where())
    for b, t in calls:
        a0 = arg_origins(v, b, t, 0)
        ok = bool(a0) and all(o.kind == "param" and "Option<cosmwasm_std::Decimal>" in v.local_ty(o.a) for o in a0)
        # result propagated: the call's value flows into a `?`
        spec = HelperGuard("assert_slippage_tolerance(..)?", r"^%s::helpers::assert_slippage_tolerance$" % crate)
        edges = spec.pass_edges(model, (), v)
        after = [x for x in v.reach_strict(b) if any(True for _ in [0])]
        ctx.ob("C15-M3", "%s|tolerance-arg-and-propagation|bb" % p, ok and bool(edges),
               "tolerance argument from %s; error propagated with `?`: %s" % (sorted(map(repr, a0)), bool(edges)), v.where(b))
    # the deposits handed to the check are in POOL order: element i is the amount found for pools[i]'s asset, and the
    # pools argument is the pool list itself (checking caller-ordered amounts against pool-ordered reserves compares a
    # ratio with its inverse whenever the caller lists the assets the other way round)
    from .stablemath import deposit_pool_index
    n = 2 if crate == "terraswap_pair" else 3
    for b, t in calls:
        got = [deposit_pool_index(v, model, t["args"][1], v.at_term(b), proj=("[%d]" % i,)) for i in range(n)]
        want = [["[%d]" % i] for i in range(n)]
        pools_o = arg_origins(v, b, t, 2)
        ok_pools = bool(pools_o) and all(o.kind == "call" and o.a.endswith("query_pools") and not o.proj for o in pools_o)
        ctx.ob("C15-M3", "%s|deposits-in-pool-order|bb%d" % (p, calls.index((b, t))), got == want and ok_pools,
               "deposits[i] matched against pools%s (must be %s); pools argument from %s" % (got, want, sorted(map(repr, pools_o))), v.where(b))
    h = ctx.view("%s::helpers::assert_slippage_tolerance" % crate, "C15-M3")
    if h is not None:
        oks = ok_value_blocks(h)
        is_x = lambda os_: bool(os_) and all(o.kind == "param" and o.a == 1 for o in os_)
        tracked, ths = single_var_guard(h, is_x, [Fraction(1)])
        rows, bad = [], []
        excl = variant_excluded_edges(h, "option::Option", is_x, "Some")
        for x in single_var_regions(ths):
            acc = bool(single_var_walk(h, tracked, x, cut_edges=excl) & set(oks))
            rows.append("%s:%s" % (x, "ok" if acc else "rejected"))
            if x > 1 and acc:
                bad.append("tolerance %s accepted" % x)
            if x <= 1 and not acc:
                bad.append("tolerance %s rejected outright" % x)
        ctx.ob("C15-M3", "%s::helpers::assert_slippage_tolerance|tolerance<=1" % crate, bool(tracked) and bool(excl) and not bad, ("MISMATCH %s | " % bad if bad else "") + "regions %s" % rows, h.where())


def check_slippage_clauses(ctx, model):
    """M3: the comparisons that reject a deposit. Constant product (pair): for both orientations (i,j) in {(0,1),(1,0)}
    reject iff deposits[i]/deposits[j] * (1 - tolerance) > pools[i]/pools[j], STRICTLY (a deposit exactly on the bound
    satisfies the documented ratio and must pass); stableswap (pair and 3-pool): reject iff (sum of pools / supply) *
    (1 - tolerance) > sum of deposits / minted amount. Operand trees are compared after normalising spelling; the
    rejecting edge of each comparison cannot reach a successful return."""
    from ..dataflow import expr_shape, norm_shape, cond_at
    from ..mir import cmp_true_false_edges
    for crate, n in (("terraswap_pair", 2), ("stableswap_3pool", 3)):
        p = "%s::helpers::assert_slippage_tolerance" % crate
        h = ctx.view(p, "C15-M3")
        if h is None:
            continue
        ty = {i: h.local_ty(i) for i in range(1, h.argc + 1)}
        tol = next((i for i, t in ty.items() if "Option<cosmwasm_std::Decimal>" in t), None)
        dep = next((i for i, t in ty.items() if "[cosmwasm_std::Uint128; %d]" % n in t), None)
        pool = next((i for i, t in ty.items() if "asset::Asset; %d]" % n in t), None)
        scal = [i for i, t in ty.items() if t == "cosmwasm_std::Uint128"]
        if None in (tol, dep, pool) or len(scal) != 2:
            ctx.missing("C15-M3", "parameters (tolerance, deposits, pools, amount, supply) of %s" % p)
            continue
        amount, supply = scal
        D = lambda i: "param(%d).[%d]" % (dep, i)
        Pl = lambda i: "param(%d).[%d].amount" % (pool, i)
        omt = ("sub", (("one", ()), "param(%d)" % tol))
        want = {}
        if n == 2:
            for i, j in ((0, 1), (1, 0)):
                want["constant-product %d/%d" % (i, j)] = (norm_shape(("mul", (("from_ratio", (D(i), D(j))), omt))), ("from_ratio", (Pl(i), Pl(j))))
        want["stableswap"] = (norm_shape(("mul", (("from_ratio", (norm_shape(("add", tuple(Pl(i) for i in range(n)))), "param(%d)" % supply)), omt))),
                              ("from_ratio", (norm_shape(("add", tuple(D(i) for i in range(n)))), "param(%d)" % amount)))
        oks = set(ok_value_blocks(h))
        found = {}
        for b, c, _ in switch_conds(h):
            if c.kind != "cmp" or c.op not in (">", "<", ">=", "<="):
                continue
            at = cond_at(h, c)
            a, bb_ = norm_shape(expr_shape(h, c.a, at, depth=5)), norm_shape(expr_shape(h, c.b, at, depth=5))
            te, fe = cmp_true_false_edges(h, b, c)
            for name, (l, r) in want.items():
                if (a, bb_) == (l, r):
                    op = c.op
                elif (bb_, a) == (l, r):
                    op = {">": "<", "<": ">", ">=": "<=", "<=": ">="}[c.op]
                else:
                    continue
                from ..dataflow import reach_respecting_consts
                rej_reaches_ok = any(oks & reach_respecting_consts(h, tgt) for _, tgt in te)
                found[name] = (op, rej_reaches_ok, b)
        for name in want:
            got = found.get(name)
            ok = got is not None and got[0] == ">" and not got[1]
            ctx.ob("C15-M3", "%s|%s|reject-iff-strictly-beyond-the-bound" % (p, name), ok,
                   "clause %s: %s" % (name, "not found" if got is None else "scaled pool/deposit ratio %s bound rejects; rejecting edge reaches Ok: %s" % (got[0], got[1])),
                   h.where(got[2]) if got else h.where())


def check_router(ctx, model):
    p = "terraswap_router::contract::execute_swap_operations"
    v = ctx.view(p, "C15-M4")
    if v is not None:
        pushes = v.calls_to(r"^std::vec::Vec::push$")
        amr = None
        for b, i, s in v.iter_stmts():
            rv = s["rv"]
            if rv["r"] == "agg" and rv.get("adt", "").endswith("router::ExecuteMsg") and rv.get("variant") == "AssertMinimumReceive":
                f = dict(zip(rv["fields"], rv["ops"]))
                ai = v.origins_of_operand(f["asset_info"], at=(b, i))
                pb = v.origins_of_operand(f["prev_balance"], at=(b, i))
                mr = v.origins_of_operand(f["minimum_receive"], at=(b, i))
                rc = v.origins_of_operand(f["receiver"], at=(b, i))
                ok_ai = bool(ai) and all(o.kind == "call" and o.a.endswith("SwapOperation::get_target_asset_info") for o in ai)
                ok_pb = bool(pb) and all(o.kind == "call" and o.a.endswith("AssetInfo::query_pool") for o in pb)
                ok_mr = bool(mr) and all(o.kind == "param" and "Option<cosmwasm_std::Uint128>" in v.local_ty(o.a) for o in mr)
                # receiver and the balance query use the same `to`
                q_to = set()
                for o in pb:
                    c = call_of(v, o)
                    if c:
                        q_to |= v.origins_of_operand(c[1]["args"][3], at=v.at_term(c[0]))
                ok_rc = bool(rc) and rc == q_to
                amr = b
                ctx.ob("C15-M4", "%s|assert-message-fields" % p, ok_ai and ok_pb and ok_mr and ok_rc,
                       "asset_info from last operation: %s; prev_balance from balance query: %s; minimum from parameter: %s; receiver == queried address: %s" % (ok_ai, ok_pb, ok_mr, ok_rc), v.where(b))
                # last operation: get_target_asset_info of operations.last()
                for o in ai:
                    c = call_of(v, o)
                    if c:
                        recv = v.origins_of_operand(c[1]["args"][0], at=v.at_term(c[0]))
                        with v.opaque(r"std::slice::last$|std::vec::Vec::last$"):
                            recv2 = v.origins_of_operand(c[1]["args"][0], at=v.at_term(c[0]))
                        ctx.ob("C15-M4", "%s|asset-of-last-hop" % p, any(o2.kind == "call" and o2.a.endswith("::last") for o2 in recv2),
                               "target asset taken from %s" % sorted(map(repr, recv2)), v.where(c[0]))
        if amr is None:
            ctx.missing("C15-M4", "AssertMinimumReceive message in %s" % p)
        else:
            # pushed after the hop messages were collected and nothing is pushed after it
            from .common import vec_additions
            adds = vec_additions(v, r"CosmosMsg")
            is_amr = lambda os_: any(o.kind == "agg" and o.a.endswith("ExecuteMsg::AssertMinimumReceive") for o in os_)
            is_hop = lambda os_: any(o.kind == "agg" and o.a.endswith("ExecuteMsg::ExecuteSwapOperation") for o in os_)
            amr_adds, hop_src, other = [], [hb for hb, _ in v.calls_to(r"as std::iter::Iterator>::collect$")], []
            for ab, at_, elem, how, at in adds:
                os_ = v.origins_of_operand(elem, at=at, taint=True)
                if is_amr(os_):
                    amr_adds.append(ab)
                elif is_hop(os_):
                    hop_src.append(ab)
                    other.append(ab)
                else:
                    other.append(ab)
            after_hops = bool(hop_src) and len(amr_adds) == 1 and all(amr_adds[0] in v.reach_strict(hb) for hb in hop_src)
            later = [b for b in other if amr_adds and b in v.reach_strict(amr_adds[0])]
            ctx.ob("C15-M4", "%s|assert-is-last" % p, after_hops and not later,
                   "assertion message added after the hop messages: %s; messages added after it: %s" % (after_hops, later), v.where(amr))
            # ... and with a minimum given, no successful return skips it (e.g. a fast path for single-hop routes)
            pred = lambda os_: bool(os_) and all(o.kind == "param" and "Option<cosmwasm_std::Uint128>" in v.local_ty(o.a) for o in os_)
            cut = variant_excluded_edges(v, "option::Option", pred, "Some")
            oks = [b for b in ok_value_blocks(v)]
            reach_some = v.reachable(0, cut_edges=cut, cut_blocks=[amr])
            skipped = [b for b in oks if b in reach_some]
            ctx.ob("C15-M4", "%s|no-success-without-the-assertion" % p, bool(cut) and not skipped,
                   "with minimum_receive = Some(..) a successful return is reachable without building the assertion: %s" % (["bb%d" % b for b in skipped] or "no"), v.where(amr))
        from .C12 import check_messages_attached
        check_messages_attached(ctx, model, p, rule="C15-M4")
    q = "terraswap_router::contract::assert_minimum_receive"
    w = ctx.view(q, "C15-M4")
    if w is not None:
        oks = ok_value_blocks(w)
        x = lambda os_: bool(os_) and all(o.kind == "call" and o.a.endswith("Uint128::checked_sub") for o in os_)
        y = lambda os_: bool(os_) and all(o.kind == "param" and o.a == 4 for o in os_)
        tab, n, blocks = two_var_table(w, x, y, oks)
        exp = {"<": False, "=": True, ">": True}
        ctx.ob("C15-M4", "%s|received>=minimum" % q, n > 0 and tab == exp, "Ok reachable for (balance - prev) vs minimum: %s; documented %s" % (tab, exp), w.where())
        okd = False
        for b, t in w.calls_to(r"Uint128::checked_sub$"):
            a0 = arg_origins(w, b, t, 0)
            a1 = arg_origins(w, b, t, 1)
            okd = bool(a0) and all(o.kind == "call" and o.a.endswith("AssetInfo::query_pool") for o in a0) and bool(a1) and all(o.kind == "param" and o.a == 3 for o in a1)
        ctx.ob("C15-M4", "%s|difference" % q, okd, "swap amount = current balance (queried) - prev_balance: %s" % okd, w.where())


def run(ctx):
    model = ctx.model()
    check_slippage_clauses(ctx, model)
    # the reserves the slippage check compares with are net of pending fees for every pool asset, cw20 or native (C01-V1)
    from .poolvalue import check_fee_deduction_all_kinds, check_fee_lookup_same_asset
    for crate in ("terraswap_pair", "stableswap_3pool"):
        check_fee_deduction_all_kinds(ctx, model, crate, "C15-M3")
        check_fee_lookup_same_asset(ctx, model, crate, "C15-M3")
    for crate in ("terraswap_pair", "stableswap_3pool"):
        check_swap_call(ctx, model, crate)
        check_slippage_tolerance(ctx, model, crate)
    check_assert_max_spread(ctx, model, "workspace")
    check_router(ctx, model)


def run_thorough(ctx):
    check_assert_max_spread(ctx, ctx.model("default", registry_std=True), "registry")
