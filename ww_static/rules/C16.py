"""C16 -- only the owner (or the contract itself) can perform privileged operations.

Structural matrix: every ExecuteMsg variant of every contract x the effects reachable from its
dispatch arm x the guard that must dominate them on every call chain."""
import re
from ..facts import mname, term_callee
from ..effects import (dispatch_table, arm_blocks, enumerate_chains, fn_effects, resolve_param_item, Effect,
                       collect_effects, CONFIG_CLASS_MSGS, CONFIG_CLASS_CALLS, MSG_EFFECT)
from ..guards import (AllGuard, BoolVarGuard, EqGuard, HelperGuard, AnyGuard, is_sender, is_self_addr, is_loaded, is_query_field,
                      site_guarded, ok_return_blocks, origins_at, resolve, root_param_is)
from ..mir import Origin

EXPLANATION = """
For each of the 14 contracts with their own dispatch, the ExecuteMsg `match` of `contract::execute` is read
from MIR (switch on the discriminant of the message parameter), giving the arm of every variant. From each arm
the call graph is enumerated chain by chain (closures included) and every storage write (cw_storage_plus
Item/Map/Path save/update/remove with the receiver resolved to its storage constant, also through helper
parameters and helper return values) and every outgoing message construction is collected. For a variant
listed as privileged (owner / factory-owner / designated contract / self callback) every such effect must be
dominated -- on the call chain that reaches it -- by the pass edge of a comparison `sender == <authority>`
whose operands have the required provenance (MessageInfo.sender of the entry point versus the loaded
CONFIG.owner, Env.contract.address, CONFIG.fee_distributor, the wasm admin, ...), decided by removing the
pass edges from the CFG and asking whether the effect is still reachable. Variants not listed as privileged
must not reach any config-class effect (writes to CONFIG/registries/route tables, WasmMsg::Instantiate/Migrate,
child UpdateConfig messages, hook/admin management). Guard helpers are checked in their own body: every
non-error return must be dominated by the comparison. New variants and new effects are picked up
automatically; a missing entry point, storage constant or an instance count below the pinned floor fails closed.
This decides who may reach which effect on every path; it does not execute the contracts.
owner-init: the owner stored by instantiate is InstantiateMsg.owner when the message struct declares such a field (field
list taken from the type, emitted by the driver) and info.sender otherwise. NextLoan additionally requires the
factory-registered vault (the looked-up value alone, no default taken from the request) to equal source_vault.
"""
ASSUMPTIONS = [
    "cw_controllers::{Admin::assert_admin, Admin::execute_update_admin, Hooks::execute_add_hook, Hooks::execute_remove_hook} "
    "enforce the admin check they document (trusted library)",
    "terraswap_token delegates to cw20_base::contract::execute (trusted library; minter check)",
    "instantiate/reply/migrate entry points are invoked by the platform / wasm admin only and are out of scope",
]

# storage constants whose modification is a configuration-class effect (suffix match on item path)
CONFIG_CLASS_ITEMS = [
    "::state::CONFIG", "::state::ADMIN", "::state::HOOKS", "::state::SWAP_ROUTES", "::state::PAIRS",
    "::state::TRIOS", "::state::VAULTS", "::state::INCENTIVE_MAPPINGS", "::state::ALLOW_NATIVE_TOKENS",
    "::state::TMP_PAIR_INFO", "::state::TMP_TRIO_INFO", "::state::TMP_VAULT_ASSET", "::state::TMP_EPOCH",
    "::state::TEMP_VAULT_ASSET",
]
 
ROOTS = {
    # crate: (execute path, floor of ExecuteMsg variants)
    "terraswap_factory": 10, "vault_factory": 5, "incentive_factory": 3, "terraswap_pair": 6,
    "stableswap_3pool": 6, "vault": 7, "vault_router": 4, "terraswap_router": 6, "fee_collector": 4,
    "fee_distributor": 3, "whale_lair": 4, "frontend_helper": 2, "epoch_manager": 4, "incentive": 9,
}


def owner_guard(model, crate, field=("owner",)):
    return EqGuard("sender==CONFIG.%s" % ".".join(field), is_sender(model), is_loaded("%s::state::CONFIG" % crate, field))


def self_guard(model):
    return EqGuard("sender==env.contract.address", is_sender(model), is_self_addr(model))


def _admin_arg_check(model, chain, view, b, t):
    # Admin::assert_admin(&ADMIN, deps, &sender)
    a0 = resolve(model, chain, view, view.origins_of_operand(t["args"][0], at=view.at_term(b)))
    a2 = resolve(model, chain, view, view.origins_of_operand(t["args"][2], at=view.at_term(b)))
    return (all(o.kind == "item" and o.a.endswith("::state::ADMIN") for o in a0) and a0
            and is_sender(model)(a2))


def _router_admin_arg_check(model, chain, view, b, t):
    # assert_admin(deps, &env, &sender): third argument must be the entry point's sender
    a2 = resolve(model, chain, view, view.origins_of_operand(t["args"][2], at=view.at_term(b)))
    return is_sender(model)(a2)


def required_guards(model):
    """(crate, variant) -> guard spec. Everything not listed is an unprivileged variant."""
    g = {}
    for v in ["UpdateConfig", "CreatePair", "CreateTrio", "RemovePair", "RemoveTrio", "AddNativeTokenDecimals",
              "MigratePair", "MigrateTrio", "UpdatePairConfig", "UpdateTrioConfig"]:
        g[("terraswap_factory", v)] = owner_guard(model, "terraswap_factory")
    for v in ["CreateVault", "MigrateVaults", "RemoveVault", "UpdateVaultConfig", "UpdateConfig"]:
        g[("vault_factory", v)] = owner_guard(model, "vault_factory")
    for v in ["CreateIncentive", "UpdateConfig", "MigrateIncentives"]:
        g[("incentive_factory", v)] = owner_guard(model, "incentive_factory")
    for c in ["terraswap_pair", "stableswap_3pool", "vault", "vault_router", "fee_collector", "fee_distributor",
              "whale_lair", "frontend_helper"]:
        g[(c, "UpdateConfig")] = owner_guard(model, c)
    g[("vault", "Callback")] = self_guard(model)
    g[("vault_router", "CompleteLoan")] = self_guard(model)
    # the request's source_vault field (resolved up to the entry point's message parameter)
    src_vault = lambda os_: bool(os_) and all(o.kind == "param" and tuple(o.proj) == ("#NextLoan", "source_vault") for o in os_)
    g[("vault_router", "NextLoan")] = AllGuard(
        EqGuard("sender==source_vault", is_sender(model), src_vault),
        # ... and that address is the vault the factory has registered (the looked-up value and nothing else:
        # a default taken from the request when the lookup finds nothing is not a registration)
        EqGuard("factory.Vault(asset)==source_vault", is_query_field(r"QuerierWrapper::query_wasm_smart$", ()), src_vault))
    router_admin = HelperGuard("assert_admin(sender)", r"^terraswap_router::helpers::assert_admin$", _router_admin_arg_check)
    g[("terraswap_router", "AddSwapRoutes")] = router_admin
    g[("terraswap_router", "RemoveSwapRoutes")] = router_admin
    g[("terraswap_router", "ExecuteSwapOperation")] = self_guard(model)
    g[("terraswap_router", "AssertMinimumReceive")] = self_guard(model)
    g[("fee_collector", "ForwardFees")] = owner_guard(model, "fee_collector", ("fee_distributor",))
    em_admin = HelperGuard("ADMIN.assert_admin(sender)", r"^cw_controllers::Admin::assert_admin$", _admin_arg_check)
    g[("epoch_manager", "UpdateConfig")] = em_admin
    g[("epoch_manager", "AddHook")] = em_admin
    g[("epoch_manager", "RemoveHook")] = em_admin
    g[("incentive", "CloseFlow")] = AnyGuard(
        EqGuard("sender==flow.flow_creator", is_sender(model),
                lambda os_: bool(os_) and all(tuple(o.proj[-1:]) == ("flow_creator",) for o in os_)),
        EqGuard("sender==factory.Config.owner", is_sender(model),
                is_query_field(r"QuerierWrapper::query_wasm_smart$", ("owner",))))
    return g


def is_config_class(e, item):
    if e.kind == "write":
        return any(item.endswith(s) for s in CONFIG_CLASS_ITEMS)
    if e.kind == "msg":
        return bool(CONFIG_CLASS_MSGS.search(e.what))
    if e.kind == "call":
        return bool(CONFIG_CLASS_CALLS.search(e.what))
    return False


def library_self_guarded(model, chain, e):
    """cw_controllers::Hooks::execute_add_hook(&HOOKS, &ADMIN, deps, info, addr) checks the admin itself;
    accept when the admin argument is the ADMIN item and `info` is the entry point's MessageInfo."""
    if e.kind != "call" or not re.search(r"Hooks::execute_(add|remove)_hook$|Admin::execute_update_admin$", e.what):
        return False
    v = model.view(e.fn)
    t = v.blocks[e.block]["t"]
    at = v.at_term(e.block)
    if "Hooks::" in e.what:
        adm = resolve(model, chain, v, v.origins_of_operand(t["args"][1], at=at))
        info = resolve(model, chain, v, v.origins_of_operand(t["args"][3], at=at))
    else:
        adm = resolve(model, chain, v, v.origins_of_operand(t["args"][0], at=at))
        info = resolve(model, chain, v, v.origins_of_operand(t["args"][2], at=at))
    ok_adm = bool(adm) and all(o.kind == "item" and o.a.endswith("::state::ADMIN") for o in adm)
    ok_info = bool(info) and all(root_param_is(model, o, "cosmwasm_std::MessageInfo", ()) for o in info)
    return ok_adm and ok_info


def chain_str(chain, e):
    return " -> ".join([c[0].split("::", 1)[1] if "::" in c[0] else c[0] for c in chain] + [e.fn.split("::", 1)[1]])


def run(ctx):
    model = ctx.model()
    req = required_guards(model)
    seen_req = set()
    total_variants = 0
    priv_obligations = 0
    for crate, floor in sorted(ROOTS.items()):
        root = "%s::contract::execute" % crate
        v = ctx.view(root, "C16-dispatch")
        if v is None:
            continue
        dt = dispatch_table(v, param=v.argc)
        if not dt:
            ctx.missing("C16-dispatch", "ExecuteMsg dispatch of %s" % root)
            continue
        sb, enum, table, variants = dt
        ctx.floor("C16-dispatch", "%s ExecuteMsg variants" % crate, len(table), floor)
        total_variants += len(table)
        for var, tgt in sorted(table.items()):
            ab = arm_blocks(v, tgt, sb)
            effects = collect_effects(model, root, ab)
            for ch, e, it in effects:
                ctx.fn_seen.add(e.fn)
            spec = req.get((crate, var))
            if spec is None:
                # negative obligation: no config-class effect reachable from an unprivileged variant
                bad = [(ch, e, it) for ch, e, it in effects if is_config_class(e, it)]
                # vault Receive / pair Receive etc. never write config; report each offending effect
                if not bad:
                    ctx.ob("C16-unprivileged", "%s::%s" % (crate, var), True,
                           "%d effects reachable, none configuration-class" % len(effects), v.where(tgt),
                           nontrivial=bool(effects))
                for ch, e, it in bad:
                    if library_self_guarded(model, ch, e):
                        continue
                    ctx.ob("C16-unprivileged", "%s::%s|%s|%s" % (crate, var, e.fn, it), False,
                           "variant %s::%s is not listed as privileged but reaches configuration-class effect %s via %s"
                           % (crate, var, it, chain_str(ch, e)), model.view(e.fn).where(e.block))
                continue
            seen_req.add((crate, var))
            # privileged: every effect must be guarded on its chain
            if not effects:
                # nothing but a verdict: the handler's successful return is the effect
                handler_calls = [(b, c) for b, c, k in model.callees(root) if b in ab and c in model.fnsrc and k == "call"]
                done = False
                for b, c in handler_calls:
                    hv = model.view(c)
                    if "Response" not in hv.fn["ret"]:
                        continue
                    done = True
                    chain = ((root, b, "call"),)
                    for ob in ok_return_blocks(hv):
                        ok, why = site_guarded(model, chain, c, ob, spec)
                        priv_obligations += 1
                        ctx.ob("C16-guard", "%s::%s|%s|ok-return" % (crate, var, c), ok,
                               why or "successful return of %s is not dominated by guard %s" % (c, spec.name),
                               hv.where(ob))
                if not done:
                    ctx.ob("C16-guard", "%s::%s|no-effects" % (crate, var), True, "arm has no effects and no handler", v.where(tgt), nontrivial=False)
                continue
            # ... and so must every successful return of the variant's handler: "an attempt by anyone else fails", also on
            # paths that happen to have no effect (an early `return Ok(..)` placed above the guard)
            lib_guarded = all(library_self_guarded(model, ch, e) for ch, e, it in effects)
            if not lib_guarded:
                for b, c in [(b, c) for b, c, k in model.callees(root) if b in ab and c in model.fnsrc and k == "call"]:
                    hv = model.view(c)
                    if "Response" not in hv.fn["ret"]:
                        continue
                    chain = ((root, b, "call"),)
                    bad_returns = [ob for ob in ok_return_blocks(hv) if not site_guarded(model, chain, c, ob, spec)[0]]
                    # a successful return that merely forwards a guarded callee's result is guarded by that callee
                    bad_returns = [ob for ob in bad_returns if not _delegates_to_guarded(model, chain, hv, ob, spec)]
                    bad_returns = [ob for ob in bad_returns if not _after_guarded_update(model, chain, hv, ob, spec)]
                    ctx.ob("C16-guard", "%s::%s|%s|every-ok-return" % (crate, var, c), not bad_returns,
                           "every successful return of %s is dominated by guard %s" % (c, spec.name) if not bad_returns else
                           "successful return(s) of %s at %s not dominated by guard %s" % (c, [hv.where(ob) for ob in bad_returns][:3], spec.name),
                           hv.where(bad_returns[0]) if bad_returns else hv.where())
            by_key = {}
            for ch, e, it in effects:
                if library_self_guarded(model, ch, e):
                    ok, why = True, "library call %s checks ADMIN against the entry point's MessageInfo" % e.what
                else:
                    ok, why = site_guarded(model, ch, e.fn, e.block, spec)
                    if not ok and e.kind == "write" and e.extra == "update":
                        ok, why = closure_update_guarded(model, ch, e, spec)
                key = "%s::%s|%s|%s" % (crate, var, e.fn, it)
                prev = by_key.get(key)
                if prev is None or (prev[0] and not ok):
                    by_key[key] = (ok, why, e, ch)
            for key, (ok, why, e, ch) in sorted(by_key.items()):
                priv_obligations += 1
                ctx.ob("C16-guard", key, ok,
                       why or "effect %s reachable via %s without passing guard %s" % (e, chain_str(ch, e), spec.name),
                       model.view(e.fn).where(e.block))
    for k in req:
        if k not in seen_req:
            ctx.missing("C16-guard", "privileged variant %s::%s" % k)
    ctx.floor("C16-dispatch", "total ExecuteMsg variants", total_variants, 73)
    ctx.floor("C16-guard", "privileged (variant, effect) obligations", priv_obligations, 40)
    check_guard_helpers(ctx, model)
    check_token(ctx, model)
    check_hook_authorisation(ctx, model)
    check_owner_transfer(ctx, model)
    check_owner_init(ctx, model)


def _delegates_to_guarded(model, chain, hv, ob, spec):
    """The block returns the result of a workspace callee all of whose successful returns are guarded (the guard lives in
    the callee, e.g. a handler that only dispatches)."""
    t = hv.blocks[ob]["t"]
    if t["k"] != "call" or t["dest"]["l"] != 0:
        return False
    from ..facts import term_callee
    c = term_callee(t)
    if c not in model.fnsrc:
        return False
    cv = model.view(c)
    sub = chain + ((hv.path, ob, "call"),)
    oks = ok_return_blocks(cv)
    return bool(oks) and all(site_guarded(model, sub, c, b2, spec)[0] or _delegates_to_guarded(model, sub, cv, b2, spec) for b2 in oks)


def _after_guarded_update(model, chain, hv, ob, spec):
    """The return lies behind the success edge of `ITEM.update(.., closure)?` whose closure is guarded on all its
    non-error returns (an unauthorised caller makes the closure fail, `?` propagates it)."""
    from ..mir import try_edges, storage_call
    from ..effects import Effect
    edges = []
    for b in sorted(hv.live_blocks()):
        te = try_edges(hv, b)
        if not te:
            continue
        cont, brk, bblock, inner = te
        for o in hv.origins_of_operand(inner, at=hv.at_term(bblock)):
            if o.kind != "load":
                continue
            # the provenance of an `update` result is a load of the item; find the update call feeding this `?`
            for ub, ut in hv.iter_calls():
                sc = storage_call(ut)
                if sc and sc[1] == "update" and bblock in hv.reach_strict(ub) | {ub}:
                    class _E:
                        pass
                    e = _E()
                    e.fn, e.block = hv.path, ub
                    if closure_update_guarded(model, chain, e, spec)[0]:
                        edges += cont
    return bool(edges) and hv.edge_dominated(ob, edges)


def closure_update_guarded(model, chain, e, spec):
    """`ITEM.update(storage, |v| {...})`: the write happens iff the closure returns Ok, so a guard
    inside the closure that dominates all of its non-error returns protects the write."""
    v = model.view(e.fn)
    t = v.blocks[e.block]["t"]
    for a in t["args"]:
        if a["k"] not in ("copy", "move"):
            continue
        for o in v.origins_of_operand(a, at=v.at_term(e.block)):
            if o.kind == "closure" and o.a in model.fnsrc:
                cv = model.view(o.a)
                cb = int(o.b.rsplit(":bb", 1)[1])
                sub = chain + ((e.fn, cb, "closure"),)
                oks = ok_return_blocks(cv)
                if not oks:
                    continue
                res = [site_guarded(model, sub, o.a, ob, spec) for ob in oks]
                if all(r[0] for r in res):
                    return True, "guard inside update closure: " + res[0][1]
    return False, None


def check_guard_helpers(ctx, model):
    """terraswap_router::helpers::assert_admin must be fail-closed: every non-error return is dominated
    by `sender == contract_info.admin`."""
    path = "terraswap_router::helpers::assert_admin"
    v = ctx.view(path, "C16-helper")
    if v is None:
        return
    spec = EqGuard("sender==wasm admin",
                   lambda os_: bool(os_) and all(o.kind == "param" and o.a == 3 for o in os_),
                   # the wasm admin, or the contract creator as the fallback authority when no admin is set
                   lambda os_: bool(os_) and all(o.kind == "call" and o.a.endswith("QuerierWrapper::query_wasm_contract_info")
                                                 and tuple(o.proj) in (("admin",), ("creator",)) for o in os_)
                   and any(tuple(o.proj) == ("admin",) for o in os_))
    for ob in ok_return_blocks(v):
        ok, why = site_guarded(model, (), path, ob, spec)
        ctx.ob("C16-helper", "%s|ok-return" % path, ok,
               why or "assert_admin can return Ok without having compared the sender with the contract's wasm admin "
                      "(fail-open when the contract has no admin)", v.where(ob))


def check_token(ctx, model):
    """terraswap_token::contract::execute must forward to cw20_base::contract::execute and nothing else."""
    path = "terraswap_token::contract::execute"
    v = ctx.view(path, "C16-token")
    if v is None:
        return
    calls = [mname(t) for b, t in v.iter_calls()]
    ok = any(c == "cw20_base::contract::execute" for c in calls)
    effs = [e for e in fn_effects(model, path) if e.kind in ("write", "msg")]
    ctx.ob("C16-token", path, ok and not effs,
           "forwards to cw20_base::contract::execute; own effects: %s" % effs, v.where())


def check_hook_authorisation(ctx, model, rule="C16-hook", only=None):
    """cw20 `Receive` hooks: the token contract calling the hook must be the right one -- a pool asset token for
    Swap, the LP token for WithdrawLiquidity / vault Withdraw -- otherwise anybody's worthless cw20 could fake a
    deposit or a burn."""
    from ..effects import dispatch_on_enum, arm_blocks, collect_effects
    is_pool_token = lambda os_: bool(os_) and all(o.proj and o.proj[-1] == "contract_addr" and "#Token" in o.proj and
                                                   (o.kind == "call" and o.a.endswith("query_pools") or "info" in o.proj) for o in os_)
    rows = []
    for crate, info_item, enum in (("terraswap_pair", "PAIR_INFO", "pool_network::pair::Cw20HookMsg"), ("stableswap_3pool", "TRIO_INFO", "pool_network::trio::Cw20HookMsg")):
        lp = lambda os_, info_item=info_item: bool(os_) and all(o.kind == "load" and o.a.endswith("::state::%s" % info_item) and
                                                                  tuple(o.proj) == ("liquidity_token", "#Token", "contract_addr") for o in os_)
        rows.append((crate, "%s::commands::receive_cw20" % crate, enum, {
            "Swap": BoolVarGuard("sender is a pool asset token", is_sender(model), is_pool_token),
            "WithdrawLiquidity": EqGuard("sender==LP token", is_sender(model), lp)}))
    for crate, recv, enum, specs in rows:
        if only is not None and crate not in only:
            continue
        v = ctx.view(recv, rule)
        if v is None:
            continue
        hd = dispatch_on_enum(v, enum)
        if not hd:
            ctx.missing(rule, "Cw20HookMsg dispatch in %s" % recv)
            continue
        hsb, _, htable = hd
        root = "%s::contract::execute" % crate
        calls = [b for b, c, k in model.callees(root) if c == recv]
        prefix = ((root, calls[0], "call"),) if calls else ()
        for var, spec in sorted(specs.items()):
            if var not in htable:
                ctx.missing(rule, "%s Cw20HookMsg::%s" % (crate, var))
                continue
            hab = arm_blocks(v, htable[var], hsb)
            effects = collect_effects(model, recv, hab, prefix=prefix)
            bad = []
            for ch, e, it in effects:
                ok, why = site_guarded(model, ch, e.fn, e.block, spec)
                if not ok:
                    bad.append("%s@%s" % (it.split("::")[-1], e.fn.split("::")[-1]))
            ctx.ob(rule, "%s|Cw20HookMsg::%s|token-authorised" % (crate, var), bool(effects) and not bad,
                   "%d effects; not dominated by '%s': %s" % (len(effects), spec.name, sorted(set(bad))), v.where(htable[var]))
    # vault
    recv = "vault::execute::receive::receive"
    v = ctx.view(recv, rule) if (only is None or "vault" in only) else None
    if v is not None:
        lp = lambda os_: bool(os_) and all(o.kind == "load" and o.a.endswith("vault::state::CONFIG") and tuple(o.proj) == ("lp_asset", "#Token", "contract_addr") for o in os_)
        spec = EqGuard("sender==LP token", is_sender(model), lp)
        root = "vault::contract::execute"
        calls = [b for b, c, k in model.callees(root) if c == recv]
        prefix = ((root, calls[0], "call"),) if calls else ()
        effects = collect_effects(model, recv, None, prefix=prefix)
        bad = [it for ch, e, it in effects if not site_guarded(model, ch, e.fn, e.block, spec)[0]]
        ctx.ob(rule, "vault|Cw20HookMsg::Withdraw|token-authorised", bool(effects) and not bad,
               "%d effects; not dominated by '%s': %s" % (len(effects), spec.name, sorted(set(bad))), v.where())


def check_owner_init(ctx, model):
    """The configured owner is the one the instantiation names: if the InstantiateMsg struct has an `owner` field the
    stored CONFIG.owner comes from it (validated), otherwise it is the instantiating sender -- and nothing else."""
    from ..dataflow import field_sources
    from .C18 import saves_of
    n = 0
    for crate in ["terraswap_pair", "stableswap_3pool", "vault", "vault_router", "fee_collector", "fee_distributor", "whale_lair",
                  "frontend_helper", "terraswap_factory", "vault_factory", "incentive_factory"]:
        p = "%s::contract::instantiate" % crate
        v = ctx.view(p, "C16-owner-init")
        if v is None:
            continue
        fields = v.fn["body"].get("argfields")
        if fields is None or "4" not in fields:
            ctx.missing("C16-owner-init", "field list of %s's InstantiateMsg" % crate)
            continue
        has_owner = "owner" in fields["4"]
        for sb, t in saves_of(v, "%s::state::CONFIG" % crate):
            for s_ in [s for s in field_sources(v, t["args"][2], ("owner",), v.at_term(sb)) if s.kind in ("assign", "partial", "agg")]:
                n += 1
                os_ = v.origins_of_operand(s_.operand, at=(s_.block, s_.idx)) if s_.operand else set()
                if has_owner:
                    ok = bool(os_) and all(o.kind == "param" and o.a == 4 and tuple(o.proj) == ("owner",) for o in os_)
                    want = "InstantiateMsg.owner"
                else:
                    ok = bool(os_) and all(o.kind == "param" and o.a == 3 and tuple(o.proj) == ("sender",) for o in os_)
                    want = "info.sender (the message has no owner field)"
                ctx.ob("C16-owner-init", "%s|owner" % p, ok, "CONFIG.owner := %s (must be %s)" % (sorted(map(repr, os_)), want), v.where(s_.block))
    ctx.floor("C16-owner-init", "owner assignments in instantiate", n, 11)


def check_owner_transfer(ctx, model):
    """After an ownership transfer the new owner is the address named in the request: every assignment to CONFIG.owner
    in an UpdateConfig handler takes the request's owner field (validated), nothing else."""
    from ..dataflow import field_sources
    from .C18 import saves_of
    rows = [("terraswap_pair", "terraswap_pair::commands::update_config"), ("stableswap_3pool", "stableswap_3pool::commands::update_config"),
            ("vault", "vault::execute::update_config::update_config"), ("fee_collector", "fee_collector::commands::update_config"),
            ("fee_distributor", "fee_distributor::commands::update_config"), ("whale_lair", "whale_lair::commands::update_config"),
            ("frontend_helper", "frontend_helper::contract::execute"), ("terraswap_factory", "terraswap_factory::commands::update_config"),
            ("incentive_factory", "incentive_factory::execute::update_config::update_config")]
    n = 0
    for crate, p in rows:
        v = ctx.view(p, "C16-owner-transfer")
        if v is None:
            continue
        for sb, t in saves_of(v, "%s::state::CONFIG" % crate):
            srcs = [s for s in field_sources(v, t["args"][2], ("owner",), v.at_term(sb)) if s.kind in ("assign", "partial", "agg")]
            if not srcs:
                continue
            for s_ in srcs:
                n += 1
                os_ = v.origins_of_operand(s_.operand, at=(s_.block, s_.idx)) if s_.operand else set()
                # resolve parameters at the call sites in `execute` down to the request's field name
                res = set()
                for o in os_:
                    if o.kind == "param" and not o.proj:
                        got = False
                        for (cp, cb, ck) in model.callers().get(p, []):
                            if ck != "call":
                                continue
                            cv = model.view(cp)
                            ct = cv.blocks[cb]["t"]
                            if o.a - 1 < len(ct["args"]):
                                res |= cv.origins_of_operand(ct["args"][o.a - 1], at=cv.at_term(cb))
                                got = True
                        if not got:
                            res.add(o)
                    else:
                        res.add(o)
                ok = bool(res) and all(o.kind == "param" and o.proj and o.proj[-1] in ("owner", "new_owner") for o in res)
                # ... normalised by Api::addr_validate (an unchecked / merely canonicalisable string can never equal a sender)
                with v.opaque(r"Api>::addr_(validate|canonicalize)$|Api::addr_(validate|canonicalize)$|Addr::unchecked$"):
                    raw = v.origins_of_operand(s_.operand, at=(s_.block, s_.idx)) if s_.operand else set()
                validated = bool(raw) and all(o.kind == "call" and re.search(r"addr_(validate|canonicalize)$", o.a) for o in raw)
                ok = ok and validated
                os_ = res
                ctx.ob("C16-owner-transfer", "%s|owner" % p, ok, "CONFIG.owner := %s (must be the request's owner field, stored as the result of addr_validate / addr_canonicalize: %s)" % (sorted(map(repr, os_)), validated), v.where(s_.block))
    ctx.floor("C16-owner-transfer", "owner assignments in UpdateConfig handlers", n, 7)
