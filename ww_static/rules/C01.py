"""C01 -- constant-product pool: solvent, LP share never loses value (structural part)."""
from .poolvalue import (check_raw_balance_single_consumer, check_fee_lookup_same_asset, check_v1_pools, check_v2_v3_pool, check_v4_min_liquidity, check_no_lp_outflow, check_v5_rounding)

EXPLANATION = """
Structural necessary conditions named in the property's own mechanism list, for terraswap_pair (both pair types share
these functions): V1 every function that reads pool balances through query_pools (swap, provide_liquidity,
withdraw_liquidity, the pool/simulation/reverse-simulation queries) subtracts the pending protocol fees of the same
ledger (receive_cw20 is the one listed exception: it only authorises the token). V2/V3 assert_sent_native_token_balance
succeeds before any pool balance is read in swap and provide_liquidity; native deposits are subtracted from the
balance and cw20 deposits are pulled by TransferFrom(sender -> contract, deposit); swap's offer subtraction is
decided under C14. V4 on the first deposit MINIMUM_LIQUIDITY_AMOUNT is minted to the contract itself, only when total
share is zero, a zero user share is rejected, and the contract never sends anything but Mint/Burn to its LP token
(so the locked stake cannot leave). V5 no ceil-family rounding in mint / refund / fee computations.
LP-value monotonicity, pro-rata bounds and solvency over histories are numerical and are not decided.
"""
ASSUMPTIONS = ["the numerical invariants (geometric-mean LP value, pro-rata payouts) need a dynamic or symbolic technique"]

C = "terraswap_pair"


def run(ctx):
    model = ctx.model()
    # the withdraw hook only honours the LP token itself (else a foreign cw20 could burn the locked minimum stake)
    from .C16 import check_hook_authorisation
    from .poolvalue import check_direct_withdraw
    check_direct_withdraw(ctx, model, "C01-V4", "terraswap_pair::contract::execute", r"^terraswap_pair::commands::withdraw_liquidity$", "terraswap_pair::state::PAIR_INFO", ("liquidity_token", "#NativeToken", "denom"))
    check_hook_authorisation(ctx, model, rule="C01-V4", only={"terraswap_pair"})
    check_v1_pools(ctx, model, C, "C01-V1")
    check_fee_lookup_same_asset(ctx, model, C, "C01-V1")
    check_raw_balance_single_consumer(ctx, model, C, "C01-V1")
    from .poolvalue import check_cp_share_formula, check_reserves_net_of_fees
    check_reserves_net_of_fees(ctx, model, C, "C01-V1")
    check_cp_share_formula(ctx, model, "C01-V6")
    from .poolvalue import check_fee_deduction_all_kinds
    check_fee_deduction_all_kinds(ctx, model, C, "C01-V1")
    # owed protocol fees: the pending entry is transferred to the collector and zeroed only where transferred (C07-F3's rule)
    from .C07 import check_collect as _pool_collect
    _pool_collect(ctx, model, C, "%s::commands::collect_protocol_fees" % C, "%s::state::COLLECTED_PROTOCOL_FEES" % C, rule="C01-V1")
    check_v2_v3_pool(ctx, model, C, "C01-V3")
    check_v4_min_liquidity(ctx, model, "%s::commands::provide_liquidity" % C, "C01-V4")
    check_no_lp_outflow(ctx, model, C, "C01-V4", "liquidity_token")
    check_v5_rounding(ctx, model, ["%s::commands::provide_liquidity" % C, "%s::commands::withdraw_liquidity" % C, "%s::helpers::compute_swap" % C,
                                   "white_whale_std::fee::Fee::compute"], "C01-V5")
