"""C07 -- protocol and burn fees: every unit charged is accounted, nothing else moves."""
import re
from fractions import Fraction
from ..facts import mname, term_callee
from ..mir import storage_call, switch_conds, cmp_true_false_edges
from ..dataflow import (forward_flow, message_creations, single_var_guard, single_var_regions, single_var_walk,
                        const_of, field_sources, call_of)
from ..effects import fn_effects, resolve_param_item, enumerate_chains
from .common import (arg_origins, strip_proj, must_pass_through, ok_value_blocks, storage_calls, writers_of, on_every_success_path)

EXPLANATION = """
F1: in pair/trio `swap` and vault `after_trade`, the protocol fee value (provenance: compute_swap(..).protocol_fee_amount /
config.fees.protocol_fee.compute(loan)) is passed to store_fee for BOTH the pending ledger and the all-time
ledger, keyed by the ask pool, and both calls lie on every path to a successful return (must-pass-through).
F2: the burn value goes to store_fee(ALL_TIME_BURNED_FEES) and to an attached into_burn_msg under the same
non-zero branch. F3: in every collect_protocol_fees the ledger entry is zeroed only if a transfer of that
entry is attached: the region of `amount` in which the transfer is skipped may only be {0} (ordering-domain walk
over the constants the code compares with); every message built there goes to CONFIG.fee_collector_addr and is
attached (forward flow to Response::add_messages). F4: the all-time ledgers are written only by the add-only
helper store_fee (whose stored amount is loaded amount + fee) and by instantiate-time initialisers.
F5: at instantiation each of the three ledgers receives one zero entry per pool asset, built from the normalised
asset_infos[0..n) of the request in order (store_fee silently skips an asset without entry).
"""
ASSUMPTIONS = [
    "Asset::into_burn_msg builds Cw20 Burn / BankMsg::Burn, which removes the tokens from circulation (library semantics)",
    "the inductive sum 'ledger = charges - transfers' follows from F1-F4 per step; the induction is not a tool result",
]

POOLS = ["terraswap_pair", "stableswap_3pool"]


def items_of_store_fee(model, view, b, t, crate):
    """Which ledger(s) a store_fee call targets (the Item argument, wherever it is positioned): one for a plain call,
    several when the call sits in a loop over a literal list of ledgers. Returns ([items], argument index)."""
    for i, a in enumerate(t["args"]):
        os_ = view.origins_of_operand(a, at=view.at_term(b))
        if os_ and all(o.kind == "item" and "::state::" in o.a for o in os_):
            return sorted(o.a for o in os_), i
    return [], None


def item_of_store_fee(model, view, b, t, crate):
    items, i = items_of_store_fee(model, view, b, t, crate)
    return (items[0], i) if len(items) == 1 else (None, None)


CLONE = r"as std::clone::Clone>::clone$"


def pool_identity_of(v, operand, at, proj=(), depth=0):
    """Identity of a pool operand = the `pools[i].clone()` assignment sites it comes from (clone calls are kept
    opaque so that the offer and the ask pool, both taken from the same vector, stay distinguishable)."""
    out = set()
    with v.opaque(CLONE):
        os_ = v.origins_of_operand(operand, proj=proj, at=at)
    for o in os_:
        c = call_of(v, o)
        if c and re.search(CLONE, mname(c[1])) and depth < 4:
            with v.opaque(CLONE):
                inner = v.origins_of_operand(c[1]["args"][0], proj=o.proj, at=v.at_term(c[0]))
            if any(call_of(v, x) and re.search(CLONE, mname(call_of(v, x)[1])) for x in inner):
                out |= pool_identity_of(v, c[1]["args"][0], v.at_term(c[0]), o.proj, depth + 1)
            else:
                out.add(("clone-site", o.b))
        else:
            out.add((o.kind, o.a, o.b))
    return out


def check_swap(ctx, model, crate):
    p = "%s::commands::swap" % crate
    v = ctx.view(p, "C07-F1")
    if v is None:
        return
    cs = v.calls_to(r"^%s::helpers::compute_swap$" % crate)
    if len(cs) != 1:
        ctx.missing("C07-F1", "single compute_swap call in %s" % p)
        return
    cb, ct = cs[0]
    # which pool is the ask pool: second argument of compute_swap
    ask_ids = pool_identity_of(v, ct["args"][1], v.at_term(cb))
    offer_ids = pool_identity_of(v, ct["args"][0], v.at_term(cb))
    oks = ok_value_blocks(v)
    seen = {}
    for b, t in v.calls_to(r"^%s::state::store_fee$" % crate):
        items, idx = items_of_store_fee(model, v, b, t, crate)
        if not items:
            ctx.ob("C07-F1", "%s|store_fee|unknown-item" % p, False, "store_fee call with unresolved ledger", v.where(b), kind="unrecognised")
            continue
        amt = arg_origins(v, b, t, 1)
        idr = set()
        # asset id argument: get_id() of the ask pool
        for o in arg_origins(v, b, t, 2):
            c = call_of(v, o)
            if c and mname(c[1]).endswith("Asset::get_id"):
                idr |= pool_identity_of(v, c[1]["args"][0], v.at_term(c[0]), ("info",))
        for item in items:
            seen.setdefault(item.split("::")[-1], []).append((b, amt, idr, t["args"][idx]))
    for short, field in [("COLLECTED_PROTOCOL_FEES", "protocol_fee_amount"), ("ALL_TIME_COLLECTED_PROTOCOL_FEES", "protocol_fee_amount"),
                         ("ALL_TIME_BURNED_FEES", "burn_fee_amount")]:
        sites = seen.get(short, [])
        if not sites:
            ctx.ob("C07-F1", "%s|store_fee|%s" % (p, short), False, "no store_fee call for %s in swap" % short, v.where())
            continue
        for b, amt, idr, item_op in sites:
            ok_amt = bool(amt) and all(o.kind == "call" and o.a.endswith("helpers::compute_swap") and tuple(o.proj) == (field,) for o in amt)
            ok_id = bool(idr) and bool(ask_ids) and idr <= ask_ids and not (idr & (offer_ids - ask_ids))
            ctx.ob("C07-F1", "%s|store_fee|%s|value" % (p, short), ok_amt,
                   "amount stored in %s comes from %s (must be compute_swap(..).%s)" % (short, sorted(map(repr, amt)), field), v.where(b))
            ctx.ob("C07-F1", "%s|store_fee|%s|ask-pool" % (p, short), ok_id,
                   "ledger entry is keyed by the pool %s; ask pool is %s" % (sorted(idr), sorted(ask_ids)), v.where(b))
            if short != "ALL_TIME_BURNED_FEES":
                ctx.ob("C07-F1", "%s|store_fee|%s|every-success-path" % (p, short), bool(oks) and on_every_success_path(v, b, oks, item_op),
                       "store_fee(%s) lies on every path to a successful return" % short, v.where(b))
    # F2 burn: same branch holds the ledger write and the attached burn message
    burns = v.calls_to(r"Asset::into_burn_msg$")
    bsites = seen.get("ALL_TIME_BURNED_FEES", [])
    if not burns:
        ctx.ob("C07-F2", "%s|burn-msg" % p, False, "no into_burn_msg call in swap", v.where())
    for bb, bt in burns:
        src = v.origins_of_operand(bt["args"][0], proj=("amount",), at=v.at_term(bb))
        ok_amt = bool(src) and all(o.kind == "call" and o.a.endswith("helpers::compute_swap") and tuple(o.proj) == ("burn_fee_amount",) for o in src)
        tainted, sinks, ret = forward_flow(v, [bt["dest"]["l"]])
        together = all(must_pass_through(v, sb, [bb]) or must_pass_through(v, bb, [sb]) for sb, _, _, _ in bsites) and bool(bsites)
        # and neither is reachable without the other: same guard region
        same_region = all((bb in v.reach_strict(sb) or sb in v.reach_strict(bb)) for sb, _, _, _ in bsites)
        ctx.ob("C07-F2", "%s|burn|value-attached-paired" % p, ok_amt and bool(sinks) and together and same_region,
               "burn message amount from %s; attached: %s; paired with ALL_TIME_BURNED_FEES write: %s" % (sorted(map(repr, src)), bool(sinks), together), v.where(bb))


def check_collect(ctx, model, crate, p, ledger, vault=False, rule="C07-F3"):
    v = ctx.view(p, rule)
    if v is None:
        return
    saves = storage_calls(v, ledger, ("save", "update"))
    if not saves:
        ctx.missing(rule, "%s reset in %s" % (ledger, p))
        return
    # the ledger is written back on every path to a successful return (an early `return Ok(..)` carrying transfers that
    # were already queued would pay them out and leave them owed)
    oks = ok_value_blocks(v)
    saved = bool(oks) and any(must_pass_through(v, sb, oks) for sb, _ in saves)
    ctx.ob(rule, "%s|ledger-saved-on-every-success-path" % p, saved, "%s write lies on every path to a successful return: %s" % (ledger.split("::")[-1], saved), v.where(saves[0][0]))
    # transfers
    # the transfers are built in the handler or in a closure of an iterator pipeline over the ledger: either way they are
    # read in their own body (sv) and their operands are translated back into the handler (scope_origins)
    from .common import scope_calls, scope_origins, scope_attached
    from ..guards import resolve as _resolve
    xfers = scope_calls(model, p, r"Asset::into_msg$")
    if not xfers:
        ctx.ob(rule, "%s|transfer" % p, False, "no transfer of the pending fees is built", v.where())
        return
    for sv, chain, xb, xt in xfers:
        rec = scope_origins(model, chain, sv, xt["args"][1], sv.at_term(xb))
        ok_rec = bool(rec) and all(o.kind == "load" and o.a.endswith("::state::CONFIG") and tuple(o.proj) == ("fee_collector_addr",) for o in rec)
        ctx.ob(rule, "%s|recipient" % p, ok_rec, "transfer recipient: %s (must be CONFIG.fee_collector_addr)" % sorted(map(repr, rec)), sv.where(xb))
        src = scope_origins(model, chain, sv, xt["args"][0], sv.at_term(xb))
        ok_src = bool(src) and all(o.kind == "load" and o.a.endswith(ledger) for o in src)
        if not ok_src and src and all(o.kind == "agg" for o in src):
            # `Asset { info: entry.info.clone(), amount: entry.amount }` is the entry too: decided field by field
            parts = {f: scope_origins(model, chain, sv, xt["args"][0], sv.at_term(xb), proj=(f,)) for f in ("info", "amount")}
            ok_src = all(os_ and all(o.kind == "load" and o.a.endswith(ledger) and tuple(o.proj[-1:]) == (f,) for o in os_)
                         for f, os_ in parts.items())
            src = set().union(*parts.values())
        ctx.ob(rule, "%s|transfers-the-ledger-entry" % p, ok_src, "transferred asset: %s (must be the loaded %s entry)" % (sorted(map(repr, src)), ledger.split("::")[-1]), sv.where(xb))
        attached = scope_attached(model, chain, sv, xt["dest"]["l"])
        ctx.ob(rule, "%s|transfer-attached" % p, attached, "transfer message reaches Response::add_messages: %s" % attached, sv.where(xb))
        # reset <=> transfer: region walk on the entry amount
        def is_x(os_, sv=sv, chain=chain):
            os_ = _resolve(model, chain, sv, os_, elems=True)
            return bool(os_) and all(o.kind == "load" and o.a.endswith(ledger) and o.proj and o.proj[-1] == "amount" for o in os_)
        tracked, ths = single_var_guard(sv, is_x, [Fraction(0)])
        unresolved = getattr(sv, "_unresolved_cmp", [])
        if unresolved:
            ctx.ob(rule, "%s|reset-iff-transfer" % p, False, "comparison of the pending amount with an unevaluated constant %s" % unresolved,
                   sv.where(unresolved[0][0]), kind="unrecognised")
            continue
        # zeroing sites: `Asset { amount: 0, .. }` values that flow into the ledger save
        zsites = []
        save_blocks = {sb for sb, _ in saves}
        if sv is v:
            for b, i, s in v.iter_stmts():
                rv = s["rv"]
                if rv["r"] == "agg" and rv.get("adt", "").endswith("asset::Asset") and "amount" in rv.get("fields", []):
                    ao = rv["ops"][rv["fields"].index("amount")]
                    if const_of(v, ao, (b, i)) == 0:
                        tainted, _, _ = forward_flow(v, [s["lhs"]["l"]])
                        feeds = False
                        for sb, st in saves:
                            for a in st["args"]:
                                if a["k"] in ("copy", "move") and a["pl"]["l"] in tainted:
                                    feeds = True
                        if feeds:
                            zsites.append(b)
        # ... or `entry.amount = 0` written into (a reference to an element of) the loaded ledger that is saved back
        for b, i, s in sv.iter_stmts():
            F = sv._named_fields(s["lhs"]["p"])
            if F and F[-1] == "amount" and s["rv"]["r"] in ("use",):
                if const_of(sv, s["rv"]["op"], (b, i)) == 0:
                    base = _resolve(model, chain, sv, sv.origins_of_place({"l": s["lhs"]["l"], "p": []}, at=(b, i)), elems=True)
                    if any(o.kind == "load" and o.a.endswith(ledger) for o in base):
                        zsites.append(b)
        if not zsites:
            ctx.ob(rule, "%s|reset-iff-transfer" % p, False,
                   "cannot find where the pending ledger entry is zeroed (no Asset{amount: 0} flowing into the %s save)" % ledger.split("::")[-1],
                   v.where(saves[0][0]), kind="unrecognised")
            continue
        bad = []
        rows = []
        for x in single_var_regions(ths):
            if x < 0:
                continue
            reach = single_var_walk(sv, tracked, x)
            sent = xb in reach
            zeroed = any(z in reach for z in zsites)
            rows.append("%s:%s/%s" % (x, "transfer" if sent else "skip", "zeroed" if zeroed else "kept"))
            if x > 0 and zeroed and not sent:
                bad.append("amount=%s is zeroed in the ledger but not transferred" % x)
            if x > 0 and sent and not zeroed:
                bad.append("amount=%s is transferred but stays in the ledger" % x)
        ctx.ob(rule, "%s|reset-iff-transfer" % p, not bad,
               ("MISMATCH " + "; ".join(bad) + " | " if bad else "") + "pending amount regions (transfer/ledger): %s" % rows,
               sv.where(xb))
    # every message created here is a transfer to the collector
    for b, i, l, desc in message_creations(v, model):
        if "into_msg" in desc:
            continue
        ctx.ob(rule, "%s|no-other-message|%s" % (p, desc), False, "collect builds a message other than the fee transfer: %s" % desc, v.where(b))


def check_store_fee_addonly(ctx, model, crate):
    p = "%s::state::store_fee" % crate
    if not model.has(p):
        ctx.missing("C07-F4", p)
        return
    ctx.fn_seen.add(p)
    found = False
    for q in [p] + model.closures_of(p):
        v = model.view(q)
        for b, t in v.iter_calls():
            n = mname(t)
            if re.search(r"(<cosmwasm_std::Uint128 as std::ops::Add>::add|cosmwasm_std::Uint128::checked_add|<cosmwasm_std::Uint128 as std::ops::AddAssign>::add_assign)$", n):
                a0 = v.origins_of_operand(t["args"][0], at=v.at_term(b))
                a1 = v.origins_of_operand(t["args"][1], at=v.at_term(b))
                found = True
                ctx.ob("C07-F4", "%s|adds" % p, True, "%s: %s + %s" % (q, sorted(map(repr, a0)), sorted(map(repr, a1))), v.where(b))
            if re.search(r"Uint128 as std::ops::Sub|Uint128::(checked_sub|saturating_sub)|Uint128::zero$", n):
                ctx.ob("C07-F4", "%s|no-subtraction" % p, False, "store_fee contains %s" % n, v.where(b))
    if not found:
        ctx.ob("C07-F4", "%s|adds" % p, False, "store_fee does not add the fee to the loaded amount", model.view(p).where())


def check_writers(ctx, model):
    allowed_fn = re.compile(r"::state::store_fee(::\{closure#\d+\})*$|::helpers::instantiate_fees$|::state::initialize_fee$|::migrations::|::contract::migrate$")
    n = 0
    for crate in POOLS + ["vault"]:
        for ledger in ("ALL_TIME_COLLECTED_PROTOCOL_FEES", "ALL_TIME_BURNED_FEES", "COLLECTED_PROTOCOL_FEES"):
            item = "%s::state::%s" % (crate, ledger)
            for p in list(model.all_paths(crate)):
                for chain_p in [p]:
                    for e in fn_effects(model, p):
                        if e.kind != "write":
                            continue
                        what = e.what
                        if what == item:
                            n += 1
                            ok = bool(allowed_fn.search(p)) or (ledger == "COLLECTED_PROTOCOL_FEES" and p.endswith("collect_protocol_fees"))
                            ctx.ob("C07-F4", "writer|%s|%s" % (item, p.split("::{closure")[0]), ok,
                                   "%s written directly by %s" % (item, p) + ("" if ok else " -- only store_fee / initialisers (and collect for the pending ledger) may write it"),
                                   model.view(p).where(e.block))
    # parameterised writers: who passes which ledger to store_fee / initialisers
    for crate in POOLS + ["vault"]:
        for p in list(model.all_paths(crate)):
            v = model.view(p)
            for b, t in v.iter_calls():
                c = term_callee(t)
                if c in model.fnsrc and re.search(r"::(store_fee|initialize_fee|instantiate_fees)$", c):
                    n += 1
    ctx.floor("C07-F4", "ledger write sites", n, 15)


def check_vault_after_trade(ctx, model):
    p = "vault::execute::callback::after_trade::after_trade"
    v = ctx.view(p, "C07-F1")
    if v is None:
        return
    oks = ok_value_blocks(v)
    seen = {}
    for b, t in v.calls_to(r"^vault::state::store_fee$"):
        items, idx = items_of_store_fee(model, v, b, t, "vault")
        amt = arg_origins(v, b, t, 2)
        for item in items or ["?"]:
            seen.setdefault(item.split("::")[-1], []).append((b, amt, t["args"][idx] if idx is not None else None))

    def fee_value(os_, field):
        # Uint128::try_from(config.fees.<field>.compute(Uint256::from(loan_amount)))
        if not os_:
            return False
        for o in os_:
            c = call_of(v, o)
            if not c or not mname(c[1]).endswith("fee::Fee::compute"):
                return False
            recv = v.origins_of_operand(c[1]["args"][0], at=v.at_term(c[0]))
            amt = v.origins_of_operand(c[1]["args"][1], at=v.at_term(c[0]))
            if not all(x.kind == "load" and x.a.endswith("vault::state::CONFIG") and tuple(x.proj) == ("fees", field) for x in recv) or not recv:
                return False
            if not all(x.kind == "param" and x.a == 4 for x in amt) or not amt:
                return False
        return True
    for short, field in [("COLLECTED_PROTOCOL_FEES", "protocol_fee"), ("ALL_TIME_COLLECTED_PROTOCOL_FEES", "protocol_fee"), ("ALL_TIME_BURNED_FEES", "burn_fee")]:
        sites = seen.get(short, [])
        if not sites:
            ctx.ob("C07-F1", "%s|store_fee|%s" % (p, short), False, "no store_fee call for %s" % short, v.where())
        for b, amt, item_op in sites:
            ctx.ob("C07-F1", "%s|store_fee|%s|value" % (p, short), fee_value(amt, field),
                   "amount stored in %s: %s (must be CONFIG.fees.%s.compute(loan_amount))" % (short, sorted(map(repr, amt)), field), v.where(b))
            if short != "ALL_TIME_BURNED_FEES":
                ctx.ob("C07-F1", "%s|store_fee|%s|every-success-path" % (p, short), bool(oks) and on_every_success_path(v, b, oks, item_op),
                       "store_fee(%s) lies on every path to a successful return" % short, v.where(b))
    burns = v.calls_to(r"Asset::into_burn_msg$")
    bsites = seen.get("ALL_TIME_BURNED_FEES", [])
    if not burns:
        ctx.ob("C07-F2", "%s|burn-msg" % p, False, "no into_burn_msg call", v.where())
    for bb, bt in burns:
        src = v.origins_of_operand(bt["args"][0], proj=("amount",), at=v.at_term(bb))
        tainted, sinks, ret = forward_flow(v, [bt["dest"]["l"]])
        paired = bool(bsites) and all((bb in v.reach_strict(sb) and must_pass_through(v, sb, [bb])) or (sb in v.reach_strict(bb) and must_pass_through(v, bb, [sb])) for sb, _, _ in bsites)
        ctx.ob("C07-F2", "%s|burn|value-attached-paired" % p, fee_value(src, "burn_fee") and (bool(sinks) or ret) and paired,
               "burn message amount from %s; attached: %s; paired with ALL_TIME_BURNED_FEES write: %s" % (sorted(map(repr, src)), bool(sinks) or ret, paired), v.where(bb))


def check_ledger_init(ctx, model, crate):
    """F5: at instantiation each of the three ledgers gets exactly one zero entry per pool asset, in pool order
    (store_fee silently skips an asset that has no entry, so a missing entry loses every later charge)."""
    from .C03 import _array_index
    p = "%s::contract::instantiate" % crate
    v = ctx.view(p, "C07-F5")
    h = ctx.view("%s::helpers::instantiate_fees" % crate, "C07-F5")
    if v is None or h is None:
        return
    calls = v.calls_to(r"^%s::helpers::instantiate_fees$" % crate)
    items = []
    for b, t in calls:
        n = len(t["args"]) - 2
        it = arg_origins(v, b, t, len(t["args"]) - 1)
        item = sorted(o.a for o in it if o.kind == "item")
        items += item
        idxs = []
        rooted = True
        for k in range(1, n + 1):
            idx = None
            for o in arg_origins(v, b, t, k):
                c = call_of(v, o)
                if c and mname(c[1]).endswith("::to_normal"):
                    idx = _array_index(v, c[1]["args"][0], v.at_term(c[0]))
                    root = v.origins_of_operand(c[1]["args"][0], at=v.at_term(c[0]), taint=True)
                    rooted = rooted and any(x.kind == "param" and x.a == 4 and tuple(x.proj[:1]) == ("asset_infos",) for x in root)
                else:
                    idx = None
                    break
            idxs.append(idx)
        ctx.ob("C07-F5", "%s|init|%s" % (p, ",".join(x.split("::")[-1] for x in item) or "?"), idxs == list(range(n)) and rooted and len(item) == 1,
               "ledger %s initialised with the normalised asset_infos%s of the request (must be [0..%d) in order)" % (item, idxs, n), v.where(b))
    want = {"%s::state::%s" % (crate, x) for x in ("COLLECTED_PROTOCOL_FEES", "ALL_TIME_COLLECTED_PROTOCOL_FEES", "ALL_TIME_BURNED_FEES")}
    ctx.ob("C07-F5", "%s|three-ledgers" % p, sorted(items) == sorted(want), "ledgers initialised: %s" % sorted(items), v.where())
    # the helper: one Asset{info: param_k, amount: zero} per asset parameter, saved under the item parameter
    n = h.argc - 2
    infos = []
    zero = True
    for b, i, s_ in h.iter_stmts():
        rv = s_["rv"]
        if rv["r"] == "agg" and rv.get("adt", "").endswith("asset::Asset"):
            f = dict(zip(rv["fields"], rv["ops"]))
            io = h.origins_of_operand(f["info"], at=(b, i))
            ao = h.origins_of_operand(f["amount"], at=(b, i))
            infos.append(sorted(o.a for o in io if o.kind == "param" and not o.proj) if io and all(o.kind == "param" and not o.proj for o in io) else None)
            zero = zero and bool(ao) and all(o.kind == "call" and o.a.endswith("Uint128::zero") for o in ao)
    saves = [(b, t) for b, t in h.iter_calls() if (storage_call(t) or (None, None))[1] == "save"]
    recv_ok = len(saves) == 1 and all(o.kind == "param" and o.a == h.argc for o in h.origins_of_operand(saves[0][1]["args"][0], at=h.at_term(saves[0][0])))
    ctx.ob("C07-F5", "%s::helpers::instantiate_fees|one-zero-entry-per-asset" % crate,
           infos == [[k] for k in range(2, 2 + n)] and zero and recv_ok,
           "entries built from parameters %s with zero amounts: %s, saved under the item parameter: %s" % (infos, zero, recv_ok), h.where())


def check_compute_swap_fields(ctx, model):
    """F1 (source of the charged value): what swap books as the protocol / burn fee is compute_swap(..).protocol_fee_amount /
    .burn_fee_amount; in BOTH pair-type arms of compute_swap those fields carry Fee::compute of the like-named pool_fees
    field (so the amount booked is the amount withheld from the trader)."""
    from .C02 import check_result_fields, cp_arm_blocks, CS
    from ..dataflow import variant_excluded_edges
    v = ctx.view(CS, "C07-F1")
    if v is None:
        return
    cp = cp_arm_blocks(v)
    pred = lambda os_: bool(os_) and all(o.kind == "param" and "PairType" in v.local_ty(o.a) for o in os_)
    ss = v.reachable(0, cut_edges=variant_excluded_edges(v, "pool_network::asset::PairType", pred, "StableSwap")) - \
        v.reachable(0, cut_edges=variant_excluded_edges(v, "pool_network::asset::PairType", pred, "ConstantProduct"))
    check_result_fields(ctx, v, cp, "C07-F1", "constant-product arm")
    check_result_fields(ctx, v, ss, "C07-F1", "stableswap arm")


def run(ctx):
    model = ctx.model()
    check_compute_swap_fields(ctx, model)
    # the vault's balance snapshot for the repayment test is the raw queried balance (pending fees are owed, not spare)
    from .C06 import check_flash_loan
    check_flash_loan(ctx.renamed({"C06-X2": "C07-F1"}), model)
    # F6: pending fees are not LP reserves, before and after a collection: every reader of pool balances subtracts the
    # PENDING ledger (not the all-time one), looked up per asset, for every asset kind
    from .poolvalue import check_v1_pools, check_fee_lookup_same_asset, check_raw_balance_single_consumer, check_fee_deduction_all_kinds, pending_fee_subtracted
    for crate in POOLS:
        check_v1_pools(ctx, model, crate, "C07-F6")
        check_fee_lookup_same_asset(ctx, model, crate, "C07-F6")
        check_raw_balance_single_consumer(ctx, model, crate, "C07-F6")
        check_fee_deduction_all_kinds(ctx, model, crate, "C07-F6")
    for crate in POOLS:
        check_ledger_init(ctx, model, crate)
        check_swap(ctx, model, crate)
        check_collect(ctx, model, crate, "%s::commands::collect_protocol_fees" % crate, "%s::state::COLLECTED_PROTOCOL_FEES" % crate)
        check_store_fee_addonly(ctx, model, crate)
    check_vault_after_trade(ctx, model)
    check_collect(ctx, model, "vault", "vault::execute::collect_protocol_fee::collect_protocol_fees", "vault::state::COLLECTED_PROTOCOL_FEES", vault=True)
    check_store_fee_addonly(ctx, model, "vault")
    check_writers(ctx, model)
