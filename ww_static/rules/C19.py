"""C19 -- factories and router: one child per asset set; the registry tells the truth (structural part)."""
import re
from ..facts import mname, term_callee
from ..mir import switch_conds, cmp_true_false_edges, try_edges, storage_call
from ..dataflow import call_of, cond_at, forward_flow, message_creations, const_of
from ..guards import HelperGuard, site_guarded
from ..effects import fn_effects, resolve_items
from .common import storage_calls, arg_origins, ok_value_blocks, must_pass_through

EXPLANATION = """
R1: pair_key / trio_key concatenate the bytes of the vector they sorted (sort_by on as_bytes order precedes the concat and
the concatenated elements come from the sorted vector). R2: every PAIRS / TRIOS access in the factory uses a key whose
provenance is pair_key(..) / trio_key(..) or the pair_key / trio_key field of the loaded TMP record (itself written from
the key function); VAULTS is keyed by AssetInfo::get_reference or the TMP_VAULT_ASSET key; INCENTIVE_MAPPINGS by
to_raw(lp_asset).as_bytes. R3: in create_pair / create_trio / create_vault / create_incentive the 'already exists' edge of
the lookup with that same key cannot reach the TMP write or the Instantiate sub-message, and identical assets are
rejected for every index pair. R4: each Instantiate sub-message id constant is dispatched by the contract's reply entry
point to a handler, and reply_on is Success (Always with the error turned into Err for the incentive factory). R5:
registry truth at both ends: the values put in the TMP record are the values put in the child's InstantiateMsg; the reply
stores the address from the instantiate response, the LP token from the child's own Pair/Trio query and the asset data
from the TMP record; vault and incentive analogues. R6: remove_* removes exactly the key it looked up, only after the
existence check. R7: the router stores a route only after simulate_swap_operations succeeded for it, and resolves every hop
through query_pair_info on CONFIG.terraswap_factory. Pagination completeness and key-collision freedom are statements
about runtime key bytes and are not decided.
R8: each listing resumes at Bound::ExclusiveRaw(cursor || k) with one constant byte k <= 0x20 appended to the returned
cursor (a larger k skips stored keys that extend the cursor, e.g. uusd -> uusdc).
"""
ASSUMPTIONS = ["the child's instantiate stores the InstantiateMsg asset data it is given (pair/trio/vault instantiate are covered for fees/flags by C17/C18)"]

F = "terraswap_factory"


def key_class(model, v, os_, depth=0):
    """Provenance class of a registry key operand."""
    cls = set()
    for o in os_:
        if o.kind == "call" and o.a.endswith("AssetInfoRaw::as_bytes") and depth < 3:
            c = call_of(v, o)
            if c:
                cls |= key_class(model, v, v.origins_of_operand(c[1]["args"][0], at=v.at_term(c[0])), depth + 1)
                continue
        if o.kind == "call" and re.search(r"::state::(pair_key|trio_key)$", o.a):
            cls.add(o.a.split("::")[-1])
        elif o.kind == "load" and o.proj and o.proj[-1] in ("pair_key", "trio_key"):
            cls.add("TMP." + o.proj[-1])
        elif o.kind == "load" and "TMP_VAULT_ASSET" in o.a:
            cls.add("TMP_VAULT_ASSET.key")
        elif o.kind == "call" and o.a.endswith("AssetReference>::get_reference"):
            cls.add("get_reference")
        elif o.kind == "call" and o.a.endswith("asset::AssetInfo::to_raw"):
            cls.add("to_raw")
        elif o.kind == "call" and (o.a.endswith("calc_range_start") or "calc_range" in o.a):
            cls.add("range-cursor")
        else:
            cls.add("OTHER:" + repr(o))
    return cls


def two_element_order(v, concat):
    """Two labels put in byte order without a sort call: a comparison of as_bytes(x[i]) with as_bytes(x[j]) decides which
    goes first. For each outcome of that comparison (region walk + provenance restricted to the blocks it can execute)
    the concatenated pair must be (smaller, larger)."""
    from ..dataflow import region_walk
    cb, ct = concat

    def label_index(os_):
        ks = set()
        for o in os_:
            k = [x for x in o.proj if re.fullmatch(r"\[\d+\]", str(x))]
            ks.add(int(k[-1][1:-1]) if k else None)
        return next(iter(ks)) if len(ks) == 1 else None
    cands = []
    for b, c, _ in switch_conds(v):
        if c.kind != "cmp" or c.op not in ("<", ">", "<=", ">="):
            continue
        at = cond_at(v, c)
        with v.opaque(r"AssetInfoRaw::as_bytes$"):
            oa, ob = v.origins_of_operand(c.a, at=at), v.origins_of_operand(c.b, at=at)
        if not (oa and ob and all(o.kind == "call" and o.a.endswith("as_bytes") for o in oa | ob)):
            continue
        ia = label_index(set().union(*[v.origins_of_operand(call_of(v, o)[1]["args"][0], at=v.at_term(call_of(v, o)[0])) for o in oa if call_of(v, o)]))
        ib = label_index(set().union(*[v.origins_of_operand(call_of(v, o)[1]["args"][0], at=v.at_term(call_of(v, o)[0])) for o in ob if call_of(v, o)]))
        if ia is None or ib is None or {ia, ib} != {0, 1}:
            continue
        cands.append((b, c, ia, ib))
    if len(cands) != 1:
        return False, "no sort call and %d byte-order comparisons of the two labels" % len(cands)
    b0, c0, ia, ib = cands[0]
    rows = {}
    for truth in (True, False):
        reach = region_walk(v, lambda bb, cc, truth=truth: truth if bb == b0 else None)
        if cb not in reach:
            return False, "concat unreachable when the comparison is %s" % truth
        with v.restricted(reach):
            order = []
            for k in (0, 1):
                with v.opaque(r"AssetInfoRaw::as_bytes$"):
                    es = v.origins_of_operand(ct["args"][0], proj=("[%d]" % k,), at=v.at_term(cb))
                inner = set()
                for o in es:
                    cc_ = call_of(v, o)
                    if cc_:
                        inner |= v.origins_of_operand(cc_[1]["args"][0], at=v.at_term(cc_[0]))
                order.append(label_index(inner))
        # which label is known to be the smaller one under this outcome
        strict_small = {"<": ia, ">": ib, "<=": ia, ">=": ib}[c0.op] if truth else {"<": ib, ">": ia, "<=": ib, ">=": ia}[c0.op]
        rows[truth] = (order, strict_small)
        if order != [strict_small, 1 - strict_small]:
            return False, "when as_bytes(x[%d]) %s as_bytes(x[%d]) is %s the pair is concatenated in order %s" % (ia, c0.op, ib, truth, order)
    return True, "byte-order comparison selects (smaller, larger): %s" % rows


def sorted_then_appended(v, sort):
    """The key built without `concat()`: the labels' byte strings are collected, sorted bytewise, and appended one after
    the other (every one of them, in the sorted order) to the vector that is returned."""
    from .common import vec_additions
    sb, st = sort
    a0 = st["args"][0]
    if a0["k"] not in ("copy", "move"):
        return False, "sort receiver is not a local"
    sorted_locals = {a0["pl"]["l"]} | v.alias_roots(a0["pl"]["l"])
    with v.opaque(r"as std::ops::DerefMut>::deref_mut$|as std::ops::Deref>::deref$"):
        for o in v.origins_of_operand(a0, at=v.at_term(sb)):
            c = call_of(v, o)
            if c and c[1]["args"] and c[1]["args"][0]["k"] in ("copy", "move"):
                l0 = c[1]["args"][0]["pl"]["l"]
                sorted_locals |= {l0} | v.alias_roots(l0)
    # what is sorted are the byte representations of the labels
    elems = set()
    for l in sorted_locals:
        elems |= v.origins_of_place({"l": l, "p": []}, at=v.at_term(sb), taint=True)
    bytes_sorted = any((o.kind in ("fnitem", "call")) and str(o.a).endswith("as_bytes") for o in elems)
    byte_order = mname(st).endswith("::sort") or mname(st).endswith("::sort_unstable")
    adds = [x for x in vec_additions(v, r"Vec<u8>") if x[3] in ("extend", "append", "push")]
    if len(adds) != 1:
        return False, "%d places append to the key" % len(adds)
    ab, at_, elem, how, at = adds[0]
    with v.opaque(r"Iterator>::next$"):
        eos = v.origins_of_operand(elem, at=at)
    from_sorted = False
    for o in eos:
        c = call_of(v, o)
        if c and mname(c[1]).endswith("Iterator>::next"):
            for l in sorted_locals:
                src = v.origins_of_operand(c[1]["args"][0], at=v.at_term(c[0]), taint=True)
                loc = v.origins_of_place({"l": l, "p": []}, at=v.at_term(c[0]), taint=True)
                if src and loc and (src & loc):
                    from_sorted = True
            # every element is appended: from the loop body no way back to next() that avoids the append
            from .common import body_always_passes
            if not body_always_passes(v, c[0], ab, [b_ for b_ in v.return_blocks()]):
                from_sorted = False
    after = ab in v.reach_strict(sb) and must_pass_through(v, sb, [ab])
    ret = {(o.kind, o.a, o.b) for o in v.origins_of_place({"l": 0, "p": []}) if o.kind != "err"}
    recv = {(o.kind, o.a, o.b) for o in v.origins_of_operand(at_["args"][0], at=v.at_term(ab))} if at_ else set()
    returned = bool(ret) and ret == recv
    ok = bytes_sorted and byte_order and from_sorted and after and returned
    return ok, "byte strings sorted bytewise: %s/%s; every sorted element appended after the sort: %s/%s; the appended vector is returned: %s" % (
        bytes_sorted, byte_order, from_sorted, after, returned)


def check_key_fns(ctx, model):
    fns = [("%s::state::pair_key" % F, 2), ("%s::state::trio_key" % F, 3)]
    # the pagination cursors are built by closures inside calc_range_start / trio_calc_range_start and must
    # canonicalise exactly like the keys they are compared with
    from .common import scope_views
    for base, n in (("%s::state::calc_range_start" % F, 2), ("%s::state::trio_calc_range_start" % F, 3)):
        # the body that builds the cursor: the function itself or the closure it maps over `start_after`
        cl = [sv.path for sv, ch in scope_views(model, base, depth=1) if sv.calls_to(r"::concat$")]
        if not cl:
            ctx.missing("C19-R1", "cursor construction (concat) in %s" % base)
        fns += [(c, n) for c in cl[:1]]
    for p, n in fns:
        v = ctx.view(p, "C19-R1")
        if v is None:
            continue
        sorts = v.calls_to(r"^std::slice::sort_by$|^std::slice::sort(_unstable)?(_by(_key)?)?$")
        concats = v.calls_to(r"::concat$")
        ok = len(sorts) == 1 and len(concats) == 1
        det = ""
        if len(sorts) == 1 and not concats:
            ok3, det3 = sorted_then_appended(v, sorts[0])
            ctx.ob("C19-R1", "%s|sorted-then-concatenated" % p, ok3, det3, v.where(sorts[0][0]))
            continue
        if not sorts and len(concats) == 1 and n == 2:
            ok2, det2 = two_element_order(v, concats[0])
            ctx.ob("C19-R1", "%s|sorted-then-concatenated" % p, ok2, det2, v.where(concats[0][0]))
            continue
        if ok:
            sb, st = sorts[0]
            cb, ct = concats[0]
            # sorted vector local
            with v.opaque(r"as std::ops::DerefMut>::deref_mut$|as std::ops::Deref>::deref$"):
                so = v.origins_of_operand(st["args"][0], at=v.at_term(sb))
            sorted_locals = set()
            a0 = st["args"][0]
            if a0["k"] in ("copy", "move"):
                sorted_locals = {a0["pl"]["l"]} | v.alias_roots(a0["pl"]["l"])
                for o in so:
                    c = call_of(v, o)
                    if c and c[1]["args"] and c[1]["args"][0]["k"] in ("copy", "move"):
                        l0 = c[1]["args"][0]["pl"]["l"]
                        sorted_locals |= {l0} | v.alias_roots(l0)
            # concat elements: as_bytes of elements of that vector, indices 0..n-1
            elems = v.origins_of_operand(ct["args"][0], at=v.at_term(cb))
            idxs = set()
            from_sorted = True
            for b, t in v.calls_to(r"as std::ops::Index<usize>>::index$"):
                base = t["args"][0]
                if base["k"] in ("copy", "move"):
                    roots = {base["pl"]["l"]} | v.alias_roots(base["pl"]["l"])
                    if not (roots & sorted_locals):
                        from_sorted = False
                k = const_of(v, t["args"][1], v.at_term(b))
                if k is not None:
                    idxs.add(int(k))
                if not (b in v.reach_strict(sb)):
                    from_sorted = False
            ok = from_sorted and idxs == set(range(n)) and cb in v.reach_strict(sb) and must_pass_through(v, sb, [cb])
            det = "sort precedes concat: %s; concatenated elements indexed %s from the sorted vector: %s" % (cb in v.reach_strict(sb), sorted(idxs), from_sorted)
        ctx.ob("C19-R1", "%s|sorted-then-concatenated" % p, ok, det or "sort calls: %d, concat calls: %d" % (len(sorts), len(concats)), v.where())
        # comparator compares as_bytes of both sides
        for q in model.closures_of(p):
            cv = model.view(q)
            ab = cv.calls_to(r"AssetInfoRaw::as_bytes$")
            cm = cv.calls_to(r"as std::cmp::Ord>::cmp$")
            ctx.ob("C19-R1", "%s|comparator" % p, len(ab) == 2 and len(cm) == 1, "comparator: %d as_bytes, %d Ord::cmp" % (len(ab), len(cm)), cv.where())


REGISTRIES = {
    "terraswap_factory::state::PAIRS": {"pair_key", "TMP.pair_key", "range-cursor"},
    "terraswap_factory::state::TRIOS": {"trio_key", "TMP.trio_key", "range-cursor"},
    "vault_factory::state::VAULTS": {"get_reference", "TMP_VAULT_ASSET.key", "range-cursor"},
    "incentive_factory::state::INCENTIVE_MAPPINGS": {"to_raw", "range-cursor"},
}


def check_registry_keys(ctx, model):
    n = 0
    for item, allowed in REGISTRIES.items():
        crate = item.split("::")[0]
        for p in sorted(model.all_paths(crate)):
            if "::migrations::" in p:
                continue
            v = model.view(p)
            for b, t in v.iter_calls():
                sc = storage_call(t)
                if not sc or sc[0] not in ("Map",) or sc[1] not in ("save", "load", "may_load", "has", "remove", "update"):
                    continue
                items = resolve_items(model, v, v.storage_item_of_call(t, v.at_term(b)))
                if not any(o.kind == "item" and o.a == item for o in items):
                    continue
                n += 1
                ctx.fn_seen.add(p)
                k = key_class(model, v, arg_origins(v, b, t, 2))
                ctx.ob("C19-R2", "%s|%s|%s" % (item.split("::")[-1], p, sc[1]), bool(k) and k <= allowed,
                       "%s.%s keyed by %s (allowed: %s)" % (item.split("::")[-1], sc[1], sorted(k), sorted(allowed)), v.where(b))
    ctx.floor("C19-R2", "keyed registry accesses", n, 14)
    # TMP records are written from the key function
    for p, item, field, fn in (("%s::commands::create_pair" % F, "TMP_PAIR_INFO", "pair_key", "pair_key"), ("%s::commands::create_trio" % F, "TMP_TRIO_INFO", "trio_key", "trio_key")):
        v = ctx.view(p, "C19-R2")
        if v is None:
            continue
        for b, t in storage_calls(v, "%s::state::%s" % (F, item), ("save",)):
            os_ = v.origins_of_operand(t["args"][2], proj=(field,), at=v.at_term(b))
            ctx.ob("C19-R2", "%s|tmp-key" % p, bool(os_) and all(o.kind == "call" and o.a.endswith("::state::%s" % fn) for o in os_),
                   "%s.%s <- %s" % (item, field, sorted(map(repr, os_))), v.where(b))
    v = ctx.view("vault_factory::execute::create_vault::create_vault", "C19-R2")
    if v is not None:
        for b, t in storage_calls(v, "vault_factory::state::TMP_VAULT_ASSET", ("save",)):
            os_ = v.origins_of_operand(t["args"][2], proj=("0",), at=v.at_term(b))
            ctx.ob("C19-R2", "vault_factory|tmp-key", bool(os_) and all(o.kind == "call" and o.a.endswith("get_reference") for o in os_),
                   "TMP_VAULT_ASSET.0 <- %s" % sorted(map(repr, os_)), v.where(b))


def exists_edges(v, item):
    """Edges taken when the registry lookup finds an entry: (edges, lookup key origins)."""
    out = []
    for b, c, edges in switch_conds(v):
        if c.kind == "discr" and (c.enum or "").endswith("option::Option"):
            os_ = v.origins_of_place(c.pl, at=c.at)
            if os_ and all(o.kind == "load" and o.a == item for o in os_):
                inv = {n: val for val, n in c.variants.items()}
                t = v.blocks[b]["t"]
                some_t = [tgt for val, tgt in t["targets"] if val == inv.get("Some")] or [t["otherwise"]]
                out.append((b, [(b, x) for x in some_t]))
        elif c.kind == "call" and c.callee == "cw_storage_plus::Map::has":
            items = v.storage_item_of_call(c.term, v.at_term(c.block))
            if any(o.kind == "item" and o.a == item for o in items):
                te, fe = cmp_true_false_edges(v, b, c)
                out.append((b, fe if c.neg else te))
    # `REG.may_load(..)?.ok_or(NotFound)?`: the entry exists on the Continue edge of the second `?`
    with v.opaque(r"^std::option::Option::(ok_or|ok_or_else)$"):
        for b in sorted(v.live_blocks()):
            te_ = try_edges(v, b)
            if not te_:
                continue
            cont, brk, bblock, inner = te_
            for o in v.origins_of_operand(inner, at=v.at_term(bblock)):
                c_ = call_of(v, o)
                if c_ and re.search(r"Option::(ok_or|ok_or_else)$", mname(c_[1])):
                    src = v.origins_of_operand(c_[1]["args"][0], at=v.at_term(c_[0]))
                    if src and all(x.kind == "load" and x.a == item for x in src):
                        out.append((b, cont))
    return out


def check_duplicates(ctx, model):
    rows = [
        ("%s::commands::create_pair" % F, "%s::state::PAIRS" % F, "%s::state::TMP_PAIR_INFO" % F, 2),
        ("%s::commands::create_trio" % F, "%s::state::TRIOS" % F, "%s::state::TMP_TRIO_INFO" % F, 3),
        ("vault_factory::execute::create_vault::create_vault", "vault_factory::state::VAULTS", "vault_factory::state::TMP_VAULT_ASSET", 0),
        ("incentive_factory::execute::create_incentive::create_incentive", "incentive_factory::state::INCENTIVE_MAPPINGS", None, 0),
    ]
    for p, reg, tmp, nassets in rows:
        v = ctx.view(p, "C19-R3")
        if v is None:
            continue
        effects = [b for b, i, l, d in message_creations(v, model) if "Instantiate" in d or "SubMsg" in d]
        if tmp:
            effects += [b for b, t in storage_calls(v, tmp, ("save",))]
        ex = exists_edges(v, reg)
        if not ex:
            ctx.ob("C19-R3", "%s|duplicate-guard" % p, False, "no lookup of %s found" % reg.split("::")[-1], v.where())
            continue
        leak = []
        for b, edges in ex:
            for (_, tgt) in edges:
                r = v.reachable(tgt)
                leak += [e for e in effects if e in r]
        # and every effect comes after the lookup itself
        looks = [b for b, t in storage_calls(v, reg, ("may_load", "load", "has"))]
        guarded = bool(looks) and all(any(must_pass_through(v, lb, [e]) for lb in looks) for e in effects)
        ctx.ob("C19-R3", "%s|duplicate-guard" % p, bool(effects) and not leak and guarded,
               "'entry exists' edge reaches TMP write / Instantiate: %s; every effect comes after the registry lookup: %s (%d effects)" % (sorted(set(leak)), guarded, len(effects)), v.where())
        if nassets:
            pairs = set()
            for b, c, _ in switch_conds(v):
                if c.kind == "cmp" and c.op in ("==", "!="):
                    ia = _idx(v, c.a, cond_at(v, c))
                    ib = _idx(v, c.b, cond_at(v, c))
                    if ia is not None and ib is not None and ia != ib:
                        te, fe = cmp_true_false_edges(v, b, c)
                        eq = te if c.op == "==" else fe
                        r = set()
                        for (_, tgt) in eq:
                            r |= v.reachable(tgt)
                        if not (r & set(effects)):
                            pairs.add(tuple(sorted((ia, ib))))
            want = {(i, j) for i in range(nassets) for j in range(i + 1, nassets)}
            ctx.ob("C19-R3", "%s|same-asset-rejected" % p, pairs == want, "identical assets rejected for index pairs %s (need %s)" % (sorted(pairs), sorted(want)), v.where())


def v_edges_other(v, b, edges):
    """All edges out of b other than `edges` (i.e. the 'not found' side) -- cutting them leaves only the found side."""
    return [(b, tgt) for _, tgt in v.edges_from(b) if (b, tgt) not in edges]


def _idx(v, operand, at):
    """Constant array index an operand is taken at (asset_infos[i])."""
    if operand["k"] not in ("copy", "move"):
        return None
    seen = set()
    work = [operand["pl"]]
    while work:
        pl = work.pop()
        for e in pl["p"]:
            if isinstance(e, dict) and "i" in e:
                k = const_of(v, {"k": "copy", "pl": {"l": e["i"], "p": []}}, at)
                if k is not None:
                    return int(k)
            if isinstance(e, dict) and "ci" in e:
                return int(e["ci"])
        if pl["l"] in seen:
            continue
        seen.add(pl["l"])
        for d in v.defs().get(pl["l"], []):
            if d[0] == "s":
                rv = d[3]["rv"]
                if rv["r"] == "ref":
                    work.append(rv["pl"])
                elif rv["r"] in ("use", "cast") and rv["op"]["k"] in ("copy", "move"):
                    work.append(rv["op"]["pl"])
    return None


def check_reply_ids(ctx, model):
    rows = [
        (F, ["%s::commands::create_pair" % F, "%s::commands::create_trio" % F], {"Success"}),
        ("vault_factory", ["vault_factory::execute::create_vault::create_vault"], {"Success"}),
        ("incentive_factory", ["incentive_factory::execute::create_incentive::create_incentive"], {"Always", "Success"}),
    ]
    for crate, creators, allowed_reply in rows:
        rp = "%s::contract::reply" % crate
        if not model.has(rp) and model.has("%s::reply::reply" % crate):
            rp = "%s::reply::reply" % crate
        rv = ctx.view(rp, "C19-R4")
        if rv is None:
            continue
        # ids dispatched in reply: constants compared with msg.id
        disp = set()
        for b, c, _ in switch_conds(rv):
            if c.kind == "cmp":
                at = cond_at(rv, c)
                for side in (c.a, c.b):
                    k = const_of(rv, side, at)
                    if k is not None:
                        disp.add(int(k))
        for b in sorted(rv.live_blocks()):
            t = rv.blocks[b]["t"]
            if t["k"] == "switch":
                os_ = rv.origins_of_operand(t["discr"], at=rv.at_term(b))
                if os_ and all(o.kind == "param" and tuple(o.proj) == ("id",) for o in os_):
                    disp |= {int(val) for val, _ in t["targets"]}
        for p in creators:
            v = ctx.view(p, "C19-R4")
            if v is None:
                continue
            for b, i, s in v.iter_stmts():
                r = s["rv"]
                if r["r"] == "agg" and r.get("adt") == "cosmwasm_std::SubMsg":
                    f = dict(zip(r["fields"], r["ops"]))
                    k = const_of(v, f["id"], (b, i))
                    ro = {o.a.split("::")[-1] for o in v.origins_of_operand(f["reply_on"], at=(b, i)) if o.kind == "agg"}
                    ctx.ob("C19-R4", "%s|submsg-id-dispatched" % p, k is not None and int(k) in disp and ro <= allowed_reply and bool(ro),
                           "SubMsg id %s, reply_on %s; ids handled by %s: %s" % (k, sorted(ro), rp, sorted(disp)), v.where(b))
    # incentive factory replies Always: the error must become Err
    p = "incentive_factory::reply::create_incentive_reply::create_incentive_reply"
    v = ctx.view(p, "C19-R4")
    if v is not None:
        spec = HelperGuard("msg.result.into_result()?", r"SubMsgResult::into_result$")
        saves = storage_calls(v, "incentive_factory::state::INCENTIVE_MAPPINGS", ("save",))
        ok = bool(saves) and all(site_guarded(model, (), p, b, spec)[0] for b, _ in saves)
        ctx.ob("C19-R4", "%s|error-propagated" % p, ok, "registry write dominated by the success edge of into_result()?: %s" % ok, v.where())


def check_registry_truth(ctx, model):
    for kind, creator, reply, tmp, reg, inst, fields in (
        ("pair", "%s::commands::create_pair" % F, "%s::contract::create_pair_reply" % F, "TMP_PAIR_INFO", "PAIRS", "pair::InstantiateMsg", ("asset_infos", "asset_decimals", "pair_type")),
        ("trio", "%s::commands::create_trio" % F, "%s::contract::create_trio_reply" % F, "TMP_TRIO_INFO", "TRIOS", "trio::InstantiateMsg", ("asset_infos", "asset_decimals")),
    ):
        v = ctx.view(creator, "C19-R5")
        if v is not None:
            tmpv = instv = None
            for b, i, s in v.iter_stmts():
                r = s["rv"]
                if r["r"] == "agg" and r.get("adt", "").endswith("::state::Tmp%sInfo" % kind.capitalize()):
                    tmpv = (b, i, dict(zip(r["fields"], r["ops"])))
                if r["r"] == "agg" and r.get("adt", "").endswith(inst):
                    instv = (b, i, dict(zip(r["fields"], r["ops"])))
            if not tmpv or not instv:
                ctx.missing("C19-R5", "Tmp record / InstantiateMsg aggregates in %s" % creator)
            else:
                for f in fields:
                    a = v.origins_of_operand(tmpv[2][f], at=(tmpv[0], tmpv[1]), taint=True)
                    b_ = v.origins_of_operand(instv[2][f], at=(instv[0], instv[1]), taint=True)
                    roots = lambda os_: {(o.kind, o.a) for o in os_ if o.kind == "param" and "Deps" not in v.local_ty(o.a) and "Env" not in v.local_ty(o.a)} | {
                        (o.kind, o.a) for o in os_ if o.kind == "call" and o.a.endswith("query_decimals")}
                    ctx.ob("C19-R5", "%s|tmp==instantiate|%s" % (creator, f), bool(roots(a)) and roots(a) == roots(b_),
                           "Tmp.%s from %s ; InstantiateMsg.%s from %s" % (f, sorted(roots(a)), f, sorted(roots(b_))), v.where(tmpv[0]))
        rv = ctx.view(reply, "C19-R5")
        if rv is not None:
            for b, t in storage_calls(rv, "%s::state::%s" % (F, reg), ("save",)):
                val = t["args"][3]
                for f in fields:
                    os_ = rv.origins_of_operand(val, proj=(f,), at=rv.at_term(b))
                    ctx.ob("C19-R5", "%s|stored|%s" % (reply, f), bool(os_) and all(o.kind == "load" and o.a.endswith(tmp) and tuple(o.proj) == (f,) for o in os_),
                           "%s.%s <- %s" % (reg, f, sorted(map(repr, os_))), rv.where(b))
                ca = rv.origins_of_operand(val, proj=("contract_addr",), at=rv.at_term(b), taint=True)
                lt = rv.origins_of_operand(val, proj=("liquidity_token",), at=rv.at_term(b), taint=True)
                ok_ca = any(o.kind == "call" and o.a.endswith("parse_from_bytes") for o in ca)
                ok_lt = any(o.kind == "call" and re.search(r"query_(pair|trio)_info_from_(pair|trio)$", o.a) for o in lt)
                ctx.ob("C19-R5", "%s|stored|address-and-lp" % reply, ok_ca and ok_lt,
                       "contract_addr from the instantiate response: %s; liquidity_token from the child's own query: %s" % (ok_ca, ok_lt), rv.where(b))
                # the child queried is the one just instantiated
                for qb, qt in rv.calls_to(r"query_(pair|trio)_info_from_(pair|trio)$"):
                    qa = arg_origins(rv, qb, qt, 1, taint=True)
                    ctx.ob("C19-R5", "%s|queries-the-new-child" % reply, any(o.kind == "call" and o.a.endswith("parse_from_bytes") for o in qa),
                           "child info queried at %s" % sorted(map(repr, qa))[:3], rv.where(qb))
    # vault
    v = ctx.view("vault_factory::execute::create_vault::create_vault", "C19-R5")
    if v is not None:
        a = b_ = None
        for b, i, s in v.iter_stmts():
            r = s["rv"]
            if r["r"] == "agg" and r.get("adt", "").endswith("vault::InstantiateMsg"):
                b_ = v.origins_of_operand(dict(zip(r["fields"], r["ops"]))["asset_info"], at=(b, i))
        for sb, t in storage_calls(v, "vault_factory::state::TMP_VAULT_ASSET", ("save",)):
            a = v.origins_of_operand(t["args"][2], proj=("1",), at=v.at_term(sb))
        ctx.ob("C19-R5", "vault_factory|tmp==instantiate|asset_info", bool(a) and a == b_, "TMP asset %s ; InstantiateMsg.asset_info %s" % (sorted(map(repr, a or [])), sorted(map(repr, b_ or []))), v.where())
    rv = ctx.view("vault_factory::reply::vault_instantiate::vault_instantiate", "C19-R5")
    if rv is not None:
        for b, t in storage_calls(rv, "vault_factory::state::VAULTS", ("save",)):
            addr = rv.origins_of_operand(t["args"][3], proj=("0",), at=rv.at_term(b), taint=True)
            asset = rv.origins_of_operand(t["args"][3], proj=("1",), at=rv.at_term(b))
            ctx.ob("C19-R5", "vault_factory|stored", any(o.kind == "call" and o.a.endswith("parse_from_bytes") for o in addr) and bool(asset) and all(
                o.kind == "load" and o.a.endswith("TMP_VAULT_ASSET") for o in asset), "VAULTS value: address from the response, asset from TMP_VAULT_ASSET", rv.where(b))
    rv = ctx.view("incentive_factory::reply::create_incentive_reply::create_incentive_reply", "C19-R5")
    if rv is not None:
        for b, t in storage_calls(rv, "incentive_factory::state::INCENTIVE_MAPPINGS", ("save",)):
            key = arg_origins(rv, b, t, 2, taint=True)
            val = arg_origins(rv, b, t, 3, taint=True)
            ctx.ob("C19-R5", "incentive_factory|stored", any(o.kind == "call" and o.a.endswith("from_json") and "lp_asset" in o.proj for o in key) and any(
                o.kind == "call" and o.a.endswith("parse_from_bytes") for o in val),
                "INCENTIVE_MAPPINGS[lp_asset echoed by the child] = address from the instantiate response", rv.where(b))


def check_remove(ctx, model):
    for p, reg in (("%s::commands::remove_pair" % F, "%s::state::PAIRS" % F), ("%s::commands::remove_trio" % F, "%s::state::TRIOS" % F),
                   ("vault_factory::execute::remove_vault::remove_vault", "vault_factory::state::VAULTS")):
        v = ctx.view(p, "C19-R6")
        if v is None:
            continue
        rem = storage_calls(v, reg, ("remove",))
        looks = storage_calls(v, reg, ("may_load", "load", "has"))
        if not rem or not looks:
            ctx.ob("C19-R6", "%s|lookup-then-remove" % p, False, "remove sites: %d, lookup sites: %d" % (len(rem), len(looks)), v.where())
            continue
        rk = arg_origins(v, rem[0][0], rem[0][1], 2)
        lk = arg_origins(v, looks[0][0], looks[0][1], 2)
        ex = exists_edges(v, reg)
        # the 'no such entry' side of the lookup must not reach the remove
        guarded = bool(ex)
        for xb, edges in ex:
            for (_, tgt) in v_edges_other(v, xb, edges):
                if set(rb for rb, _ in rem) & v.reachable(tgt, cut_edges=edges):
                    # only count genuine 'None' edges: edges of the same switch other than Some
                    guarded = False
        if not ex:
            # load(..)? form: the Continue edge of the load dominates
            spec = HelperGuard("load?", r"^cw_storage_plus::Map::load$")
            guarded = all(site_guarded(model, (), p, rb, spec)[0] for rb, _ in rem)
        same_key = bool(rk) and {(o.kind, o.a, o.proj) for o in rk} == {(o.kind, o.a, o.proj) for o in lk}
        if same_key:
            # same key function applied to the same argument
            def arg_of(os_):
                out = set()
                for o in os_:
                    c = call_of(v, o)
                    if c and c[1]["args"]:
                        out |= {(x.kind, x.a, x.proj) for x in v.origins_of_operand(c[1]["args"][0], at=v.at_term(c[0]))}
                return out
            same_key = arg_of(rk) == arg_of(lk)
        ctx.ob("C19-R6", "%s|lookup-then-remove" % p, same_key and guarded,
               "removes key %s after looking up %s; remove only on the 'exists' side: %s" % (sorted(map(repr, rk)), sorted(map(repr, lk)), guarded), v.where(rem[0][0]))
    # no other remover
    n = 0
    for reg in ("%s::state::PAIRS" % F, "%s::state::TRIOS" % F, "vault_factory::state::VAULTS", "incentive_factory::state::INCENTIVE_MAPPINGS"):
        crate = reg.split("::")[0]
        for p in model.all_paths(crate):
            for e in fn_effects(model, p):
                if e.kind == "write" and e.what == reg:
                    n += 1
                    ok = bool(re.search(r"(remove_(pair|trio|vault)|create_(pair|trio)_reply|vault_instantiate|create_incentive_reply|::migrations::)", p))
                    ctx.ob("C19-R6", "writer|%s|%s" % (reg.split("::")[-1], p.split("::{closure")[0]), ok, "%s written (%s) by %s" % (reg.split("::")[-1], e.extra, p), model.view(p).where(e.block))
    ctx.floor("C19-R6", "registry write sites", n, 6)


def check_router(ctx, model):
    p = "terraswap_router::contract::add_swap_routes"
    v = ctx.view(p, "C19-R7")
    if v is not None:
        spec = HelperGuard("simulate_swap_operations(..)?", r"^terraswap_router::contract::simulate_swap_operations$")
        # the per-route body is the handler's loop or the closure of `.map(..).collect()`: wherever the save is
        from .common import scope_views, scope_origins
        n_saves = 0
        ok = True
        same = True
        for sv, ch in scope_views(model, p):
            saves = [(b, t) for b, t in sv.iter_calls() if storage_call(t) and storage_call(t)[1] == "save"]
            if not saves:
                continue
            n_saves += len(saves)
            ok = ok and all(site_guarded(model, ch, sv.path, b, spec)[0] for b, _ in saves)
            sims = sv.calls_to(r"^terraswap_router::contract::simulate_swap_operations$")
            same = same and bool(sims)
            for b, t in sims:
                ops = scope_origins(model, ch, sv, t["args"][2], sv.at_term(b))
                for sb, st in saves:
                    val = scope_origins(model, ch, sv, st["args"][2], sv.at_term(sb))
                    same = same and bool(ops) and {(o.kind, o.a, o.b) for o in ops} == {(o.kind, o.a, o.b) for o in val}
        ok = ok and n_saves > 0
        ctx.ob("C19-R7", "%s|route-simulated-before-stored" % p, ok and same,
               "route save dominated by a successful simulation: %s; the simulated operations are the stored ones: %s" % (ok, same), v.where())
    for q in ("terraswap_router::operations::execute_swap_operation", "terraswap_router::contract::simulate_swap_operations", "terraswap_router::contract::reverse_simulate_return_amount"):
        w = ctx.view(q, "C19-R7")
        if w is None:
            continue
        n = 0
        from .common import scope_calls, scope_origins
        for w_, chain_, b, t in scope_calls(model, q, r"querier::query_pair_info$"):
            n += 1
            fac = scope_origins(model, chain_, w_, t["args"][1], w_.at_term(b), taint=True)
            if fac and all(o.kind == "param" for o in fac):
                # helper: resolve the parameter at every call site
                res = set()
                for (cp, cb, ck) in model.callers().get(q, []):
                    if ck != "call":
                        continue
                    cv = model.view(cp)
                    ct = cv.blocks[cb]["t"]
                    for o in fac:
                        if o.a - 1 < len(ct["args"]):
                            res |= cv.origins_of_operand(ct["args"][o.a - 1], at=cv.at_term(cb), taint=True)
                fac = res
            ctx.ob("C19-R7", "%s|pair-from-configured-factory#%d" % (q, n), any(o.kind == "load" and o.a.endswith("::state::CONFIG") and tuple(o.proj) == ("terraswap_factory",) for o in fac),
                   "pair resolved through factory %s" % sorted(map(repr, fac))[:3], w.where(b))
        ctx.floor("C19-R7", "query_pair_info call sites in %s" % q.split("::")[-1], n, 1)
        # pair address used for the hop comes from that query
        for w_, chain_, b, t in scope_calls(model, q, r"operations::asset_into_swap_msg$|querier::simulate$|querier::reverse_simulate$"):
            nme = mname(t)
            pa = scope_origins(model, chain_, w_, t["args"][1], w_.at_term(b), taint=True)
            ctx.ob("C19-R7", "%s|hop-address|%s" % (q, nme.split("::")[-1]), any(o.kind == "call" and o.a.endswith("querier::query_pair_info") for o in pa),
                   "hop executed/simulated at %s" % sorted(map(repr, pa))[:3], w_.where(b))


CURSOR_FNS = ["terraswap_factory::state::calc_range_start", "terraswap_factory::state::trio_calc_range_start",
              "vault_factory::state::calc_range_start", "incentive_factory::queries::get_incentives::calc_range_start"]


def check_cursor_successor(ctx, model):
    """R8: a listing resumes at Bound::ExclusiveRaw(cursor || k). Every stored key that extends the cursor by a byte
    below k is skipped, so k must lie below every byte an asset label can contain: labels are bech32 addresses and
    bank denoms, printable ASCII above 0x20, hence k <= 0x20 (the code uses 1). The byte is appended to the cursor
    bytes themselves and that vector is what the function returns."""
    from .common import scope_views, vec_additions
    for p in CURSOR_FNS:
        if p not in model.fnsrc:
            ctx.missing("C19-R8", "cursor function %s" % p)
            continue
        ctx.view(p, "C19-R8")
        # the body that appends the successor byte: the function itself or the closure it maps over `start_after`
        bodies = [(sv, vec_additions(sv, r"Vec<u8>")) for sv, ch in scope_views(model, p, depth=1)]
        bodies = [(sv, adds) for sv, adds in bodies if adds]
        if len(bodies) != 1:
            ctx.missing("C19-R8", "the append of the successor byte in %s" % p)
            continue
        cv, adds = bodies[0]
        ks, recv = [], []
        for ab, at_, elem, how, at in adds:
            k = const_of(cv, elem, at)
            if k is None:
                es = cv.origins_of_operand(elem, at=at)      # `extend_from_slice(&[1u8])`: a one-element literal
                vals = {o.a for o in es if o.kind == "const"}
                if es and len(vals) == 1 and all(o.kind == "const" for o in es) and str(next(iter(vals))).isdigit():
                    k = int(next(iter(vals)))
            ks.append(k)
            recv.append(cv.origins_of_operand(at_["args"][0], at=cv.at_term(ab)) if at_ else set())
        ret = [x for x in cv.origins_of_place({"l": 0, "p": []}) if x.kind != "err"]
        same = len(adds) == 1 and bool(ret) and set(ret) == set(recv[0])
        ok = len(adds) == 1 and ks[0] is not None and 0 <= ks[0] <= 0x20 and same
        ctx.ob("C19-R8", "%s|successor-byte" % p, ok,
               "cursor successor appends %s to %s and returns %s (one constant byte <= 0x20 appended to the returned cursor)" % (
                   [str(k) for k in ks], [sorted(map(repr, r)) for r in recv], sorted(map(repr, ret))), cv.where())
        # the cursor is used as the exclusive lower bound of an ascending range
        users = [q for q in model.fnsrc if not q.startswith(p) and any(c == p for _, c, _ in model.callees(q))]
        if not users:
            ctx.missing("C19-R8", "caller of %s" % p)
        for q in users:
            uv = model.view(q)
            excl = any("Bound::ExclusiveRaw" in c for _, c, _ in model.callees(q)) or any(
                s_["rv"]["r"] == "agg" and s_["rv"].get("variant") == "ExclusiveRaw" for _, _, s_ in uv.iter_stmts())
            incl = any("Bound::InclusiveRaw" in c or "Bound::Inclusive" in c for _, c, _ in model.callees(q))
            ctx.ob("C19-R8", "%s|exclusive-bound" % q, excl and not incl, "cursor of %s wrapped in Bound::ExclusiveRaw: %s" % (p.split("::")[-1], excl), uv.where())


def check_simulation_visits_every_hop(ctx, model):
    """R7 (completeness of the validation): add_swap_routes accepts a route when simulate_swap_operations succeeds, and the
    per-hop factory lookup lives inside that function's loop -- so the loop must visit EVERY operation: its only exits are the
    iterator running out and an error. An early `break` (say, once the running amount is zero) leaves later hops unchecked."""
    p = "terraswap_router::contract::simulate_swap_operations"
    v = ctx.view(p, "C19-R7")
    if v is None:
        return
    nexts = v.calls_to(r"as std::iter::Iterator>::next$")
    oks = set(ok_value_blocks(v))
    if not nexts and oks:
        # the loop written as a fold / for_each over the operations: these visit every element, and a closure returning a
        # Result stops them early only with an error
        from .common import scope_calls
        folds = v.calls_to(r"as std::iter::Iterator>::(try_fold|fold|try_for_each|for_each)$")
        inner = [1 for sv, chain, b, t in scope_calls(model, p, r"querier::query_pair_info$") if chain]
        if folds and inner:
            early = [b for b, t in folds if "ControlFlow" in (t.get("callee_full") or "")]
            ctx.ob("C19-R7", "%s|every-hop-visited" % p, not early,
                   "operations are folded over (%s); a fold visits every element unless its closure breaks with success: %s" % (
                       [mname(t).split("::")[-1] for b, t in folds], "ControlFlow in use" if early else "closure returns a Result"), v.where(folds[0][0]))
            return
    if not nexts or not oks:
        ctx.missing("C19-R7", "operation loop / Ok return of %s" % p)
        return
    # edges taken when the iterator is exhausted: the None arm of the switch on next()'s result
    none_edges, body_starts = [], []
    with v.opaque(r"Iterator>::next$"):
        for b, c, _ in switch_conds(v):
            if c.kind == "discr" and (c.enum or "").endswith("option::Option"):
                os_ = v.origins_of_place(c.pl, at=c.at)
                if os_ and all(o.kind == "call" and o.a.endswith("Iterator>::next") for o in os_):
                    inv = {name: val for val, name in c.variants.items()}
                    t = v.blocks[b]["t"]
                    explicit = {val: tgt for val, tgt in t["targets"]}
                    ne = (b, explicit.get(inv.get("None"), t["otherwise"]))
                    none_edges.append(ne)
                    body_starts += [tgt for _, tgt in v.edges_from(b) if (b, tgt) != ne]
    leak = set()
    for bs in body_starts:
        leak |= v.reachable(bs, cut_edges=none_edges) & oks
    ctx.ob("C19-R7", "%s|every-hop-visited" % p, bool(none_edges) and not leak,
           "Ok return reachable from the loop body without the iterator running out: %s" % (sorted(leak) or "no"), v.where())


def run(ctx):
    model = ctx.model()
    check_simulation_visits_every_hop(ctx, model)
    check_key_fns(ctx, model)
    check_cursor_successor(ctx, model)
    check_registry_keys(ctx, model)
    check_duplicates(ctx, model)
    check_reply_ids(ctx, model)
    check_registry_truth(ctx, model)
    check_remove(ctx, model)
    check_router(ctx, model)
