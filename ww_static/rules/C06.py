"""C06 -- flash loans are repaid with all fees or the whole transaction reverts."""
import re
from fractions import Fraction
from ..facts import mname, term_callee
from ..mir import switch_conds, cmp_true_false_edges, storage_call
from ..dataflow import (two_var_table, call_of, cond_at, message_creations, forward_flow, single_var_guard,
                        single_var_regions, single_var_walk, const_of)
from ..guards import EqGuard, site_guarded, is_sender, is_self_addr, resolve
from .common import storage_calls, arg_origins, ok_value_blocks, must_pass_through, vec_additions
from .C12 import check_messages_attached

EXPLANATION = """
X1: vault `callback` reaches after_trade only through sender == env.contract.address. X2: in flash_loan the pushes onto
the message vector are ordered by dominance: [cw20 loan transfer to the borrower] -> borrower's message (contract =
sender, msg = the caller's payload, native funds = the loan) -> Callback(AfterTrade{old_balance, loan_amount}), and no
push follows the callback; old_balance comes from the balance query of this call, loan_amount is the requested
amount; LOAN_COUNTER is incremented (checked_add 1) before any message is built. X3: after_trade's success part is
reachable exactly when required <= new balance, where `required` is recognised as checked_add chain over old_balance
and the three Fee::compute(loan_amount) values of CONFIG.fees. X4: LOAN_COUNTER is decremented on every success path
of after_trade; in deposit no mint message is reachable unless LOAN_COUNTER == 0. X5: get_payback_amount computes the
same three fees on the same fee fields and returns amount + their sum. X6 (vault router): next_loan requires sender ==
source_vault AND factory.Vault(asset) == source_vault; complete_loan pays payback_amount (from the vault's own quote)
to the vault and balance - payback to the initiator, an underflow being an error; all messages are attached.
Nested-loan fee accounting is not decided (declined in DESIGN.md).
X6 also covers the state the router threads through its callbacks: the NextLoan it starts names info.sender as
initiator, and every NextLoan / CompleteLoan built by next_loan carries the initiator and the loaned_assets of the NextLoan
being handled (resolved to the request's field names at the dispatch site).
"""
ASSUMPTIONS = [
    "messages attached to a Response are executed in order and any failure reverts the whole transaction (CosmWasm)",
    "Fee::compute(amount) = floor(amount * share) (decided numerically elsewhere; here only which fee is applied to which amount)",
]

FLASH = "vault::execute::flash_loan::flash_loan"
AFTER = "vault::execute::callback::after_trade::after_trade"
CALLBACK = "vault::execute::callback::callback"
DEPOSIT = "vault::execute::deposit::deposit"
PAYBACK = "vault::queries::get_payback_amount::get_payback_amount"
NEXT = "vault_router::execute::next_loan::next_loan"
COMPLETE = "vault_router::execute::complete_loan::complete_loan"
FLASH_R = "vault_router::execute::flash_loan::flash_loan"


def pidx(v, suffix):
    for i in range(1, v.argc + 1):
        if v.local_ty(i).replace("&", "").strip().endswith(suffix):
            return i
    return None


def fee_fields(v, os_, amount_pred):
    """Set of CONFIG.fees.<field> whose Fee::compute(amount) results the tainted origin set contains."""
    out = set()
    for o in os_:
        c = call_of(v, o)
        if c and mname(c[1]).endswith("fee::Fee::compute"):
            recv = v.origins_of_operand(c[1]["args"][0], at=v.at_term(c[0]))
            amt = v.origins_of_operand(c[1]["args"][1], at=v.at_term(c[0]))
            if recv and all(x.kind == "load" and x.a.endswith("vault::state::CONFIG") and len(x.proj) == 2 and x.proj[0] == "fees" for x in recv) and amount_pred(amt):
                out |= {x.proj[1] for x in recv}
    return out


def check_flash_loan(ctx, model):
    v = ctx.view(FLASH, "C06-X2")
    if v is None:
        return
    info = pidx(v, "cosmwasm_std::MessageInfo")
    env = pidx(v, "cosmwasm_std::Env")
    amount = pidx(v, "cosmwasm_std::Uint128")
    payload = pidx(v, "cosmwasm_std::Binary")
    pushes = []
    for b, t, elem, how, at_ in vec_additions(v, r"CosmosMsg"):
        os_ = v.origins_of_operand(elem, at=at_)
        kind = None
        for o in os_:
            if o.kind != "agg" or not o.a.endswith("WasmMsg::Execute"):
                continue
            fn, bb = o.b.rsplit(":bb", 1)
            for s in v.blocks[int(bb)]["s"]:
                rv = s["rv"]
                if rv["r"] == "agg" and rv.get("adt") == "cosmwasm_std::WasmMsg" and rv.get("variant") == "Execute":
                    f = dict(zip(rv["fields"], rv["ops"]))
                    i = v.blocks[int(bb)]["s"].index(s)
                    to = v.origins_of_operand(f["contract_addr"], at=(int(bb), i))
                    msg = v.origins_of_operand(f["msg"], at=(int(bb), i), taint=True)
                    funds = v.origins_of_operand(f["funds"], at=(int(bb), i), taint=True)
                    if to and all(x.kind == "param" and x.a == env and tuple(x.proj) == ("contract", "address") for x in to) and any(
                            x.kind == "agg" and x.a.endswith("ExecuteMsg::Callback") for x in msg):
                        kind = ("callback", msg)
                    elif to and all(x.kind == "param" and x.a == info and tuple(x.proj) == ("sender",) for x in to) and any(
                            x.kind == "param" and x.a == payload for x in msg):
                        kind = ("borrower", funds)
                    elif any(x.kind == "agg" and x.a.endswith("Cw20ExecuteMsg::Transfer") for x in msg):
                        kind = ("loan-transfer", msg)
                        # the cw20 loan goes to the borrower and carries the requested amount
                        for bb2, i2, s2 in v.iter_stmts():
                            r2 = s2["rv"]
                            if r2["r"] == "agg" and r2.get("adt") == "cw20::Cw20ExecuteMsg" and r2.get("variant") == "Transfer":
                                f2 = dict(zip(r2["fields"], r2["ops"]))
                                rc_ = v.origins_of_operand(f2["recipient"], at=(bb2, i2))
                                am_ = v.origins_of_operand(f2["amount"], at=(bb2, i2))
                                okt = bool(rc_) and all(x.kind == "param" and x.a == info and tuple(x.proj) == ("sender",) for x in rc_) and bool(am_) and all(
                                    x.kind == "param" and x.a == amount and not x.proj for x in am_)
                                ctx.ob("C06-X2", "%s|cw20-loan-transfer-fields" % FLASH, okt,
                                       "cw20 loan Transfer{recipient: %s, amount: %s} (must be the borrower and the requested amount)" % (sorted(map(repr, rc_)), sorted(map(repr, am_))), v.where(bb2))
        pushes.append((b, kind))
    kinds = {k[0]: b for b, k in pushes if k}
    ctx.ob("C06-X2", "%s|messages-present" % FLASH, {"callback", "borrower", "loan-transfer"} <= set(kinds) and all(k for _, k in pushes),
           "pushed messages: %s" % [(b, k[0] if k else "UNRECOGNISED") for b, k in pushes], v.where())
    if {"callback", "borrower"} <= set(kinds):
        cb, bo = kinds["callback"], kinds["borrower"]
        order = cb in v.reach_strict(bo) and must_pass_through(v, bo, [cb])
        lt = kinds.get("loan-transfer")
        order_lt = lt is None or (bo in v.reach_strict(lt))
        later = [b for b, k in pushes if b != cb and b in v.reach_strict(cb)]
        ctx.ob("C06-X2", "%s|order" % FLASH, order and order_lt and not later,
               "borrower message always precedes the AfterTrade callback: %s; cw20 loan transfer precedes the borrower message: %s; pushes after the callback: %s"
               % (order, order_lt, later), v.where(cb))
        # borrower funds carry the loan for native assets
        for b, k in pushes:
            if k and k[0] == "borrower":
                ctx.ob("C06-X2", "%s|borrower-funds" % FLASH, any(x.kind == "param" and x.a == amount for x in k[1]),
                       "borrower message funds derive from %s (must include the loan amount for native vaults)" % sorted(map(repr, k[1]))[:5], v.where(b))
    # AfterTrade fields
    for b, i, s in v.iter_stmts():
        rv = s["rv"]
        if rv["r"] == "agg" and rv.get("adt", "").endswith("vault::CallbackMsg") and rv.get("variant") == "AfterTrade":
            f = dict(zip(rv["fields"], rv["ops"]))
            ob_ = v.origins_of_operand(f["old_balance"], at=(b, i))
            la = v.origins_of_operand(f["loan_amount"], at=(b, i))
            ok_ob = bool(ob_) and all(x.kind == "call" and (x.a.endswith("query_balance") or x.a.endswith("query_wasm_smart")) for x in ob_)
            ok_la = bool(la) and all(x.kind == "param" and x.a == amount and not x.proj for x in la)
            ctx.ob("C06-X2", "%s|after-trade-fields" % FLASH, ok_ob and ok_la,
                   "AfterTrade{old_balance: %s, loan_amount: %s}" % (sorted(map(repr, ob_)), sorted(map(repr, la))), v.where(b))
    # loan counter incremented before any message
    ups = storage_calls(v, "vault::state::LOAN_COUNTER", ("update",))
    inc = False
    for b, t in ups:
        for o in v.origins_of_operand(t["args"][2], at=v.at_term(b)):
            if o.kind == "closure" and o.a in model.fnsrc:
                cv = model.view(o.a)
                for xb, xt in cv.iter_calls():
                    if mname(xt).endswith("checked_add") and const_of(cv, xt["args"][1], cv.at_term(xb)) == 1:
                        inc = True
    first = all(must_pass_through(v, ub, [pb for pb, _ in pushes]) for ub, _ in ups) and bool(ups)
    # every successful return of flash_loan has scheduled the AfterTrade callback (which is what decrements the counter
    # and enforces repayment): no early `return Ok` between the increment and the callback push
    if "callback" in kinds:
        oks = ok_value_blocks(v)
        paired = bool(oks) and must_pass_through(v, kinds["callback"], oks)
        ctx.ob("C06-X4", "%s|every-success-schedules-after-trade" % FLASH, paired,
               "the AfterTrade callback push lies on every path to a successful return: %s" % paired, v.where(kinds["callback"]))
    ctx.ob("C06-X4", "%s|counter-incremented-first" % FLASH, inc and first,
           "LOAN_COUNTER.update adds 1: %s; precedes every message push: %s" % (inc, first), v.where())
    check_messages_attached(ctx, model, FLASH, rule="C06-X2")


def check_callback(ctx, model):
    v = ctx.view(CALLBACK, "C06-X1")
    if v is None:
        return
    spec = EqGuard("sender==env.contract.address", is_sender(model), is_self_addr(model))
    calls = v.calls_to(r"^vault::execute::callback::after_trade::after_trade$")
    if not calls:
        ctx.missing("C06-X1", "call of after_trade in callback")
    for b, t in calls:
        ok, why = site_guarded(model, (), CALLBACK, b, spec)
        ctx.ob("C06-X1", "%s|self-only" % CALLBACK, ok, why or "after_trade reachable without sender == contract", v.where(b))
        ob_ = arg_origins(v, b, t, 2)
        la = arg_origins(v, b, t, 3)
        ctx.ob("C06-X1", "%s|passes-fields" % CALLBACK, bool(ob_) and all(tuple(o.proj[-1:]) == ("old_balance",) for o in ob_) and bool(la) and all(
            tuple(o.proj[-1:]) == ("loan_amount",) for o in la), "after_trade(old_balance=%s, loan_amount=%s)" % (sorted(map(repr, ob_)), sorted(map(repr, la))), v.where(b))


def check_after_trade(ctx, model):
    v = ctx.view(AFTER, "C06-X3")
    if v is None:
        return
    oks = ok_value_blocks(v)
    loan = lambda os_: bool(os_) and all(o.kind == "param" and o.a == 4 for o in os_)
    new_bal = lambda os_: bool(os_) and all(o.kind == "call" and (o.a.endswith("query_balance") or o.a.endswith("query_wasm_smart")) for o in os_)
    req_blocks = []

    def required(os_):
        if not (os_ and all(o.kind == "call" and o.a.endswith("Uint128::checked_add") for o in os_)):
            return False
        return True
    succ_targets = [b for b, t in v.calls_to(r"^vault::state::store_fee$")] + oks
    tab, n, blocks = two_var_table(v, required, new_bal, succ_targets)
    exp = {"<": True, "=": True, ">": False}
    ctx.ob("C06-X3", "%s|required<=balance" % AFTER, n > 0 and tab == exp,
           "fee bookkeeping / success reachable for required vs new balance: %s; documented %s" % (tab, exp), v.where())
    # composition of `required`
    for b, c, _ in switch_conds(v):
        if c.kind == "cmp":
            at = cond_at(v, c)
            for side in (c.a, c.b):
                os_ = v.origins_of_operand(side, at=at)
                if required(os_):
                    deps = v.origins_of_operand(side, at=at, taint=True)
                    fields = fee_fields(v, deps, loan)
                    has_old = any(o.kind == "param" and o.a == 3 for o in deps)
                    ctx.ob("C06-X3", "%s|required-composition" % AFTER, fields == {"protocol_fee", "flash_loan_fee", "burn_fee"} and has_old,
                           "required amount depends on old_balance: %s and on CONFIG.fees.%s.compute(loan_amount)" % (has_old, sorted(fields)), v.where(b))
    # X4 counter decrement
    ups = storage_calls(v, "vault::state::LOAN_COUNTER", ("update",))
    dec = False
    for b, t in ups:
        for o in v.origins_of_operand(t["args"][2], at=v.at_term(b)):
            if o.kind == "closure" and o.a in model.fnsrc:
                cv = model.view(o.a)
                for xb, xt in cv.iter_calls():
                    if re.search(r"(saturating_sub|checked_sub)$", mname(xt)) and const_of(cv, xt["args"][1], cv.at_term(xb)) == 1:
                        dec = True
    ctx.ob("C06-X4", "%s|counter-decremented" % AFTER, dec and bool(ups) and all(must_pass_through(v, ub, oks) for ub, _ in ups),
           "LOAN_COUNTER.update subtracts 1: %s and lies on every success path" % dec, v.where())


def check_deposit(ctx, model):
    v = ctx.view(DEPOSIT, "C06-X4")
    if v is None:
        return
    msgs = [b for b, i, l, d in message_creations(v, model)]
    is_x = lambda os_: bool(os_) and all(o.kind == "load" and o.a.endswith("vault::state::LOAN_COUNTER") for o in os_)
    tracked, ths = single_var_guard(v, is_x, [Fraction(0)])
    if not tracked:
        ctx.ob("C06-X4", "%s|no-mint-during-loan" % DEPOSIT, False, "no test of LOAN_COUNTER in deposit", v.where())
        return
    rows = []
    bad = []
    for x in single_var_regions(ths):
        if x < 0:
            continue
        reach = single_var_walk(v, tracked, x)
        r = bool(reach & set(msgs))
        rows.append("%s:%s" % (x, "messages" if r else "rejected"))
        if (x == 0) != r:
            bad.append("LOAN_COUNTER=%s -> %s" % (x, "messages reachable" if r else "rejected"))
    ctx.ob("C06-X4", "%s|no-mint-during-loan" % DEPOSIT, not bad, ("MISMATCH %s | " % bad if bad else "") + "regions %s" % rows, v.where(min(tracked)))


def check_payback(ctx, model):
    v = ctx.view(PAYBACK, "C06-X5")
    a = ctx.view(AFTER, "C06-X5")
    if v is None or a is None:
        return
    amount = pidx(v, "cosmwasm_std::Uint128")
    amt = lambda os_: bool(os_) and all(o.kind == "param" and o.a == amount for o in os_)
    for b, i, s in v.iter_stmts():
        rv = s["rv"]
        if rv["r"] == "agg" and rv.get("adt", "").endswith("vault::PaybackAmountResponse"):
            f = dict(zip(rv["fields"], rv["ops"]))
            pa = v.origins_of_operand(f["payback_amount"], at=(b, i), taint=True)
            fields = fee_fields(v, pa, amt)
            has_amt = any(o.kind == "param" and o.a == amount for o in pa)
            adds = all(o.kind == "call" and o.a.endswith("Uint128::checked_add") for o in v.origins_of_operand(f["payback_amount"], at=(b, i)))
            ctx.ob("C06-X5", "%s|quote==enforced" % PAYBACK, fields == {"protocol_fee", "flash_loan_fee", "burn_fee"} and has_amt and adds,
                   "payback_amount = checked_add chain: %s over amount: %s and CONFIG.fees.%s.compute(amount) (after_trade enforces the same three)" % (adds, has_amt, sorted(fields)),
                   v.where(b))
            for name in ("protocol_fee", "flash_loan_fee", "burn_fee"):
                fo = v.origins_of_operand(f[name], at=(b, i), taint=True)
                ctx.ob("C06-X5", "%s|field|%s" % (PAYBACK, name), fee_fields(v, fo, amt) == {name},
                       "response.%s computed from CONFIG.fees.%s" % (name, sorted(fee_fields(v, fo, amt))), v.where(b))


def check_router(ctx, model):
    v = ctx.view(NEXT, "C06-X6")
    if v is not None:
        msgs = [b for b, i, l, d in message_creations(v, model)]
        sender = lambda os_: bool(os_) and all(o.kind == "param" and "MessageInfo" in v.local_ty(o.a) and tuple(o.proj) == ("sender",) for o in os_)
        srcv = lambda os_: bool(os_) and all(o.kind == "param" and "String" in v.local_ty(o.a) and not o.proj for o in os_)
        queried = lambda os_: bool(os_) and all(o.kind == "call" and o.a.endswith("query_wasm_smart") for o in os_)
        edges1, edges2 = [], []
        for b, c, _ in switch_conds(v):
            if c.kind == "cmp" and c.op in ("==", "!="):
                at = cond_at(v, c)
                oa, ob = v.origins_of_operand(c.a, at=at), v.origins_of_operand(c.b, at=at)
                te, fe = cmp_true_false_edges(v, b, c)
                eq = te if c.op == "==" else fe
                if (sender(oa) and srcv(ob)) or (sender(ob) and srcv(oa)):
                    edges1 += eq
                if (queried(oa) and srcv(ob)) or (queried(ob) and srcv(oa)):
                    edges2 += eq
        ok1 = bool(edges1) and all(v.edge_dominated(b, edges1) for b in msgs)
        ok2 = bool(edges2) and all(v.edge_dominated(b, edges2) for b in msgs)
        ctx.ob("C06-X6", "%s|sender-is-source-vault" % NEXT, ok1 and bool(msgs), "every message dominated by sender == source_vault: %s" % ok1, v.where())
        ctx.ob("C06-X6", "%s|source-vault-is-registered" % NEXT, ok2 and bool(msgs), "every message dominated by factory.Vault(asset) == source_vault: %s" % ok2, v.where())
        for b, t in v.calls_to(r"query_wasm_smart$"):
            a0 = arg_origins(v, b, t, 1)
            ctx.ob("C06-X6", "%s|queries-configured-factory" % NEXT, bool(a0) and all(o.kind == "load" and tuple(o.proj) == ("vault_factory",) for o in a0),
                   "vault lookup is sent to %s (must be CONFIG.vault_factory)" % sorted(map(repr, a0)), v.where(b))
        check_messages_attached(ctx, model, NEXT, rule="C06-X6")
    # complete_loan closure
    cv = None
    for q in model.fnsrc:
        if q.startswith(COMPLETE + "::{closure#0}") and q.count("{closure") == 1:
            cv = ctx.view(q, "C06-X6")
    if cv is None:
        ctx.missing("C06-X6", "per-loan closure of complete_loan")
        return
    quote = lambda os_: bool(os_) and all(o.kind == "call" and o.a.endswith("query_wasm_smart") and tuple(o.proj) == ("payback_amount",) for o in os_)
    n_pay = n_profit = 0
    for b, i, s in cv.iter_stmts():
        rv = s["rv"]
        if rv["r"] != "agg":
            continue
        to = amt = None
        if rv.get("adt") == "cosmwasm_std::BankMsg" and rv.get("variant") == "Send":
            f = dict(zip(rv["fields"], rv["ops"]))
            to, amt = f["to_address"], f["amount"]
        elif rv.get("adt") == "cw20::Cw20ExecuteMsg" and rv.get("variant") == "Transfer":
            f = dict(zip(rv["fields"], rv["ops"]))
            to, amt = f["recipient"], f["amount"]
        if to is None:
            continue
        to_o = cv.origins_of_operand(to, at=(b, i))
        amt_o = cv.origins_of_operand(amt, at=(b, i), taint=True)
        to_vault = bool(to_o) and all(o.kind == "param" and o.a == 2 and tuple(o.proj) == ("0",) for o in to_o)
        to_init = bool(to_o) and all(o.kind == "param" and o.a == 1 for o in to_o)
        if to_vault:
            n_pay += 1
            ok = any(tuple(o.proj) == ("payback_amount",) and o.kind == "call" for o in amt_o) and not any(
                o.kind == "call" and o.a.endswith("checked_sub") for o in amt_o)
            ctx.ob("C06-X6", "%s|payback|%s" % (COMPLETE, rv["variant"]), ok, "vault is paid %s (must be the quoted payback_amount)" % sorted(map(repr, amt_o))[:4], cv.where(b))
        elif to_init:
            n_profit += 1
            ok = any(o.kind == "call" and o.a.endswith("Uint128::checked_sub") for o in amt_o)
            ctx.ob("C06-X6", "%s|profit|%s" % (COMPLETE, rv["variant"]), ok, "initiator is paid %s (must be balance.checked_sub(payback))" % sorted(map(repr, amt_o))[:4], cv.where(b))
        else:
            ctx.ob("C06-X6", "%s|unknown-recipient|%s" % (COMPLETE, rv["variant"]), False, "transfer to %s" % sorted(map(repr, to_o)), cv.where(b))
    # the profit transfer is skipped only for a profit of exactly zero (ordering-domain walk over the constants the code
    # compares the profit with): any positive remainder, one base unit included, goes to the initiator
    from fractions import Fraction
    from ..dataflow import single_var_guard, single_var_regions, single_var_walk
    is_profit = lambda os_: bool(os_) and all(o.kind == "call" and o.a.endswith("Uint128::checked_sub") for o in os_)
    tracked, ths = single_var_guard(cv, is_profit, [Fraction(0)])
    profit_blocks = []
    for b, i, s in cv.iter_stmts():
        rv = s["rv"]
        if rv["r"] == "agg" and ((rv.get("adt") == "cosmwasm_std::BankMsg" and rv.get("variant") == "Send") or (rv.get("adt") == "cw20::Cw20ExecuteMsg" and rv.get("variant") == "Transfer")):
            f = dict(zip(rv["fields"], rv["ops"]))
            to_o = cv.origins_of_operand(f.get("to_address", f.get("recipient")), at=(b, i))
            if to_o and all(o.kind == "param" and o.a == 1 for o in to_o):
                profit_blocks.append(b)
    rows, bad = [], []
    for x in single_var_regions(ths):
        if x < 0:
            continue
        reach = single_var_walk(cv, tracked, x)
        sent = any(b in reach for b in profit_blocks)
        rows.append("%s:%s" % (x, "sent" if sent else "kept"))
        if x > 0 and not sent:
            bad.append("a profit of %s stays in the router" % x)
    unresolved = getattr(cv, "_unresolved_cmp", [])
    ctx.ob("C06-X6", "%s|router-keeps-nothing" % COMPLETE, bool(tracked) and bool(profit_blocks) and not bad and not unresolved,
           ("MISMATCH %s | " % bad if bad else "") + "profit regions: %s%s" % (rows, " (unevaluated constant in a comparison)" if unresolved else ""), cv.where())
    ctx.floor("C06-X6", "payback transfers in complete_loan", n_pay, 2)
    ctx.floor("C06-X6", "profit transfers in complete_loan", n_profit, 2)
    # profit = final_amount.checked_sub(quote) with the error propagated
    okp = False
    for b, t in cv.calls_to(r"Uint128::checked_sub$"):
        a0 = cv.origins_of_operand(t["args"][0], at=cv.at_term(b))
        a1 = cv.origins_of_operand(t["args"][1], at=cv.at_term(b))
        if quote(a1) and a0 and all(o.kind == "call" and (o.a.endswith("query_balance") or o.a.endswith("query_wasm_smart")) for o in a0):
            okp = True
    ctx.ob("C06-X6", "%s|profit=balance-quote" % COMPLETE, okp, "profit computed as balance.checked_sub(quoted payback): %s" % okp, cv.where())
    for b, t in cv.calls_to(r"query_wasm_smart$"):
        a0 = arg_origins(cv, b, t, 1)
        msg = arg_origins(cv, b, t, 2, taint=True)
        if any(o.kind == "agg" and o.a.endswith("QueryMsg::GetPaybackAmount") for o in msg):
            ctx.ob("C06-X6", "%s|quote-from-the-lending-vault" % COMPLETE, bool(a0) and all(o.kind == "param" and o.a == 2 and tuple(o.proj) == ("0",) for o in a0),
                   "GetPaybackAmount is asked from %s (must be the vault of this loan)" % sorted(map(repr, a0)), cv.where(b))
    v2 = ctx.view(COMPLETE, "C06-X6")
    if v2 is not None:
        check_messages_attached(ctx, model, COMPLETE, rule="C06-X6")


def _at_callers(model, p, os_):
    """Resolve bare parameter origins of function p to the operands passed at its (direct) call sites."""
    res = set()
    for o in os_:
        got = False
        if o.kind == "param" and not o.proj:
            for (cp, cb, ck) in model.callers().get(p, []):
                if ck != "call":
                    continue
                cv = model.view(cp)
                ct = cv.blocks[cb]["t"]
                if o.a - 1 < len(ct["args"]):
                    res |= cv.origins_of_operand(ct["args"][o.a - 1], at=cv.at_term(cb))
                    got = True
        if not got:
            res.add(o)
    return res


def check_router_threading(ctx, model):
    """The loan state the router threads through its callbacks: the NextLoan it starts names the sender as initiator;
    every NextLoan / CompleteLoan built by next_loan carries the initiator and the loaned_assets of the NextLoan it is
    handling (the vault calling back is info.sender there -- using it would pay the surplus to the vault)."""
    n = 0
    for p, want in ((FLASH_R, "sender"), (NEXT, "request")):
        v = ctx.view(p, "C06-X6")
        if v is None:
            continue
        for b, i, s_ in v.iter_stmts():
            rv = s_["rv"]
            if rv["r"] != "agg" or not rv.get("adt", "").endswith("vault_router::ExecuteMsg") or rv.get("variant") not in ("NextLoan", "CompleteLoan"):
                continue
            f = dict(zip(rv["fields"], rv["ops"]))
            n += 1
            io = v.origins_of_operand(f["initiator"], at=(b, i))
            if want == "sender":
                ok = bool(io) and all(o.kind == "param" and "MessageInfo" in v.local_ty(o.a) and tuple(o.proj) == ("sender",) for o in io)
                what = "info.sender"
            else:
                r = _at_callers(model, p, io)
                ok = bool(r) and all(o.kind == "param" and tuple(o.proj) == ("#NextLoan", "initiator") for o in r)
                what = "the initiator of the NextLoan being handled"
                lo = _at_callers(model, p, v.origins_of_operand(f["loaned_assets"], at=(b, i)))
                okl = bool(lo) and all(o.kind == "param" and tuple(o.proj) == ("#NextLoan", "loaned_assets") for o in lo)
                ctx.ob("C06-X6", "%s|%s|loaned_assets-threaded" % (p, rv["variant"]), okl,
                       "%s.loaned_assets := %s (must be the loaned_assets of the NextLoan being handled)" % (rv["variant"], sorted(map(repr, lo))), v.where(b))
            ctx.ob("C06-X6", "%s|%s|initiator-threaded" % (p, rv["variant"]), ok,
                   "%s.initiator := %s (must be %s)" % (rv["variant"], sorted(map(repr, io)), what), v.where(b))
    ctx.floor("C06-X6", "NextLoan/CompleteLoan messages built by the router", n, 3)


def run(ctx):
    model = ctx.model()
    check_callback(ctx, model)
    check_flash_loan(ctx, model)
    check_after_trade(ctx, model)
    check_deposit(ctx, model)
    check_payback(ctx, model)
    check_router(ctx, model)
    check_router_threading(ctx, model)
    # each fee is booked as what it is: the value stored in each ledger and burned is CONFIG.fees.<that fee>.compute(loan)
    from .C07 import check_vault_after_trade
    check_vault_after_trade(ctx.renamed({"C07-F1": "C06-X3", "C07-F2": "C06-X3"}), model)
