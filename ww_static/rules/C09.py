"""C09 -- fee distributor: epoch ledgers balance and no epoch is paid twice."""
import re
from ..facts import mname, term_callee
from ..mir import switch_conds, cmp_true_false_edges, try_edges
from ..dataflow import call_of, cond_at, field_sources, forward_flow, message_creations
from ..guards import resolve
from ..effects import fn_effects
from .common import storage_calls, arg_origins, ok_value_blocks, must_pass_through, scope_calls, scope_origins, scope_attached
from .C12 import check_messages_attached

EXPLANATION = """
D1: in `claim` one definition `reward = fee.amount.checked_mul_floor(share)` feeds (i) available.amount.checked_sub(reward)?,
(ii) the claimed ledger in both arms (initial vector / checked_add) and (iii) the payout accumulated by
aggregate_assets and sent with into_msg to info.sender; the checked subtraction from `available` (which aborts when
reward > available) precedes the EPOCHS.save of that epoch on every path; every message is attached. D2:
LAST_CLAIMED_EPOCH.save(sender, newest claimable epoch id) lies on every success path; query_claimable keeps only
epochs with id > last claimed, respectively id > first bonded epoch (strict comparisons inside the retain closures),
and clears the list for an address that never bonded. D3: in `reply`, the expiring epoch's available (before it is
emptied) is aggregated into the new epoch's total AND available (one aggregate_assets result feeds both fields), the
expiring epoch is saved with available = [], the new epoch is saved once. D5: the expiring epoch is selected from exactly the claimable window (no extra filtering). D4: EPOCHS is written only by reply/claim
and LAST_CLAIMED_EPOCH only by claim (migrations excepted).
"""
ASSUMPTIONS = [
    "Uint128::checked_sub returns an error on underflow and `?` aborts the call (this is what bounds a payout by `available`)",
    "asset::aggregate_assets adds per-asset amounts (white-whale-std helper)",
    "distributor balance >= sum of available, and 'never for an epoch before bonding' depend on other contracts' state/arithmetic: not decided",
]

CLAIM = "fee_distributor::commands::claim"
REPLY = "fee_distributor::contract::reply"
QC = "fee_distributor::state::query_claimable"


def is_reward(v):
    def f(os_):
        return bool(os_) and all(o.kind == "call" and o.a.endswith("Uint128::checked_mul_floor") for o in os_)
    return f


def check_claim(ctx, model):
    v = ctx.view(CLAIM, "C09-D1")
    if v is None:
        return
    rew = is_reward(v)
    muls = v.calls_to(r"Uint128::checked_mul_floor$")
    ctx.ob("C09-D1", "%s|single-reward-definition" % CLAIM, len(muls) == 1, "checked_mul_floor call sites: %d" % len(muls), v.where())
    for b, t in muls:
        a0 = arg_origins(v, b, t, 0)
        a1 = arg_origins(v, b, t, 1)
        ok = bool(a0) and all(o.proj and o.proj[-1] == "amount" and "total" in o.proj for o in a0) and bool(a1) and all(o.proj and o.proj[-1] == "share" for o in a1)
        ctx.ob("C09-D1", "%s|reward=floor(total*share)" % CLAIM, ok, "reward = %s .checked_mul_floor(%s)" % (sorted(map(repr, a0)), sorted(map(repr, a1))), v.where(b))
    # (i) available -= reward (checked)
    # the updates sit in the handler's loops or in closures of iterator pipelines over the ledgers: each site is read in its
    # own body and translated back (site = (view, chain, block, term); root_block = where it happens in the handler)
    def sites(rx):
        return [(sv, ch, b, t) for sv, ch, b, t in scope_calls(model, CLAIM, rx)
                if rew(scope_origins(model, ch, sv, t["args"][1], sv.at_term(b)))]

    def root_block(ch, b):
        return ch[0][1] if ch else b
    sub_sites, add_sites = sites(r"Uint128::checked_sub$"), sites(r"Uint128::checked_add$")
    subs = [(root_block(ch, b), t) for sv, ch, b, t in sub_sites]
    adds = [(root_block(ch, b), t) for sv, ch, b, t in add_sites]
    sub_ok = bool(sub_sites) and all(any(o.proj and "available" in o.proj for o in scope_origins(model, ch, sv, t["args"][0], sv.at_term(b))) for sv, ch, b, t in sub_sites)
    add_ok = bool(add_sites) and all(any(o.proj and "claimed" in o.proj for o in scope_origins(model, ch, sv, t["args"][0], sv.at_term(b))) for sv, ch, b, t in add_sites)
    ctx.ob("C09-D1", "%s|available-=reward" % CLAIM, sub_ok, "checked_sub(available.amount, reward) sites: %d" % len(subs), v.where())
    ctx.ob("C09-D1", "%s|claimed+=reward" % CLAIM, add_ok, "checked_add(claimed.amount, reward) sites: %d" % len(adds), v.where())
    # claimed initial vector and payout aggregate carry the same reward
    n_agg = 0
    for b, i, s in v.iter_stmts():
        rv = s["rv"]
        if rv["r"] == "agg" and rv.get("adt", "").endswith("asset::Asset"):
            f = dict(zip(rv["fields"], rv["ops"]))
            if rew(v.origins_of_operand(f["amount"], at=(b, i))):
                n_agg += 1
    # the reward of a fee entry is paid, debited and credited in THAT entry's asset: every Asset{amount: reward} carries
    # fee.info, and each ledger update happens under `entry.info == fee.info`
    fee_roots = set()
    for b, t in muls:
        for o in arg_origins(v, b, t, 0):
            fee_roots.add((o.kind, o.a, tuple(o.proj[:-1])))
    is_fee_info = lambda os_: bool(os_) and all((o.kind, o.a, tuple(o.proj[:-1])) in fee_roots and o.proj and o.proj[-1] == "info" for o in os_)
    bad_info = []
    for b, i, s_ in v.iter_stmts():
        rv = s_["rv"]
        if rv["r"] == "agg" and rv.get("adt", "").endswith("asset::Asset"):
            f = dict(zip(rv["fields"], rv["ops"]))
            if rew(v.origins_of_operand(f["amount"], at=(b, i))):
                io = v.origins_of_operand(f["info"], at=(b, i))
                if not is_fee_info(io):
                    bad_info.append("line %s: info from %s" % (s_.get("ln"), sorted(map(repr, io))))
    ctx.ob("C09-D1", "%s|reward-in-the-fee-entry's-asset" % CLAIM, not bad_info and n_agg >= 2,
           "Asset{amount: reward} entries carry fee.info" if not bad_info else "; ".join(bad_info), v.where())
    eq_edges = {"available": [], "claimed": []}
    for b, c, _ in switch_conds(v):
        if c.kind != "cmp" or c.op not in ("==", "!="):
            continue
        at = cond_at(v, c)
        oa, ob = v.origins_of_operand(c.a, at=at), v.origins_of_operand(c.b, at=at)
        te, fe = cmp_true_false_edges(v, b, c)
        eq = te if c.op == "==" else fe
        for x, y in ((oa, ob), (ob, oa)):
            if is_fee_info(y) and x and all(o.proj and o.proj[-1] == "info" for o in x):
                for led in ("available", "claimed"):
                    # (an entry pushed earlier in this call may itself have been built from fee.info)
                    if any(led in o.proj for o in x) and all(led in o.proj or is_fee_info({o}) for o in x):
                        eq_edges[led] += eq
    def filtered_by_same_asset(sv, ch, led, site=None):
        """The update closure only ever sees entries that passed `.filter(|e| e.info == fee.info)`: the adapter call that
        takes this closure iterates a filter whose predicate returns exactly that comparison."""
        from ..mir import resolve_bool
        from ..guards import resolve as _res

        def pred_is_same_asset(pv, fc, base_chain):
            for po in pv.origins_of_operand(fc[1]["args"][1], at=pv.at_term(fc[0])):
                if po.kind != "closure" or po.a not in model.fnsrc:
                    continue
                fv = model.view(po.a)
                fch = tuple(base_chain) + ((pv.path, int(po.b.rsplit(":bb", 1)[1]), "closure"),)
                for rb_ in fv.return_blocks():
                    c = resolve_bool(fv, {"k": "copy", "pl": {"l": 0, "p": []}}, at=fv.at_term(rb_))
                    if c.kind != "cmp" or c.op != "==" or c.b is None:
                        continue
                    at = cond_at(fv, c)
                    oa = _res(model, fch, fv, fv.origins_of_operand(c.a, at=at), elems=True)
                    ob = _res(model, fch, fv, fv.origins_of_operand(c.b, at=at), elems=True)
                    for x, y in ((oa, ob), (ob, oa)):
                        if is_fee_info(y) and x and all(o2.proj and o2.proj[-1] == "info" for o2 in x) and any(led in o2.proj for o2 in x) \
                                and all(led in o2.proj or is_fee_info({o2}) for o2 in x):
                            return True
            return False
        if not ch:
            # `for e in ledger.iter_mut().filter(|e| e.info == fee.info) { e.amount = .. }` in the handler itself
            if site is None:
                return False
            sb_, st_ = site
            with sv.opaque(r"Iterator>::filter$"):
                recv = sv.origins_of_operand(st_["args"][0], at=sv.at_term(sb_))
            for o in recv:
                fc = call_of(sv, o)
                if fc and mname(fc[1]).endswith("Iterator>::filter") and pred_is_same_asset(sv, fc, ()):
                    return True
            return False
        pv = model.view(ch[-1][0])
        for cb_, cp_, ops_ in pv.closures_created():
            if cp_ != sv.path:
                continue
            cl = [s_["lhs"]["l"] for b_, i_, s_ in pv.iter_stmts() if b_ == cb_ and s_["rv"]["r"] == "agg" and s_["rv"].get("closure") == cp_]
            for ab, at_ in pv.iter_calls():
                if not any(a.get("k") in ("copy", "move") and a["pl"]["l"] in cl for a in at_["args"][1:]):
                    continue
                with pv.opaque(r"Iterator>::filter$"):
                    recv = pv.origins_of_operand(at_["args"][0], at=pv.at_term(ab))
                for o in recv:
                    fc = call_of(pv, o)
                    if not fc or not mname(fc[1]).endswith("Iterator>::filter"):
                        continue
                    for po in pv.origins_of_operand(fc[1]["args"][1], at=pv.at_term(fc[0])):
                        if po.kind != "closure" or po.a not in model.fnsrc:
                            continue
                        fv = model.view(po.a)
                        fch = tuple(ch[:-1]) + ((pv.path, int(po.b.rsplit(":bb", 1)[1]), "closure"),)
                        for rb_ in fv.return_blocks():
                            c = resolve_bool(fv, {"k": "copy", "pl": {"l": 0, "p": []}}, at=fv.at_term(rb_))
                            if c.kind != "cmp" or c.op != "==" or c.b is None:
                                continue
                            at = cond_at(fv, c)
                            oa = _res(model, fch, fv, fv.origins_of_operand(c.a, at=at), elems=True)
                            ob = _res(model, fch, fv, fv.origins_of_operand(c.b, at=at), elems=True)
                            for x, y in ((oa, ob), (ob, oa)):
                                if is_fee_info(y) and x and all(o2.proj and o2.proj[-1] == "info" for o2 in x) and any(led in o2.proj for o2 in x) \
                                        and all(led in o2.proj or is_fee_info({o2}) for o2 in x):
                                    return True
        return False
    for led, ss in (("available", sub_sites), ("claimed", add_sites)):
        ok = bool(ss) and all((not ch and bool(eq_edges[led]) and v.edge_dominated(b, eq_edges[led])) or filtered_by_same_asset(sv, ch, led, (b, t))
                               for sv, ch, b, t in ss)
        ctx.ob("C09-D1", "%s|%s-updated-for-the-same-asset-only" % (CLAIM, led), ok,
               "every %s update is dominated by `entry.info == fee.info`: %s" % (led, ok), ss[0][0].where(ss[0][2]) if ss else v.where())
    ctx.ob("C09-D1", "%s|reward-assets" % CLAIM, n_agg >= 2, "Asset{amount: reward} constructions (claimed initial entry, payout entry): %d" % n_agg, v.where())
    saves = storage_calls(v, "fee_distributor::state::EPOCHS", ("save",))
    for sb, st in saves:
        # an `available` entry of the same asset must exist (find(..).ok_or_else(..)?) and the checked subtraction precedes the save
        find_edges = []
        for fb in sorted(v.live_blocks()):
            te = try_edges(v, fb)
            if te:
                cont, brk, bblock, inner = te
                ios = v.origins_of_operand(inner, at=v.at_term(bblock), taint=True)
                for o in ios:
                    if o.kind == "call" and o.a.endswith("as std::iter::Iterator>::find"):
                        find_edges += cont
                # ... or the Option is filled by a search loop over epoch.available (`if e.info == fee.info { found = Some(e); break }`)
                if any(o.proj and "available" in o.proj and o.proj[-1] != "amount" for o in ios) and \
                        not any(o.kind == "call" and o.a.endswith("Iterator>::find") for o in ios) and \
                        any(o.kind == "call" and re.search(r"Option::(ok_or|ok_or_else|map|expect)$", o.a) for o in ios | v.origins_of_operand(inner, at=v.at_term(bblock))):
                    find_edges += cont
        exists = bool(find_edges) and v.edge_dominated(sb, find_edges)
        before = bool(subs) and all(sb in v.reach_strict(b) for b, t in subs)
        ctx.ob("C09-D1", "%s|bounded-before-save" % CLAIM, exists and before,
               "an available entry of the fee's asset must exist before the save: %s; available.checked_sub(reward)? precedes the save: %s" % (exists, before), v.where(sb))
        val = st["args"][3]
        av = v.origins_of_operand(val, proj=("available",), at=v.at_term(sb), taint=True)
        cl = v.origins_of_operand(val, proj=("claimed",), at=v.at_term(sb), taint=True)
        ctx.ob("C09-D1", "%s|saved-epoch-carries-updates" % CLAIM,
               (any(o.kind == "call" and o.a.endswith("checked_sub") for o in av) or (sub_ok and any(ch for sv, ch, b, t in sub_sites)))
               and (any(o.kind == "call" and (o.a.endswith("checked_add") or o.a.endswith("checked_mul_floor")) for o in cl)
                    or (add_ok and any(ch for sv, ch, b, t in add_sites))),
               "saved epoch.available depends on checked_sub: %s; saved epoch.claimed depends on the reward: %s" % (
                   any(o.kind == "call" and o.a.endswith("checked_sub") for o in av), any(o.kind == "call" for o in cl)), v.where(sb))
    # payout
    pay = scope_calls(model, CLAIM, r"Asset::into_msg$")
    for pv, chain, b, t in pay:
        rec = scope_origins(model, chain, pv, t["args"][1], pv.at_term(b))
        src = scope_origins(model, chain, pv, t["args"][0], pv.at_term(b), taint=True)
        attached = scope_attached(model, chain, pv, t["dest"]["l"])
        ok = bool(rec) and all(o.kind == "param" and tuple(o.proj) == ("sender",) for o in rec) and any(
            o.kind == "call" and o.a.endswith("asset::aggregate_assets") for o in src) and attached
        ctx.ob("C09-D1", "%s|payout" % CLAIM, ok, "payout of the aggregated rewards to %s, attached: %s" % (sorted(map(repr, rec)), attached), pv.where(b))
    if not pay:
        ctx.ob("C09-D1", "%s|payout" % CLAIM, False, "no payout message built", v.where())
    for b, t in v.calls_to(r"asset::aggregate_assets$"):
        a1 = arg_origins(v, b, t, 1, taint=True)
        ctx.ob("C09-D1", "%s|payout-accumulates-reward" % CLAIM, any(o.kind == "call" and o.a.endswith("checked_mul_floor") for o in a1),
               "aggregate_assets adds %s" % sorted(map(repr, a1))[:3], v.where(b))
    # D2
    oks = ok_value_blocks(v)
    ls = storage_calls(v, "fee_distributor::state::LAST_CLAIMED_EPOCH", ("save",))
    ok = bool(ls) and all(must_pass_through(v, sb, oks) for sb, _ in ls)
    key_ok = all(any(o.kind == "param" and tuple(o.proj) == ("sender",) for o in arg_origins(v, sb, t, 2)) for sb, t in ls)
    val_ok = all(any(o.kind == "call" and o.a.endswith("state::query_claimable") and o.proj and o.proj[-1] == "id" for o in arg_origins(v, sb, t, 3)) for sb, t in ls)
    ctx.ob("C09-D2", "%s|cursor-saved" % CLAIM, ok and key_ok and val_ok,
           "LAST_CLAIMED_EPOCH.save on every success path: %s; key = sender: %s; value = id of a claimable epoch: %s" % (ok, key_ok, val_ok), v.where())
    # the newest epoch: index 0 of the claimable list (query_claimable returns newest first)
    from .C03 import _array_index
    for sb, t in ls:
        idx = _array_index(v, t["args"][3], v.at_term(sb))
        ctx.ob("C09-D2", "%s|cursor-is-newest-claimable" % CLAIM, idx == 0, "cursor taken from claimable_epochs[%s] (must be [0], the newest)" % idx, v.where(sb))
    check_messages_attached(ctx, model, CLAIM, rule="C09-D1")


def check_claim_requires_available_entry(ctx, model):
    """D6: a reward enters the payout (aggregate_assets into claimable_fees) only after the asset was FOUND in the epoch's
    `available` list: the success edge of `<find over epoch.available> .ok_or(..)?` dominates the aggregation. (The
    subtraction loop below it silently does nothing for an asset without entry, so without this the payout has no
    matching ledger decrease.)"""
    v = ctx.view(CLAIM, "C09-D6")
    if v is None:
        return
    aggs = v.calls_to(r"asset::aggregate_assets$")
    if not aggs:
        ctx.missing("C09-D6", "aggregate_assets in claim")
        return
    edges = []
    with v.opaque(r"std::option::Option::(ok_or|ok_or_else)$"):
        for b in sorted(v.live_blocks()):
            te = try_edges(v, b)
            if not te:
                continue
            cont, brk, bblock, inner = te
            for o in v.origins_of_operand(inner, at=v.at_term(bblock)):
                if not (o.kind == "call" and re.search(r"Option::(ok_or|ok_or_else)$", o.a)):
                    continue
                c = call_of(v, o)
                if c is None:
                    continue
                src = v.origins_of_operand(c[1]["args"][0], at=v.at_term(c[0]), taint=True)
                found = any(x.kind == "call" and re.search(r"Iterator>::(find|position|find_map)$", x.a) for x in src)
                over_available = any(x.proj and "available" in x.proj for x in src)
                # ... or an Option filled by a search loop: `Some(entry)` only for an entry of epoch.available
                direct = v.origins_of_operand(c[1]["args"][0], at=v.at_term(c[0]))
                searched = bool(direct) and any(x.proj and "available" in x.proj for x in direct | src) and not found and all(
                    (x.proj and "available" in x.proj) or x.kind in ("const",) or (x.kind == "call" and x.a.endswith("Option::map")) for x in direct)
                if (found or searched) and over_available:
                    edges += cont
    ok = bool(edges) and all(v.edge_dominated(b, edges) for b, _ in aggs)
    ctx.ob("C09-D6", "%s|reward-needs-an-available-entry" % CLAIM, ok,
           "payout aggregation dominated by `find over epoch.available`.ok_or(..)? : %s" % ok, v.where(aggs[0][0]))


def check_bond_requires_claimed(ctx, model):
    """D7: "never paid for an epoch that started before it bonded" rests on the bonding contract refusing to change a
    bond while rewards are pending: in whale_lair `bond` and `unbond` the success of validate_claimed(..)? dominates every
    write (unconditionally -- a first bond of a denom by an address that claimed before is exactly the case that matters),
    and validate_claimed asks the configured distributor for the SENDER's claimable epochs and rejects unless the list is
    empty."""
    from ..guards import HelperGuard, site_guarded
    from ..mir import storage_call
    spec = HelperGuard("validate_claimed(..)?", r"^whale_lair::helpers::validate_claimed$")
    for p in ("whale_lair::commands::bond", "whale_lair::commands::unbond"):
        v = ctx.view(p, "C09-D7")
        if v is None:
            continue
        writes = [b for b, t in v.iter_calls() if storage_call(t) and storage_call(t)[1] in ("save", "update", "remove")]
        writes += [b for b, t in v.calls_to(r"^whale_lair::state::update_(local|global)_weight$")]
        bad = [b for b in writes if not site_guarded(model, (), p, b, spec)[0]]
        ctx.ob("C09-D7", "%s|pending-rewards-claimed-first" % p, bool(writes) and not bad,
               "%d writes; not dominated by validate_claimed(..)?: %s" % (len(writes), ["bb%d" % b for b in bad]), v.where(bad[0]) if bad else v.where())
        for b, t in v.calls_to(r"^whale_lair::helpers::validate_claimed$"):
            a1 = v.origins_of_operand(t["args"][1], at=v.at_term(b))
            ctx.ob("C09-D7", "%s|checked-for-the-sender" % p, bool(a1) and all(o.kind == "param" and "MessageInfo" in v.local_ty(o.a) and not o.proj for o in a1),
                   "validate_claimed is applied to %s (must be the entry point's MessageInfo)" % sorted(map(repr, a1)), v.where(b))
    h = ctx.view("whale_lair::helpers::validate_claimed", "C09-D7")
    if h is not None:
        oks = set(ok_value_blocks(h))
        ok = False
        det = "no emptiness test on the claimable epochs"
        for b, c, _ in switch_conds(h):
            if c.kind == "call" and c.callee.endswith("Vec::is_empty"):
                a0 = h.origins_of_operand(c.term["args"][0], at=h.at_term(c.block))
                if a0 and all(o.kind == "call" and o.a.endswith("query_wasm_smart") and tuple(o.proj) == ("epochs",) for o in a0):
                    te, fe = cmp_true_false_edges(h, b, c)
                    nonempty = te if c.neg else fe
                    reach = set()
                    for _, tgt in nonempty:
                        reach |= h.reachable(tgt)
                    ok = not (reach & oks)
                    det = "non-empty claimable list %s reach Ok" % ("cannot" if ok else "CAN")
        q_ok = False
        for b, t in h.calls_to(r"query_wasm_smart$"):
            to = h.origins_of_operand(t["args"][1], at=h.at_term(b))
            msg = h.origins_of_operand(t["args"][2], at=h.at_term(b), taint=True)
            q_ok = bool(to) and all(o.kind == "load" and tuple(o.proj) == ("fee_distributor_addr",) for o in to) and \
                any(o.kind == "agg" and o.a.endswith("QueryMsg::Claimable") for o in msg) and \
                any(o.kind == "param" and tuple(o.proj) == ("sender",) for o in msg)
        ctx.ob("C09-D7", "whale_lair::helpers::validate_claimed|rejects-pending-rewards", ok and q_ok,
               "%s; asks CONFIG.fee_distributor_addr for Claimable{sender}: %s" % (det, q_ok), h.where())


def check_migration_refund(ctx, model):
    """D8: the v0.9.1 migration force-expires faulty epochs: what it sends out is what it removes from the ledgers -- the
    refunded amount is aggregated from the very field (`available`) that is then emptied, never from `total` (already
    claimed tokens are not there any more)."""
    p = "fee_distributor::migrations::migrate_to_v091"
    v = ctx.view(p, "C09-D8")
    if v is None:
        return
    agg_fields = set()
    for b, t in v.calls_to(r"asset::aggregate_assets$"):
        for o in v.origins_of_operand(t["args"][1], at=v.at_term(b)):
            agg_fields.add(o.proj[-1] if o.proj else "<%s>" % o.kind)
    emptied = set()
    for b, i, s_ in v.iter_stmts():
        F = v._named_fields(s_["lhs"]["p"])
        if F and F[-1] in ("available", "total", "claimed") and s_["rv"]["r"] in ("use", "agg"):
            os_ = v.origins_of_place(s_["lhs"], at=(b, i + 1)) if False else None
            emptied.add(F[-1])
    for b, t in v.iter_calls():
        # `epoch.available = vec![]` lowers to a call writing the field
        F = v._named_fields(t["dest"]["p"])
        if F and F[-1] in ("available", "total", "claimed"):
            emptied.add(F[-1])
    ctx.ob("C09-D8", "%s|refund==ledger-decrease" % p, agg_fields == {"available"} and emptied == {"available"},
           "refund aggregated from epoch.%s; fields emptied: %s (both must be exactly `available`)" % (sorted(agg_fields), sorted(emptied)), v.where())


def check_query_claimable(ctx, model):
    v = ctx.view(QC, "C09-D2")
    if v is None:
        return
    retains = v.calls_to(r"^std::vec::Vec::retain$")
    strict = []
    for b, t in retains:
        for o in v.origins_of_operand(t["args"][1], at=v.at_term(b)):
            if o.kind == "closure" and o.a in model.fnsrc:
                cv = model.view(o.a)
                cb = int(o.b.rsplit(":bb", 1)[1])
                chain = ((v.path, cb, "closure"),)
                for xb, xt in cv.iter_calls():
                    m_ = re.search(r"as std::cmp::PartialOrd(<.*>)?>::(gt|ge|lt|le)$", mname(xt))
                    if m_:
                        a0 = cv.origins_of_operand(xt["args"][0], at=cv.at_term(xb))
                        a1 = resolve(model, chain, cv, cv.origins_of_operand(xt["args"][1], at=cv.at_term(xb)))
                        lhs_id = bool(a0) and all(x.proj and x.proj[-1] == "id" for x in a0)
                        what = None
                        if any(x.kind == "load" and x.a.endswith("::state::LAST_CLAIMED_EPOCH") for x in a1):
                            what = "last-claimed"
                        elif any(x.proj and x.proj[-1] == "first_bonded_epoch_id" for x in a1):
                            what = "first-bonded"
                        strict.append((what, m_.group(2), lhs_id))
    for what in ("last-claimed", "first-bonded"):
        hits = [s for s in strict if s[0] == what]
        ctx.ob("C09-D2", "%s|filter|%s" % (QC, what), len(hits) == 1 and hits[0][1] == "gt" and hits[0][2],
               "retain(epoch.id %s %s): %s" % (hits[0][1] if hits else "?", what, hits), v.where())
    # D6: epochs whose `available` is empty (already forwarded; they can re-enter the window when the grace period is
    # raised) are filtered out: a retain closure keeps an epoch iff !epoch.available.is_empty()
    emptiness = []
    for b, t in retains:
        for o in v.origins_of_operand(t["args"][1], at=v.at_term(b)):
            if o.kind == "closure" and o.a in model.fnsrc:
                cv = model.view(o.a)
                for xb, xt in cv.calls_to(r"^std::vec::Vec::is_empty$"):
                    a0 = cv.origins_of_operand(xt["args"][0], at=cv.at_term(xb))
                    fld = sorted({x.proj[-1] for x in a0 if x.proj})
                    # closure returns the negation
                    neg = any(s_["rv"]["r"] == "un" and s_["rv"]["op"] == "Not" and s_["lhs"]["l"] == 0 for _, _, s_ in cv.iter_stmts())
                    emptiness.append((fld, neg))
                # the same test spelled with len(): `x.len() > 0`, `x.len() != 0`, `x.len() >= 1` (either operand order)
                from ..dataflow import const_of
                for xb, xi, s_ in cv.iter_stmts():
                    rv = s_["rv"]
                    if s_["lhs"]["l"] != 0 or rv["r"] != "bin" or rv["op"] not in ("Gt", "Ne", "Ge", "Lt", "Le"):
                        continue
                    for x, y, op in ((rv["a"], rv["b"], rv["op"]), (rv["b"], rv["a"], {"Gt": "Lt", "Lt": "Gt", "Ge": "Le", "Le": "Ge", "Ne": "Ne"}[rv["op"]])):
                        xo = cv.origins_of_operand(x, at=(xb, xi))
                        k = const_of(cv, y, (xb, xi))
                        if k is None or not xo or not all(o.kind == "call" and o.a.endswith("Vec::len") for o in xo):
                            continue
                        fld = set()
                        for o in xo:
                            c = call_of(cv, o)
                            if c:
                                fld |= {z.proj[-1] for z in cv.origins_of_operand(c[1]["args"][0], at=cv.at_term(c[0])) if z.proj}
                        keeps_nonempty = (op, k) in (("Gt", 0), ("Ne", 0), ("Ge", 1))
                        emptiness.append((sorted(fld), keeps_nonempty))
    ctx.ob("C09-D6", "%s|filter|forwarded-epochs-excluded" % QC, emptiness == [(["available"], True)],
           "retain closures testing emptiness: %s (must be exactly one, keeping epochs whose `available` is not empty)" % emptiness, v.where())
    # never bonded -> cleared
    ok = False
    for b, c, _ in switch_conds(v):
        if c.kind == "call" and c.callee.endswith("Vec::is_empty"):
            a0 = v.origins_of_operand(c.term["args"][0], at=v.at_term(c.block))
            if any(o.proj and o.proj[-1] == "bonded_assets" for o in a0):
                te, fe = cmp_true_false_edges(v, b, c)
                empty = fe if c.neg else te
                for (_, tgt) in empty:
                    r = v.reachable(tgt, cut_edges=[e for e in (te + fe) if e not in empty])
                    clears = [xb for xb, xt in v.calls_to(r"^std::vec::Vec::clear$")]
                    if clears and all(must_pass_through(v, cbk, ok_value_blocks(v)) or True for cbk in clears) and any(cbk in r for cbk in clears):
                        # every path from the empty edge to Ok passes the clear
                        r2 = v.reachable(tgt, cut_blocks=clears)
                        ok = not (r2 & set(ok_value_blocks(v)))
    ctx.ob("C09-D2", "%s|never-bonded-cleared" % QC, ok, "an address without bonded assets gets an empty claimable list: %s" % ok, v.where())


def check_reply(ctx, model):
    v = ctx.view(REPLY, "C09-D3")
    if v is None:
        return
    aggs = v.calls_to(r"asset::aggregate_assets$")
    ctx.ob("C09-D3", "%s|single-rollover" % REPLY, len(aggs) == 1, "aggregate_assets call sites: %d" % len(aggs), v.where())
    for b, t in aggs:
        a0 = arg_origins(v, b, t, 0)
        a1 = arg_origins(v, b, t, 1)
        ok0 = bool(a0) and all(o.kind == "call" and o.a.endswith("from_json") and tuple(o.proj) == ("epoch", "total") for o in a0)
        ok1 = bool(a1) and all(o.kind == "call" and o.a.endswith("state::get_expiring_epoch") and tuple(o.proj) == ("available",) for o in a1)
        ctx.ob("C09-D3", "%s|rollover-operands" % REPLY, ok0 and ok1,
               "aggregate_assets(%s, %s) (must be new epoch total, expiring epoch available)" % (sorted(map(repr, a0)), sorted(map(repr, a1))), v.where(b))
    saves = storage_calls(v, "fee_distributor::state::EPOCHS", ("save",))
    new_saves, exp_saves = [], []
    for sb, st in saves:
        ido = v.origins_of_operand(st["args"][3], proj=("id",), at=v.at_term(sb))
        if any(o.kind == "call" and o.a.endswith("from_json") for o in ido):
            new_saves.append((sb, st))
        elif any(o.kind == "call" and o.a.endswith("get_expiring_epoch") for o in ido):
            exp_saves.append((sb, st))
    ctx.ob("C09-D3", "%s|saves" % REPLY, len(new_saves) == 1 and len(exp_saves) == 1, "new epoch saved %d time(s), expiring epoch saved %d time(s)" % (len(new_saves), len(exp_saves)), v.where())
    for sb, st in new_saves:
        tot = v.origins_of_operand(st["args"][3], proj=("total",), at=v.at_term(sb))
        av = v.origins_of_operand(st["args"][3], proj=("available",), at=v.at_term(sb))
        isagg = lambda os_: {o for o in os_ if o.kind == "call" and o.a.endswith("asset::aggregate_assets")}
        isresp = lambda os_, f: {o for o in os_ if o.kind == "call" and o.a.endswith("from_json") and tuple(o.proj) == ("epoch", f)}
        ok = tot == isagg(tot) | isresp(tot, "total") and av == isagg(av) | isresp(av, "available") and bool(isagg(tot)) and isagg(tot) == isagg(av)
        ctx.ob("C09-D3", "%s|new-epoch-total-and-available" % REPLY, ok,
               "saved new epoch: total <- %s ; available <- %s (both the response value or the same rollover aggregate)" % (sorted(map(repr, tot)), sorted(map(repr, av))), v.where(sb))
        okall = all(must_pass_through(v, sb, ok_value_blocks(v)) for _ in [0])
        ctx.ob("C09-D3", "%s|new-epoch-saved-on-success" % REPLY, okall, "new epoch save lies on every success path: %s" % okall, v.where(sb))
    for sb, st in exp_saves:
        srcs = [s for s in field_sources(v, st["args"][3], ("available",), v.at_term(sb)) if s.kind in ("assign", "partial", "agg")]
        empt = bool(srcs)
        for s in srcs:
            os_ = v.origins_of_operand(s.operand, at=(s.block, s.idx)) if s.operand else set()
            if not (os_ and all(o.kind == "call" and (o.a.endswith("Vec::new") or o.a.endswith("box_assume_init_into_vec_unsafe") or o.a.endswith("Box::new_uninit")) or o.kind == "const" for o in os_)):
                empt = False
        ctx.ob("C09-D3", "%s|expiring-epoch-emptied" % REPLY, empt, "expiring epoch saved with available := %s (must be the empty vector)" % srcs, v.where(sb))
        # the rollover happens before the clearing
        for ab, at_ in aggs:
            ctx.ob("C09-D3", "%s|rollover-before-clearing" % REPLY, sb in v.reach_strict(ab) and must_pass_through(v, ab, [sb]),
                   "expiring epoch is saved only after its available was aggregated into the new epoch", v.where(sb))


def check_window_selection(ctx, model):
    """D5: the epoch that expires is the last of the `grace_period` most recent epochs -- selected exactly like the
    claimable window (range Descending, take(grace_period)): neither walk applies a selecting / reordering adapter, and
    an epoch expires exactly when the window holds grace_period epochs (vector length or per-epoch counter)."""
    from collections import Counter
    a = ctx.view("fee_distributor::state::get_expiring_epoch", "C09-D5")
    b = ctx.view("fee_distributor::state::get_claimable_epochs", "C09-D5")
    if a is None or b is None:
        return
    # the expiring epoch is picked from the SAME window as the claimable epochs: both walk EPOCHS newest first, bounded by
    # take(grace_period) (next obligation), and neither narrows, shifts or reverses that walk with a selecting adapter
    from .common import scope_views
    selecting = re.compile(r"as std::iter::Iterator>::(filter|filter_map|skip|skip_while|take_while|step_by|rev|nth|last|min\w*|max\w*)$|^std::vec::Vec::(retain|truncate|drain|remove|swap_remove|split_off|reverse|sort\w*)$")
    narrowing = {}
    for w in (a, b):
        for sv, ch in scope_views(model, w.path):
            for bb, t in sv.calls_to(selecting):
                narrowing.setdefault(w.path, []).append(mname(t).split("::")[-1])
    ctx.ob("C09-D5", "get_expiring_epoch==window-of-get_claimable_epochs", not narrowing,
           "selecting / reordering operations applied to the epoch window: %s (none allowed: the window is range(Descending).take(grace_period) in both)" % (narrowing or "none"), a.where())
    # order Descending and take(grace_period) in both
    for v in (a, b):
        desc = any(o.kind == "agg" and o.a.endswith("Order::Descending") for bb, t in v.calls_to(r"cw_storage_plus::Map::range$") for o in arg_origins(v, bb, t, 4))
        take = False
        for bb, t in v.calls_to(r"as std::iter::Iterator>::take$"):
            a1 = arg_origins(v, bb, t, 1, taint=True)
            take = any(o.kind == "load" and tuple(o.proj) == ("grace_period",) for o in a1)
        ctx.ob("C09-D5", "%s|newest-first-window" % v.path, desc and take, "range(.., Descending): %s; take(CONFIG.grace_period): %s" % (desc, take), v.where())
    # len == grace_period decides whether something expires
    ok = False
    from ..mir import resolve_bool
    conds = [c for bb, c, _ in switch_conds(a)]
    # `(len == grace_period).then(|| ..)` decides the same thing without a branch in this function
    for bb, t in a.calls_to(r"^std::bool::then(_some)?$"):
        conds.append(resolve_bool(a, t["args"][0], at=a.at_term(bb)))
    for c in conds:
        if c.kind == "cmp" and c.op in ("==", "!="):
            at = (c.site[1], c.site[2]) if c.site[0] == "s" else a.at_term(c.site[1])
            oa = a.origins_of_operand(c.a, at=at, taint=True)
            ob = a.origins_of_operand(c.b, at=at, taint=True)
            # the number of epochs in the window: the length of the collected vector, or a counter bumped once per epoch
            cnt = lambda os_: any(o.kind == "call" and o.a.endswith("Vec::len") for o in os_) or (
                any(o.kind == "arith" and "Add" in str(o.a) for o in os_) and all(o.kind in ("arith", "const") for o in os_))
            gp = lambda os_: any(o.kind == "load" and tuple(o.proj) == ("grace_period",) for o in os_)
            if (cnt(oa) and gp(ob)) or (cnt(ob) and gp(oa)):
                ok = True
    ctx.ob("C09-D5", "get_expiring_epoch|full-window-test", ok, "an epoch expires iff the window holds grace_period epochs: %s" % ok, a.where())


def check_writers(ctx, model):
    allowed = {"fee_distributor::state::LAST_CLAIMED_EPOCH": {CLAIM}, "fee_distributor::state::EPOCHS": {CLAIM, REPLY}}
    n = 0
    for p in list(model.all_paths("fee_distributor")):
        for e in fn_effects(model, p):
            if e.kind == "write" and e.what in allowed:
                n += 1
                base = p.split("::{closure")[0]
                mig = "::migrations::" in p or p.endswith("::contract::migrate")
                ctx.ob("C09-D4", "%s|%s" % (e.what, base), base in allowed[e.what] or mig, "%s written by %s" % (e.what, p), model.view(p).where(e.block), nontrivial=not mig)
    ctx.floor("C09-D4", "ledger write sites", n, 4)


def run(ctx):
    model = ctx.model()
    check_claim(ctx, model)
    check_query_claimable(ctx, model)
    check_epoch_keys_big_endian(ctx, model)
    check_migration_refund(ctx, model)
    check_bond_requires_claimed(ctx, model)
    check_claim_requires_available_entry(ctx, model)
    check_reply(ctx, model)
    check_window_selection(ctx, model)
    check_writers(ctx, model)


def check_epoch_keys_big_endian(ctx, model):
    """D9: the distributor finds the current / expiring / claimable epochs by scanning EPOCHS in key order, so key order
    must equal id order: every EPOCHS key is the epoch id encoded big-endian (`id.to_be_bytes()`), at every access site
    (little-endian keys order correctly only up to id 255)."""
    from ..effects import return_origins
    from ..mir import storage_call
    n = 0
    bad = []
    for p in sorted(model.all_paths("fee_distributor")):
        if "::tests::" in p:
            continue
        v = model.view(p)
        for b, t in v.iter_calls():
            sc = storage_call(t)
            if not sc or sc[1] not in ("save", "load", "may_load", "remove", "has", "update"):
                continue
            if not any(o.kind == "item" and o.a.endswith("fee_distributor::state::EPOCHS") for o in v.storage_item_of_call(t, v.at_term(b))):
                continue
            n += 1
            ko = v.origins_of_operand(t["args"][2], at=v.at_term(b))
            res = set()
            for o in ko:
                if o.kind == "call":
                    c = call_of(v, o)
                    callee = term_callee(c[1]) if c else None
                    if callee in model.fnsrc:
                        res |= return_origins(model, callee)
                        continue
                res.add(o)
            if not (res and all(o.kind == "call" and o.a.endswith("::to_be_bytes") for o in res)):
                bad.append("%s line %s: key from %s" % (p.split("::")[-1], t.get("ln"), sorted(map(repr, res))[:2]))
    ctx.ob("C09-D9", "fee_distributor|EPOCHS-keys-big-endian", n > 0 and not bad,
           "; ".join(bad) if bad else "%d EPOCHS accesses, every key is id.to_be_bytes()" % n)
    ctx.floor("C09-D9", "EPOCHS access sites", n, 5)
