"""C12 -- incentive flows are fully funded and fully returned."""
import itertools, re
from ..facts import mname, term_callee
from ..mir import switch_conds, cmp_true_false_edges, try_edges, storage_call, Origin
from ..dataflow import forward_flow, message_creations, call_of, cond_at
from ..guards import resolve, ok_return_blocks
from .common import storage_calls, arg_origins, ok_value_blocks, must_pass_through

EXPLANATION = """
L1 (configuration-sliced funding check): open_flow is analysed once per feasible configuration
(fee asset native|cw20) x (flow asset native|cw20) x (same asset yes|no); the switches on the discriminants of
the fee asset and of the flow asset, and the equality tests between their denoms/addresses, are decided by the
configuration (correlated branches), every other branch is taken both ways. In each configuration every path
to FLOWS.save must cross a 'funding tie': the success edge of `funds.iter().find(|c| .. c.amount == flow_asset.amount)`,
a comparison of a funds-derived amount (must_pay / the found coin) with the declared amount, or the construction of a
cw20 TransferFrom{owner: sender, recipient: contract, amount: flow_asset.amount}. Same for expand_flow (2 configurations).
L2: every message value created in open_flow / expand_flow / close_flow / claim reaches Response::add_message(s)
(forward value flow; a message pushed into a vector that is never attached is reported). L3: the refund computed by
close_flow must depend on the flow's asset_history (funded amount including expansions), not only on flow_asset.amount.
L4: in close_flow the FLOWS.remove and the refund lie on the same success paths and the refund goes to flow.flow_creator.
L6: the creation-fee message goes to the factory's fee_collector_addr with amount create_flow_fee.amount.
L8: positions are recorded only for LP actually received (shared with C11-K1/K2).
L7: in claim the stored new claimed total (claimed + reward) is the quantity a dominating `> funded amount` test rejects.
"""
ASSUMPTIONS = [
    "cw_utils::must_pay returns the amount of the single coin of the given denom in info.funds",
    "a cw20 TransferFrom that is attached to the response either moves exactly `amount` or aborts the transaction",
]

OPEN = "incentive::execute::open_flow::open_flow"
EXPAND = "incentive::execute::expand_flow::expand_flow"
CLOSE = "incentive::execute::close_flow::close_flow"
CLAIM = "incentive::claim::claim"


def _param_of_type(v, suffix):
    for i in range(1, v.argc + 1):
        if v.local_ty(i).endswith(suffix):
            return i
    return None


def classify_asset_origin(v, os_, flow_param):
    """FEE if the value derives from the factory config's create_flow_fee, FLOW if from the flow asset
    parameter (or the stored flow's asset)."""
    if not os_:
        return None
    kinds = set()
    for o in os_:
        if "create_flow_fee" in o.proj:
            kinds.add("FEE")
        elif o.kind == "param" and o.a == flow_param:
            kinds.add("FLOW")
        elif "flow_asset" in o.proj:
            kinds.add("FLOW")
        else:
            kinds.add("?")
    return kinds.pop() if len(kinds) == 1 else None


def config_excluded_edges(v, flow_param, cfg):
    """Edges infeasible under configuration cfg = {'FEE': 'NativeToken'|'Token'|None, 'FLOW': .., 'same': bool|None}."""
    excluded = set()
    for b, c, edges in switch_conds(v):
        if c.kind == "discr" and (c.enum or "").endswith("pool_network::asset::AssetInfo"):
            who = classify_asset_origin(v, v.origins_of_place(c.pl, at=c.at), flow_param)
            if who in ("FEE", "FLOW") and cfg.get(who):
                want = cfg[who]
                inv = {name: val for val, name in c.variants.items()}
                t = v.blocks[b]["t"]
                explicit = {val: tgt for val, tgt in t["targets"]}
                wanted_val = inv.get(want)
                if wanted_val in explicit:
                    keep = explicit[wanted_val]
                else:
                    keep = t["otherwise"]
                for _, tgt in v.edges_from(b):
                    if tgt != keep:
                        excluded.add((b, tgt))
        elif c.kind == "cmp" and c.op in ("==", "!=") and cfg.get("same") is not None:
            at = cond_at(v, c)
            oa = v.origins_of_operand(c.a, at=at)
            ob = v.origins_of_operand(c.b, at=at)
            ka = classify_asset_origin(v, oa, flow_param)
            kb = classify_asset_origin(v, ob, flow_param)
            idlike = lambda os_: all(o.proj and o.proj[-1] in ("denom", "contract_addr") for o in os_)
            if {ka, kb} == {"FEE", "FLOW"} and idlike(oa) and idlike(ob):
                te, fe = cmp_true_false_edges(v, b, c)
                truth = cfg["same"] if c.op == "==" else (not cfg["same"])
                for e in (fe if truth else te):
                    excluded.add(e)
    return excluded


def is_flow_amount(v, os_, flow_param):
    """Value derived from the declared flow amount (param flow_asset .amount), possibly after the fee
    subtraction (taint)."""
    return any(o.kind == "param" and o.a == flow_param and tuple(o.proj[:1]) == ("amount",) for o in os_)


def funds_derived(v, os_, info_param):
    for o in os_:
        if o.kind == "call" and o.a == "cw_utils::must_pay":
            return True
        if o.kind == "param" and o.a == info_param and tuple(o.proj[:1]) == ("funds",):
            return True
    return False


def tie_edges(ctx, model, v, flow_param, info_param, env_param):
    """Edges (and blocks, converted to their out-edges) that tie the recorded amount to what arrives."""
    edges = []
    desc = []
    def closure_ties(fb, ft):
        """the predicate closure of find / any / position compares the coin's amount with the declared amount"""
        for co in v.origins_of_operand(ft["args"][1], at=v.at_term(fb)):
            if co.kind != "closure" or co.a not in model.fnsrc:
                continue
            cv = model.view(co.a)
            cb = int(co.b.rsplit(":bb", 1)[1])
            chain = ((v.path, cb, "closure"),)
            for sb, st in cv.iter_calls():
                if not re.search(r"as std::cmp::PartialEq(<.*>)?>::eq$", mname(st)) or len(st["args"]) != 2:
                    continue
                at = cv.at_term(sb)
                oa = resolve(model, chain, cv, cv.origins_of_operand(st["args"][0], at=at), taint=True)
                ob = resolve(model, chain, cv, cv.origins_of_operand(st["args"][1], at=at), taint=True)
                el = lambda os_: any(((o.kind == "param" and o.b == cv.path and o.a == 2) or o.kind == "closure_arg")
                                     and o.proj and o.proj[-1] == "amount" for o in os_)
                fl = lambda os_: any(o.kind == "param" and o.b == v.path and o.a == flow_param and "amount" in o.proj for o in os_)
                if (el(oa) and fl(ob)) or (el(ob) and fl(oa)):
                    return True
        return False
    # T1: funds.iter().find(|c| .. c.amount == flow_asset.amount).ok_or(..)?
    for b in sorted(v.live_blocks()):
        te = try_edges(v, b)
        if not te:
            continue
        cont, brk, bblock, inner = te
        for o in v.origins_of_operand(inner, at=v.at_term(bblock)):
            c = call_of(v, o)
            if not c or not mname(c[1]).endswith("as std::iter::Iterator>::find"):
                continue
            fb, ft = c
            recv = v.origins_of_operand(ft["args"][0], at=v.at_term(fb))
            if not funds_derived(v, recv, info_param):
                continue
            if closure_ties(fb, ft):
                edges += cont
                desc.append("find(coin.amount == flow amount)? at bb%d" % fb)
    # T1b: the same test as a branch: `if !funds.iter().any(|c| .. c.amount == flow_asset.amount) { return Err }`
    for b, c, _ in switch_conds(v):
        if c.kind == "call" and c.callee.endswith("as std::iter::Iterator>::any") and len(c.term["args"]) == 2:
            recv = v.origins_of_operand(c.term["args"][0], at=v.at_term(c.block))
            if funds_derived(v, recv, info_param) and closure_ties(c.block, c.term):
                te, fe = cmp_true_false_edges(v, b, c)
                edges += fe if c.neg else te
                desc.append("any(coin.amount == flow amount) at bb%d" % c.block)
    # T3: comparison of a funds-derived amount with the declared amount
    for b, c, _ in switch_conds(v):
        if c.kind == "cmp" and c.op in ("==", "!="):
            at = cond_at(v, c)
            oa = v.origins_of_operand(c.a, at=at, taint=True)
            ob = v.origins_of_operand(c.b, at=at, taint=True)
            if (funds_derived(v, oa, info_param) and is_flow_amount(v, ob, flow_param) and not funds_derived(v, ob, info_param)) or \
               (funds_derived(v, ob, info_param) and is_flow_amount(v, oa, flow_param) and not funds_derived(v, oa, info_param)):
                te, fe = cmp_true_false_edges(v, b, c)
                edges += te if c.op == "==" else fe
                desc.append("funds amount == declared amount at bb%d" % b)
    # T2: TransferFrom{owner: sender, recipient: contract, amount: flow amount}
    for b, i, s in v.iter_stmts():
        rv = s["rv"]
        if rv["r"] == "agg" and rv.get("adt") == "cw20::Cw20ExecuteMsg" and rv.get("variant") == "TransferFrom":
            f = dict(zip(rv["fields"], rv["ops"]))
            amt = v.origins_of_operand(f["amount"], at=(b, i), taint=True)
            owner = v.origins_of_operand(f["owner"], at=(b, i))
            rec = v.origins_of_operand(f["recipient"], at=(b, i))
            ok_owner = bool(owner) and all(o.kind == "param" and o.a == info_param and tuple(o.proj) == ("sender",) for o in owner)
            ok_rec = bool(rec) and all(o.kind == "param" and o.a == env_param and tuple(o.proj) == ("contract", "address") for o in rec)
            if is_flow_amount(v, amt, flow_param) and ok_owner and ok_rec:
                # the message must be attached, otherwise it ties nothing
                tainted, sinks, ret = forward_flow(v, [s["lhs"]["l"]])
                if sinks:
                    edges += [(b, x) for x in v.succs(b)]
                    desc.append("attached TransferFrom(sender -> contract, flow amount) at bb%d" % b)
                else:
                    desc.append("UNATTACHED TransferFrom at bb%d (ties nothing)" % b)
    return edges, desc


def check_funding(ctx, model, path, configs, label):
    v = ctx.view(path, "C12-L1")
    if v is None:
        return
    flow_param = _param_of_type(v, "pool_network::asset::Asset")
    info_param = _param_of_type(v, "cosmwasm_std::MessageInfo")
    env_param = _param_of_type(v, "cosmwasm_std::Env")
    if not (flow_param and info_param and env_param):
        ctx.missing("C12-L1", "parameters (Asset, MessageInfo, Env) of %s" % path)
        return
    saves = storage_calls(v, "incentive::state::FLOWS", ("save",))
    if not saves:
        ctx.missing("C12-L1", "FLOWS.save in %s" % path)
        return
    ties, desc = tie_edges(ctx, model, v, flow_param, info_param, env_param)
    n = 0
    for cfg in configs:
        excl = config_excluded_edges(v, flow_param, cfg)
        name = ",".join("%s=%s" % (k, cfg[k]) for k in sorted(cfg))
        reach_cfg = v.reachable(0, cut_edges=excl)
        for sb, _ in saves:
            if sb not in reach_cfg:
                ctx.ob("C12-L1", "%s|%s|infeasible" % (label, name), True, "FLOWS.save not reachable in this configuration", v.where(sb), nontrivial=False)
                continue
            n += 1
            reach_cut = v.reachable(0, cut_edges=set(excl) | set(ties))
            ok = sb not in reach_cut
            ctx.ob("C12-L1", "%s|%s|funded" % (label, name), ok,
                   ("every path to FLOWS.save crosses a funding tie" if ok else
                    "FLOWS.save is reachable without any check tying the recorded amount to the tokens received") +
                   " (ties recognised: %s)" % desc, v.where(sb))
    return n


def check_messages_attached(ctx, model, path, rule="C12-L2"):
    v = ctx.view(path, rule)
    if v is None:
        return 0
    n = 0
    seen = {}
    for b, i, l, desc in message_creations(v, model):
        tainted, sinks, ret = forward_flow(v, [l])
        ok = bool(sinks) or ret
        n += 1
        key = "%s|%s" % (path, desc)
        k = seen.get(key, 0)
        seen[key] = k + 1
        ctx.ob(rule, "%s#%d" % (key, k), ok,
               "message %s %s" % (desc, "is attached to the response / returned" if ok else
                                  "is built but never attached to the response (and not returned)"), v.where(b))
    return n


def check_close(ctx, model):
    v = ctx.view(CLOSE, "C12-L3")
    if v is None:
        return
    removes = storage_calls(v, "incentive::state::FLOWS", ("remove",))
    if not removes:
        ctx.missing("C12-L4", "FLOWS.remove in close_flow")
    oks = ok_value_blocks(v)
    for rb, rt in removes:
        ctx.ob("C12-L4", "%s|remove-on-every-success" % CLOSE, bool(oks) and must_pass_through(v, rb, oks),
               "FLOWS.remove lies on every path to a successful return", v.where(rb))
    # refund messages
    n = 0
    for b, i, s in v.iter_stmts():
        rv = s["rv"]
        if rv["r"] != "agg":
            continue
        amt_op = rec_op = None
        if rv.get("adt") == "cosmwasm_std::BankMsg" and rv.get("variant") == "Send":
            f = dict(zip(rv["fields"], rv["ops"]))
            amt_op, rec_op = f["amount"], f["to_address"]
        elif rv.get("adt") == "cw20::Cw20ExecuteMsg" and rv.get("variant") == "Transfer":
            f = dict(zip(rv["fields"], rv["ops"]))
            amt_op, rec_op = f["amount"], f["recipient"]
        if amt_op is None:
            continue
        n += 1
        rec = v.origins_of_operand(rec_op, at=(b, i))
        ok_rec = bool(rec) and all(o.proj and o.proj[-1] == "flow_creator" for o in rec)
        ctx.ob("C12-L4", "%s|refund-recipient|%s" % (CLOSE, rv["variant"]), ok_rec,
               "refund recipient: %s (must be the flow's creator)" % sorted(map(repr, rec)), v.where(b))
        amt = v.origins_of_operand(amt_op, at=(b, i), taint=True)
        uses_hist = any("asset_history" in o.proj for o in amt) or any(
            o.kind == "call" and re.search(r"get_flow_asset_amount_at_epoch$", o.a) for o in amt)
        uses_claimed = any("claimed_amount" in o.proj for o in amt)
        # ... and through an accessor of the LATEST entry (expansions are cumulative totals keyed by epoch)
        latest = any(o.kind == "call" and re.search(r"BTreeMap::last_key_value$|BTreeMap::last_entry$|as std::iter::DoubleEndedIterator>::next_back$|"
                                                    r"as std::iter::Iterator>::last$", o.a) for o in amt)
        # the epoch-bounded lookup helper answers "funded as of epoch e"; a close needs the last entry whatever its epoch
        # (an expansion made in the flow's last epochs is keyed beyond the original end epoch)
        bounded = any(o.kind == "call" and re.search(r"get_flow_asset_amount_at_epoch$|BTreeMap::range$", o.a) for o in amt)
        latest = latest and not bounded
        earliest = any(o.kind == "call" and re.search(r"BTreeMap::first_key_value$|BTreeMap::first_entry$|BTreeMap::pop_first$", o.a) for o in amt)
        ctx.ob("C12-L3", "%s|refund-amount|%s" % (CLOSE, rv["variant"]), uses_hist and uses_claimed and latest and not earliest,
               "refund amount depends on asset_history (funded amount incl. expansions): %s, through a latest-entry accessor: %s (earliest-entry accessor: %s); on claimed_amount: %s"
               % (uses_hist, latest, earliest, uses_claimed), v.where(b))
    ctx.floor("C12-L4", "refund message variants in close_flow", n, 2)


def check_fee_message(ctx, model):
    v = ctx.view(OPEN, "C12-L6")
    if v is None:
        return
    n = 0
    for b, i, s in v.iter_stmts():
        rv = s["rv"]
        if rv["r"] != "agg":
            continue
        rec_op = amt_op = None
        if rv.get("adt") == "cosmwasm_std::BankMsg" and rv.get("variant") == "Send":
            f = dict(zip(rv["fields"], rv["ops"]))
            rec_op, amt_op = f["to_address"], f["amount"]
        elif rv.get("adt") == "cw20::Cw20ExecuteMsg" and rv.get("variant") == "TransferFrom":
            f = dict(zip(rv["fields"], rv["ops"]))
            rec_op, amt_op = f["recipient"], f["amount"]
        if rec_op is None:
            continue
        rec = v.origins_of_operand(rec_op, at=(b, i))
        if not (rec and all("fee_collector_addr" in o.proj for o in rec)):
            continue
        n += 1
        amt = v.origins_of_operand(amt_op, at=(b, i), taint=True)
        ok = any(tuple(o.proj[-2:]) == ("create_flow_fee", "amount") for o in amt) and not any(
            o.kind == "param" and "amount" in o.proj for o in amt)
        ctx.ob("C12-L6", "%s|fee-amount|%s" % (OPEN, rv["variant"]), ok,
               "fee message to the collector carries %s (must be create_flow_fee.amount)" % sorted(map(repr, amt))[:4], v.where(b))
    ctx.floor("C12-L6", "fee messages to the fee collector in open_flow", n, 2)


def run(ctx):
    model = ctx.model()
    check_expand_same_asset(ctx, model)
    check_expand_reads_after_reset(ctx, model)
    check_expand_reset_amount(ctx, model)
    # L9: the v1.0.6 storage migration keeps every flow ledger (funded asset, claimed_amount, emitted_tokens, epochs)
    from .common import check_migration_copy
    check_migration_copy(ctx, model, "C12-L9", "incentive::migrations::migrate_to_v106", "pool_network::incentive::Flow", {"flow_label", "asset_history"})
    # L8: LP positions share the contract's balance with the flows (an LP token can be the reward denom): a position is
    # recorded only for LP actually received (C11-K1/K2's rules), else its withdrawal is paid out of the flows' funds
    from .C11 import check_vfs, check_position_fn, OPEN as _OP, EXPAND as _EX
    px = ctx.renamed({"C11-K2": "C12-L8", "C11-K1": "C12-L8"})
    check_vfs(px, model)
    check_position_fn(px, model, _OP)
    check_position_fn(px, model, _EX)
    check_claim_bound(ctx, model)
    kinds = ["NativeToken", "Token"]
    cfgs = []
    for fee in kinds:
        for flow in kinds:
            if fee == flow:
                cfgs.append({"FEE": fee, "FLOW": flow, "same": True})
                cfgs.append({"FEE": fee, "FLOW": flow, "same": False})
            else:
                cfgs.append({"FEE": fee, "FLOW": flow, "same": False})
    n1 = check_funding(ctx, model, OPEN, cfgs, "open_flow") or 0
    n2 = check_funding(ctx, model, EXPAND, [{"FLOW": "NativeToken"}, {"FLOW": "Token"}], "expand_flow") or 0
    ctx.floor("C12-L1", "feasible funding configurations", n1 + n2, 8)
    m = 0
    for p in (OPEN, EXPAND, CLOSE, CLAIM):
        m += check_messages_attached(ctx, model, p)
    ctx.floor("C12-L2", "message creation sites", m, 9)
    check_close(ctx, model)
    check_fee_message(ctx, model)


def check_claim_bound(ctx, model):
    """L7: in claim the new claimed total that is stored into flow.claimed_amount (claimed so far + this reward) is the
    very quantity compared against the flow's funded amount beforehand: some comparison `new total > funded` rejects, its
    passing edge dominates the store, and the transfer amount is the reward that was added."""
    from ..dataflow import expr_shape, norm_shape
    p = "incentive::claim::claim"
    v = ctx.view(p, "C12-L7")
    if v is None:
        return
    stores = []
    for b, i, s_ in v.iter_stmts():
        F = v._named_fields(s_["lhs"]["p"])
        if F and F[-1] == "claimed_amount" and s_["rv"]["r"] == "use":
            stores.append((b, i, norm_shape(expr_shape(v, s_["rv"]["op"], (b, i), depth=3))))
    if not stores:
        ctx.missing("C12-L7", "assignment to flow.claimed_amount in claim")
        return
    for sb, si, X in stores:
        is_sum = isinstance(X, tuple) and X[0] == "add"
        pass_edges = []
        funded = []
        for b, c, _ in switch_conds(v):
            if c.kind != "cmp" or c.op not in (">", "<", ">=", "<="):
                continue
            at = cond_at(v, c)
            a, bb_ = norm_shape(expr_shape(v, c.a, at, depth=3)), norm_shape(expr_shape(v, c.b, at, depth=3))
            te, fe = cmp_true_false_edges(v, b, c)
            if a == X and c.op == ">":
                pass_edges += fe
                funded.append(v.origins_of_operand(c.b, at=at, taint=True))
            elif bb_ == X and c.op == "<":
                pass_edges += fe
                funded.append(v.origins_of_operand(c.a, at=at, taint=True))
        ok_funded = bool(funded) and all(any(o.kind == "call" and o.a.endswith("get_flow_asset_amount_at_epoch") or (o.proj and "asset_history" in o.proj) for o in f) for f in funded)
        ok = is_sum and bool(pass_edges) and v.edge_dominated(sb, pass_edges) and ok_funded
        ctx.ob("C12-L7", "%s|new-claimed-total-bounded-by-funding" % p, ok,
               "stored claimed total is a sum: %s; a rejecting `that sum > funded amount` dominates the store: %s; bound derived from the flow's funded amount: %s"
               % (is_sum, bool(pass_edges) and v.edge_dominated(sb, pass_edges), ok_funded), v.where(sb))


def check_expand_same_asset(ctx, model):
    """L1 (expand): an expansion adds to the flow's funded amount only tokens of the flow's OWN reward asset: the FLOWS.save
    in expand_flow is dominated by `flow.flow_asset.info == flow_asset.info` whatever the kind of the offered asset."""
    v = ctx.view(EXPAND, "C12-L1")
    if v is None:
        return
    saves = storage_calls(v, "incentive::state::FLOWS", ("save",))
    flow_param = _param_of_type(v, "pool_network::asset::Asset")
    edges = []
    for b, c, _ in switch_conds(v):
        if c.kind != "cmp" or c.op not in ("==", "!="):
            continue
        at = cond_at(v, c)
        oa, ob = v.origins_of_operand(c.a, at=at), v.origins_of_operand(c.b, at=at)
        # the stored flow (loaded from FLOWS directly or found in the collected FLOWS range)
        stored = lambda os_: bool(os_) and all(o.kind in ("load", "call") and tuple(o.proj[-2:]) == ("flow_asset", "info") for o in os_)
        offered = lambda os_: bool(os_) and all(o.kind == "param" and o.a == flow_param and tuple(o.proj) == ("info",) for o in os_)
        if (stored(oa) and offered(ob)) or (stored(ob) and offered(oa)):
            te, fe = cmp_true_false_edges(v, b, c)
            edges += te if c.op == "==" else fe
    ok = bool(saves) and bool(edges) and all(v.edge_dominated(sb, edges) for sb, _ in saves)
    ctx.ob("C12-L1", "expand_flow|same-asset-as-the-flow", ok,
           "FLOWS.save dominated by stored flow asset == offered asset: %s" % ok, v.where(saves[0][0]) if saves else v.where())


def check_expand_reads_after_reset(ctx, model):
    """L1 (expand, state handling): when an expansion resets the flow (history cleared, flow_asset netted of claims,
    claimed_amount zeroed), the cumulative total it then records must be computed from the flow AFTER the reset: no value
    read from asset_history before the `clear()` may feed the entry inserted after it (a pre-reset total written back into
    the cleared history re-adds what was already claimed)."""
    v = ctx.view(EXPAND, "C12-L1")
    if v is None:
        return
    resets = [b for b, t in v.calls_to(r"BTreeMap::clear$") if any("asset_history" in o.proj for o in v.origins_of_operand(t["args"][0], at=v.at_term(b), taint=True))]
    inserts = v.calls_to(r"BTreeMap::insert$")
    if not resets or not inserts:
        ctx.missing("C12-L1", "asset_history.clear() / asset_history.insert(..) in expand_flow")
        return
    bad = []
    for ib, it in inserts:
        work = list(v.origins_of_operand(it["args"][2], proj=("0",), at=v.at_term(ib)))
        seen = set()
        while work:
            o = work.pop()
            if o in seen or o.kind != "call":
                continue
            seen.add(o)
            c = call_of(v, o)
            if c is None:
                continue
            cb, ct = c
            n = mname(ct)
            if re.search(r"BTreeMap::(get|get_mut|last_key_value|first_key_value|range)$|get_flow_asset_amount_at_epoch$", n):
                for rb in resets:
                    if rb in v.reach_strict(cb) and ib in v.reach_strict(rb) and cb not in v.reach_strict(rb):
                        bad.append("%s at line %s is read before the reset at line %s and stored after it" % (n.split("::")[-1], ct.get("ln"), v.line_of_block(rb)))
                continue
            if re.search(r"checked_add$|as std::ops::Add>::add$", n):
                for a in ct["args"]:
                    work += list(v.origins_of_operand(a, at=v.at_term(cb)))
    ctx.ob("C12-L1", "expand_flow|recorded-total-read-after-the-reset", not bad, "; ".join(bad) if bad else "the inserted cumulative total is computed from reads made after the reset", v.where(inserts[0][0]))


def check_expand_reset_amount(ctx, model):
    """L1 (expand, reset): the amount a reset flow continues with is `<latest funded total> - claimed_amount`, where the
    funded total comes from the STORED flow (its asset_history, or its own flow_asset.amount when it was never expanded);
    the expansion offered by the message is added afterwards and must not stand in for it (a never-expanded flow opened
    for more than FLOW_EXPANSION_LIMIT epochs would otherwise lose its original funding at its first expansion)."""
    v = ctx.view(EXPAND, "C12-L1")
    if v is None:
        return
    flow_param = _param_of_type(v, "pool_network::asset::Asset")
    subs = []
    for b, t in v.calls_to(r"(saturating_sub|checked_sub|as std::ops::Sub>::sub)$"):
        if len(t["args"]) < 2:
            continue
        o1 = v.origins_of_operand(t["args"][1], at=v.at_term(b))
        if o1 and all(o.proj and o.proj[-1] == "claimed_amount" for o in o1):
            subs.append((b, t))
    if not subs:
        ctx.missing("C12-L1", "`<funded total> - flow.claimed_amount` in expand_flow's reset")
        return
    for b, t in subs:
        os_ = v.origins_of_operand(t["args"][0], at=v.at_term(b), taint=True)
        from_msg = [o for o in os_ if o.kind == "param" and o.a == flow_param]
        stored = [o for o in os_ if o.kind in ("load", "call") and ("asset_history" in o.proj or "flow_asset" in o.proj)]
        ok = bool(stored) and not from_msg
        ctx.ob("C12-L1", "expand_flow|reset-amount-from-the-stored-flow", ok,
               "minuend origins: stored flow %d, message's expansion asset %d" % (len(stored), len(from_msg)), v.where(b))
