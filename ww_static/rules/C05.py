"""C05 -- flash-loan vault: depositor share price never decreases (structural part)."""
import re
from fractions import Fraction
from ..dataflow import (two_var_table, forward_flow, message_creations, single_var_guard, single_var_regions, single_var_walk)
from .common import arg_origins, ok_value_blocks
from .poolvalue import (pending_fee_subtracted, check_v4_min_liquidity, check_no_lp_outflow, check_v5_rounding)
from .C06 import check_deposit

EXPLANATION = """
V1: vault deposit, withdraw and the share query each subtract the pending protocol-fee ledger from the balance they
price with (flash_loan / after_trade compare raw balances by design). V2: the balance a deposit is priced against is reduced by the deposit exactly when the
deposit has already arrived (native asset), and by nothing for a cw20 asset whose TransferFrom executes afterwards
(provenance evaluated per asset-kind configuration). V3: a native deposit is accepted only when the
funds sent equal the declared amount (both orderings of a mismatch rejected) and a cw20 deposit is pulled with an
attached TransferFrom(sender -> vault, amount). V4: the first deposit mints MINIMUM_LIQUIDITY_AMOUNT to the vault
itself, only when total share is zero, a zero user share is rejected, and the vault sends nothing but Mint/Burn to
its LP token. V5: no ceil-family rounding in deposit / withdraw / share query. V6: no mint while a loan is outstanding
(shared with C06-X4). V7: a loan settles only when the balance covers the old balance plus protocol, flash-loan AND burn
fee (the burn is paid out of the vault, so a fee left out of the requirement is taken from depositors; shared with C06-X3). Share-price monotonicity and pro-rata bounds are numerical and are not decided.
"""
ASSUMPTIONS = ["the numerical invariants need a dynamic or symbolic technique"]

DEP = "vault::execute::deposit::deposit"
WD = "vault::execute::receive::withdraw::withdraw"
GS = "vault::queries::get_share::get_share"


def run(ctx):
    model = ctx.model()
    # the withdraw hook only honours the LP token itself (else a foreign cw20 could burn the locked minimum stake)
    from .C16 import check_hook_authorisation
    from .poolvalue import check_direct_withdraw
    check_share_formula(ctx, model)
    check_direct_withdraw(ctx, model, "C05-V4", "vault::contract::execute", r"^vault::execute::receive::withdraw::withdraw$", "vault::state::CONFIG", ("lp_asset", "#NativeToken", "denom"))
    check_hook_authorisation(ctx, model, rule="C05-V4", only={"vault"})
    for p in (DEP, WD, GS):
        v = ctx.view(p, "C05-V1")
        if v is None:
            continue
        ok = pending_fee_subtracted(model, p, "vault::state::COLLECTED_PROTOCOL_FEES")
        ctx.ob("C05-V1", "%s|pending-fees-excluded" % p, ok, "prices with balance %s the pending protocol fees" % ("minus" if ok else "WITHOUT subtracting"), v.where())
    v = ctx.view(DEP, "C05-V3")
    if v is not None:
        amount = None
        for i in range(1, v.argc + 1):
            if v.local_ty(i).endswith("cosmwasm_std::Uint128"):
                amount = i
        msgs = [b for b, i, l, d in message_creations(v, model)]
        info_p = next((i for i in range(1, v.argc + 1) if v.local_ty(i).endswith("cosmwasm_std::MessageInfo")), None)
        # what was sent: derived from info.funds, summed by an iterator or accumulated in a loop
        sent = lambda os_: bool(os_) and (any(o.kind == "call" and o.a.endswith("Iterator>::sum") for o in os_) or
                                          any(o.kind == "param" and o.a == info_p and tuple(o.proj[:1]) == ("funds",) for o in os_)) \
            and not any(o.kind == "param" and o.a == amount for o in os_)
        decl = lambda os_: bool(os_) and all(o.kind == "param" and o.a == amount and not o.proj for o in os_)
        # native branch: restrict to NativeToken vault asset
        from ..dataflow import variant_excluded_edges, region_walk, cond_at, switch_conds, cmp_truth, FLIP, REGIONS
        pred = lambda os_: bool(os_) and all(o.kind == "load" and tuple(o.proj) == ("asset_info",) for o in os_)
        excl = variant_excluded_edges(v, "pool_network::asset::AssetInfo", pred, "NativeToken")
        tracked = {}
        for b, c, _ in switch_conds(v):
            if c.kind == "cmp":
                at = cond_at(v, c)
                oa, ob = v.origins_of_operand(c.a, at=at), v.origins_of_operand(c.b, at=at)
                ta, tb = v.origins_of_operand(c.a, at=at, taint=True), v.origins_of_operand(c.b, at=at, taint=True)
                if sent(ta) and decl(ob):
                    tracked[b] = (c, "fwd")
                elif sent(tb) and decl(oa):
                    tracked[b] = (c, "rev")
        tab = {}
        for r in REGIONS:
            def decide(b, c, r=r):
                t = tracked.get(b)
                if not t:
                    return None
                op = t[0].op if t[1] == "fwd" else FLIP[t[0].op]
                return cmp_truth(op, r)
            reach = region_walk(v, decide, cut_edges=excl)
            tab[r] = bool(reach & set(msgs))
        ctx.ob("C05-V3", "%s|native-funds-equal-amount" % DEP, bool(tracked) and bool(excl) and tab == {"<": False, "=": True, ">": False},
               "native vault: mint messages reachable for funds sent vs declared amount: %s (must be only when equal)" % tab, v.where())
        tf = False
        for b, i, s in v.iter_stmts():
            rv = s["rv"]
            if rv["r"] == "agg" and rv.get("adt") == "cw20::Cw20ExecuteMsg" and rv.get("variant") == "TransferFrom":
                f = dict(zip(rv["fields"], rv["ops"]))
                a = v.origins_of_operand(f["amount"], at=(b, i))
                o_ = v.origins_of_operand(f["owner"], at=(b, i))
                r_ = v.origins_of_operand(f["recipient"], at=(b, i))
                tainted, sinks, ret = forward_flow(v, [s["lhs"]["l"]])
                tf = decl(a) and bool(o_) and all(x.kind == "param" and tuple(x.proj) == ("sender",) for x in o_) and bool(r_) and all(
                    x.kind == "param" and tuple(x.proj) == ("contract", "address") for x in r_) and bool(sinks)
        ctx.ob("C05-V3", "%s|cw20-pulled" % DEP, tf, "cw20 deposit pulled by an attached TransferFrom(sender -> vault, amount): %s" % tf, v.where())
    # V2: the deposit is excluded from the balance it is priced against only if it has already arrived:
    # a native deposit is part of the balance (subtract it), a cw20 deposit is pulled later (subtract nothing)
    if v is not None:
        from ..dataflow import variant_excluded_edges, const_of
        pred = lambda os_: bool(os_) and all(o.kind == "load" and tuple(o.proj) == ("asset_info",) for o in os_)
        for kind, want in (("NativeToken", "amount"), ("Token", "zero")):
            excl = variant_excluded_edges(v, "pool_network::asset::AssetInfo", pred, kind)
            from ..dataflow import consistent_reach
            reach, _cut = consistent_reach(v, excl)
            got = set()
            n_sub = 0
            with v.restricted(reach):
                for b, t in v.calls_to(r"Uint128::checked_sub$"):
                    if b not in reach:
                        continue
                    a0 = v.origins_of_operand(t["args"][0], at=v.at_term(b), taint=True)
                    if not any(o.kind == "call" and o.a.endswith("AssetInfo::query_pool") for o in a0):
                        continue
                    a1 = v.origins_of_operand(t["args"][1], at=v.at_term(b))
                    if any(o.kind == "load" and o.a.endswith("COLLECTED_PROTOCOL_FEES") for o in a1):
                        continue
                    n_sub += 1
                    for o in a1:
                        if o.kind == "param" and o.a == amount and not o.proj:
                            got.add("amount")
                        elif (o.kind == "call" and o.a.endswith("Uint128::zero")) or (o.kind == "const" and str(o.a) == "0"):
                            got.add("zero")
                        else:
                            got.add(repr(o))
            ok = (got == {want}) if want == "amount" else (got <= {"zero"})
            ctx.ob("C05-V2", "%s|deposit-excluded-iff-arrived|%s" % (DEP, kind), bool(excl) and ok,
                   "%s vault: the pricing balance is reduced by %s (must be %s)" % (kind, sorted(got) or "nothing", "the deposit" if want == "amount" else "nothing / zero"), v.where())
    check_v4_min_liquidity(ctx, model, DEP, "C05-V4")
    check_no_lp_outflow(ctx, model, "vault", "C05-V4", "lp_asset")
    check_v5_rounding(ctx, model, [DEP, WD, GS], "C05-V5")
    # V6: the loan counter protocol that keeps deposits out while a loan is outstanding (decided by C06-X4's rules,
    # filed here because a deposit priced against the lent-out balance dilutes the share price)
    from .C06 import check_flash_loan, check_after_trade
    px = ctx.renamed({"C06-X4": "C05-V6", "C06-X3": "C05-V7", "C06-X2": "C05-V7"})   # V7: settlement requires old balance + all three fees
    check_deposit(px, model)
    check_flash_loan(px, model)
    check_after_trade(px, model)
    # ... and the pending-fee ledger the share price is computed from grows by exactly this loan's protocol fee (C07-F1)
    from .C07 import check_vault_after_trade
    check_vault_after_trade(ctx.renamed({"C07-F1": "C05-V7", "C07-F2": "C05-V7"}), model)


def check_share_formula(ctx, model):
    """V8: the shares minted to the depositor are amount * total_share / total_deposits in integer arithmetic (product
    first, one floor division at the end) on a non-empty vault, and amount - MINIMUM_LIQUIDITY_AMOUNT on an empty one;
    total_deposits = balance - pending protocol fees - (the deposit, when it has already arrived). Dividing by a
    pre-computed (truncated) price, or dividing before multiplying, rounds in the depositor's favour for large amounts."""
    from ..dataflow import expr_shape, norm_shape
    from ..facts import mname
    v = ctx.view(DEP, "C05-V8")
    if v is None:
        return
    amount = None
    for i in range(1, v.argc + 1):
        if v.local_ty(i).endswith("cosmwasm_std::Uint128"):
            amount = "param(%d)" % i
    env_addr = None
    user_mints = []
    for b, t in v.calls_to(r"mint_lp_token_msg$"):
        rec = v.origins_of_operand(t["args"][1], at=v.at_term(b))
        if rec and all(o.kind == "param" and tuple(o.proj) == ("sender",) for o in rec):
            user_mints.append((b, norm_shape(expr_shape(v, t["args"][-1], v.at_term(b), depth=6))))
    if len(user_mints) != 1 or amount is None:
        ctx.missing("C05-V8", "single mint to the depositor in deposit")
        return
    b, sh = user_mints[0]
    alts = list(sh[1:]) if isinstance(sh, tuple) and sh[0] == "phi" else [sh]

    def has(sh_, needle):
        return needle in repr(sh_)
    first = [a for a in alts if isinstance(a, tuple) and a[0] == "sub" and a[1][0] == amount and has(a[1][1], "MINIMUM_LIQUIDITY_AMOUNT")]
    later = []
    for a in alts:
        if not (isinstance(a, tuple) and a[0] == "div" and len(a[1]) == 2):
            continue
        num, den = a[1]
        ok_num = isinstance(num, tuple) and num[0] == "mul" and len(num[1]) == 2 and amount in num[1] and any(isinstance(x, tuple) and x[0] == "get_total_share" for x in num[1])
        ok_den = isinstance(den, tuple) and den[0] == "sub" and has(den, "query_pool") and has(den, "COLLECTED_PROTOCOL_FEES).amount") and not has(den, "ALL_TIME")
        if ok_num and ok_den:
            later.append(a)
    ok = len(alts) == 2 and len(first) == 1 and len(later) == 1
    ctx.ob("C05-V8", "%s|share=amount*supply/deposits" % DEP, ok,
           "depositor's shares computed as %s (expected phi of amount - MINIMUM_LIQUIDITY_AMOUNT and (amount * total_share) / (balance - pending fees - arrived deposit))" % (sh,), v.where(b))
