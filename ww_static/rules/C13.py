"""C13 -- incentive rewards: weights add up; claims are bounded, single and as quoted."""
import re
from collections import Counter
from fractions import Fraction
from ..facts import mname, term_callee
from ..mir import switch_conds, cmp_true_false_edges, storage_call
from ..dataflow import (const_of, two_var_table, call_of, cond_at, message_creations, field_sources)
from ..guards import resolve
from .common import storage_calls, arg_origins, ok_value_blocks, must_pass_through

EXPLANATION = """
W1: in open_position / expand_position / close_position the value applied to GLOBAL_WEIGHT (inside the update closure,
resolved through the captured variable) and to ADDRESS_WEIGHT is the same calculate_weight call result, applied in the
same direction (add/add or subtract/subtract), and ADDRESS_WEIGHT_HISTORY[(receiver, epoch+1)] receives the value saved
in ADDRESS_WEIGHT. W2: calculate_weight truncates and clamps, so it is not additive; the weight removed at close is
computed from the position's stored total, therefore the weight added by expand_position must depend on the stored
position amount as well (telescoping), not only on the increment. W3 (as quoted): the per-epoch reward has the same
operator skeleton in claim and in the rewards query (emission share times weight ratio, three levels deep, spelling
normalised); in both, an epoch's cumulative emission is inserted only under a test that the map has no entry for that
epoch; claim's per-call counter is compared with EPOCH_CLAIM_CAP so that the reward computation is reachable for
counter values up to 100 and not for 101 (ordering-domain walk). W4: the `current == last
claimed` test rejects before any effect and LAST_CLAIMED_EPOCH.save lies on every success path. W5: a reward transfer
is built only when reward <= emission_per_epoch and reward + claimed <= funded (ordering-domain walk). W6:
calculate_weight rejects durations outside [86400, 31556926] and returns max(computed, amount).
"""
ASSUMPTIONS = [
    "sum of reward shares <= 100% for every placement of the permissionless snapshot is history-dependent and not decided here",
    "monotonicity of the weight polynomial in amount and duration is numerical and not decided here",
]

OPEN = "incentive::execute::open_position::open_position"
EXPAND = "incentive::execute::expand_position::expand_position"
CLOSE = "incentive::execute::close_position::close_position"
CLAIM = "incentive::claim::claim"
REWARDS = "incentive::queries::get_rewards::get_rewards"
WEIGHT = "incentive::weight::calculate_weight"


def weight_sites(model, v):
    """(global_dir, global_origins), (addr_dir, addr_origins): how the weight value is applied."""
    res = {}
    # GLOBAL_WEIGHT.update(closure)
    for b, t in storage_calls(v, "incentive::state::GLOBAL_WEIGHT", ("update",)):
        for o in v.origins_of_operand(t["args"][2], at=v.at_term(b)):
            if o.kind == "closure" and o.a in model.fnsrc:
                cv = model.view(o.a)
                cb = int(o.b.rsplit(":bb", 1)[1])
                chain = ((v.path, cb, "closure"),)
                for xb, xt in cv.iter_calls():
                    n = mname(xt)
                    m_ = re.search(r"Uint128::(checked_add|checked_sub|saturating_sub|saturating_add)$", n)
                    if m_:
                        arg = resolve(model, chain, cv, cv.origins_of_operand(xt["args"][1], at=cv.at_term(xb)))
                        res["global"] = ("add" if "add" in m_.group(1) else "sub", arg, b)
    # ADDRESS_WEIGHT.save(value) where value = checked_add/saturating_sub(loaded, weight)
    for b, t in storage_calls(v, "incentive::state::ADDRESS_WEIGHT", ("save",)):
        for o in v.origins_of_operand(t["args"][3], at=v.at_term(b)):
            c = call_of(v, o)
            if c:
                m_ = re.search(r"Uint128::(checked_add|checked_sub|saturating_sub|saturating_add)$", mname(c[1]))
                if m_:
                    arg = v.origins_of_operand(c[1]["args"][1], at=v.at_term(c[0]))
                    prev = v.origins_of_operand(c[1]["args"][0], at=v.at_term(c[0]))
                    res["addr"] = ("add" if "add" in m_.group(1) else "sub", arg, b, prev)
    return res


def check_weight_pairing(ctx, model, p, want_dir):
    v = ctx.view(p, "C13-W1")
    if v is None:
        return
    r = weight_sites(model, v)
    if "global" not in r or "addr" not in r:
        ctx.ob("C13-W1", "%s|weight-sites" % p, False, "GLOBAL_WEIGHT.update / ADDRESS_WEIGHT.save with an add/sub of the weight not found: %s" % sorted(r), v.where(),
               kind="unrecognised")
        return
    g, a = r["global"], r["addr"]
    def from_weight(os_):
        # the value is a calculate_weight result, or a difference of two such results (telescoping increment)
        for o in os_:
            if o.kind == "call" and o.a == WEIGHT:
                continue
            c = call_of(v, o)
            if c and mname(c[1]).endswith("Uint128::checked_sub"):
                a0 = v.origins_of_operand(c[1]["args"][0], at=v.at_term(c[0]))
                a1 = v.origins_of_operand(c[1]["args"][1], at=v.at_term(c[0]))
                if a0 and a1 and all(x.kind == "call" and x.a == WEIGHT for x in a0 | a1):
                    continue
            return False
        return bool(os_)
    same = bool(g[1]) and g[1] == a[1] and from_weight(g[1])
    ctx.ob("C13-W1", "%s|same-weight-value" % p, same,
           "GLOBAL_WEIGHT %s %s ; ADDRESS_WEIGHT %s %s (must be one value derived from calculate_weight)" % (g[0], sorted(map(repr, g[1])), a[0], sorted(map(repr, a[1]))),
           v.where(g[2]))
    ctx.ob("C13-W1", "%s|direction" % p, g[0] == a[0] == want_dir, "global: %s, address: %s, expected: %s" % (g[0], a[0], want_dir), v.where(g[2]))
    prev_ok = bool(a[3]) and all(o.kind == "load" and o.a.endswith("::state::ADDRESS_WEIGHT") for o in a[3])
    # the value is read, saved and recorded under one and the same address (the position's owner)
    keys = {}
    for nm, item, meths, ki in (("read", "ADDRESS_WEIGHT", ("may_load", "load"), 2), ("save", "ADDRESS_WEIGHT", ("save",), 2),
                                ("positions", "OPEN_POSITIONS", ("update", "save", "may_load"), 2)):
        for kb, kt in storage_calls(v, "incentive::state::%s" % item, meths):
            keys.setdefault(nm, set()).update((o.kind, o.a, o.proj) for o in v.origins_of_operand(kt["args"][ki], at=v.at_term(kb)))
    for kb, kt in storage_calls(v, "incentive::state::ADDRESS_WEIGHT_HISTORY", ("update", "save")):
        keys.setdefault("history", set()).update((o.kind, o.a, o.proj) for o in v.origins_of_operand(kt["args"][2], proj=("0",), at=v.at_term(kb)))
    same_key = len(keys) >= 3 and len({frozenset(x) for x in keys.values()}) == 1 and all(keys.values())
    ctx.ob("C13-W1", "%s|address-weight-read-modify-write" % p, prev_ok and same_key,
           "previous value from %s; keys used: %s (read / save / history / positions must be the same address)" % (
               sorted(map(repr, a[3])), {k: sorted(map(str, x)) for k, x in keys.items()}), v.where(a[2]))
    # history gets the saved user weight, keyed (receiver, epoch + 1)
    hist = storage_calls(v, "incentive::state::ADDRESS_WEIGHT_HISTORY", ("update", "save"))
    if not hist:
        ctx.ob("C13-W1", "%s|history" % p, False, "ADDRESS_WEIGHT_HISTORY is not updated", v.where())
    saved = set()
    for b, t in storage_calls(v, "incentive::state::ADDRESS_WEIGHT", ("save",)):
        saved |= v.origins_of_operand(t["args"][3], at=v.at_term(b))
    for b, t in hist:
        ok = False
        for o in v.origins_of_operand(t["args"][3], at=v.at_term(b)):
            if o.kind == "closure" and o.a in model.fnsrc:
                cv = model.view(o.a)
                cb = int(o.b.rsplit(":bb", 1)[1])
                ro = resolve(model, ((v.path, cb, "closure"),), cv, cv.origins_of_place({"l": 0, "p": []}))
                ok = bool(ro) and ro <= saved | {x for x in ro if x.kind == "err"} and bool(ro & saved)
        key = v.origins_of_operand(t["args"][2], at=v.at_term(b), taint=True)
        plus1 = any(o.kind == "arith" and o.a in ("AddWithOverflow", "Add") for o in key) and any(
            o.kind == "call" and o.a.endswith("helpers::get_current_epoch") for o in key)
        ctx.ob("C13-W1", "%s|history-value-and-key" % p, ok and plus1,
               "history value is the saved address weight: %s; key is current epoch + 1: %s" % (ok, plus1), v.where(b))


def check_telescoping(ctx, model):
    """W2."""
    v = ctx.view(EXPAND, "C13-W2")
    cv_ = ctx.view(CLOSE, "C13-W2")
    if v is None or cv_ is None:
        return
    # what close removes: calculate_weight(duration, <stored position amount>)
    close_arg = set()
    for b, t in cv_.calls_to(r"^incentive::weight::calculate_weight$"):
        close_arg |= cv_.origins_of_operand(t["args"][1], at=cv_.at_term(b), taint=True)
    close_uses_total = any(o.kind == "load" and o.a.endswith("::state::OPEN_POSITIONS") for o in close_arg)
    add_dep = set()
    r = weight_sites(model, v)
    if "global" in r:
        for o in r["global"][1]:
            c = call_of(v, o)
            if c:
                for a in c[1]["args"]:
                    add_dep |= v.origins_of_operand(a, at=v.at_term(c[0]), taint=True)
    # does the added weight depend on the stored position (old total)?
    dep_stored = any((o.kind == "load" and o.a.endswith("::state::OPEN_POSITIONS")) or o.kind == "closure_arg" for o in add_dep) or any(
        o.kind == "call" and "OPEN_POSITIONS" in repr(o) for o in add_dep)
    ctx.ob("C13-W2", "%s|telescoping" % EXPAND, (not close_uses_total) or dep_stored,
           "close_position removes calculate_weight(stored total): %s; expand_position's added weight depends on the stored position amount: %s "
           "(it depends on %s). calculate_weight is not additive, so adding f(delta) and removing f(total) lets GLOBAL_WEIGHT drift below the sum of address weights"
           % (close_uses_total, dep_stored, sorted(map(repr, add_dep))[:6]), v.where())


def check_snapshot_before_update(ctx, model):
    """W2 (state handling): the telescoping increment f(prev + a) - f(prev) needs `prev` = the position's amount BEFORE
    this expansion: in the OPEN_POSITIONS.update closure of expand_position the snapshot written to the captured variable
    is taken before the amount is increased (taken after, the increment becomes f(prev + 2a) - f(prev + a))."""
    v = ctx.view(EXPAND, "C13-W2")
    if v is None:
        return
    found = False
    for q in model.closures_of(EXPAND):
        cv = model.view(q)
        snaps = []
        for b, i, s_ in cv.iter_stmts():
            if "*" in s_["lhs"]["p"] and s_["rv"]["r"] == "use" and s_["rv"]["op"]["k"] in ("copy", "move"):
                roots = {s_["lhs"]["l"]} | cv.alias_roots(s_["lhs"]["l"])
                if 1 in roots:   # write through the closure environment: a captured `&mut` variable
                    os_ = cv.origins_of_operand(s_["rv"]["op"], at=(b, i))
                    if os_ and all(o.proj and o.proj[-1] == "amount" for o in os_):
                        snaps.append((b, i))
        adds = []
        for b, t in cv.iter_calls():
            n = mname(t)
            if re.search(r"AddAssign(<.*>)?>::add_assign$", n):
                a0 = t["args"][0]
                if a0["k"] in ("copy", "move"):
                    os_ = cv.origins_of_operand(a0, at=cv.at_term(b), taint=True)
                    if any(o.proj and o.proj[-1] == "amount" for o in os_) or True:
                        adds.append(b)
        for b, i, s_ in cv.iter_stmts():
            F = cv._named_fields(s_["lhs"]["p"])
            if F and F[-1] == "amount" and s_["rv"]["r"] == "use":
                os_ = cv.origins_of_operand(s_["rv"]["op"], at=(b, i))
                if any(o.kind == "call" and re.search(r"checked_add$|as std::ops::Add>::add$", o.a) for o in os_):
                    adds.append(b)
        if not snaps or not adds:
            continue
        found = True
        bad = [(sb, ab) for sb, si in snaps for ab in adds if sb != ab and sb in cv.reach_strict(ab)]
        ctx.ob("C13-W2", "%s|previous-amount-read-before-the-increase" % EXPAND, not bad,
               "snapshot of the position amount at bb%s, increase at bb%s: snapshot taken after the increase: %s" % ([x[0] for x in snaps], adds, bool(bad)), cv.where(snaps[0][0]))
    if not found:
        ctx.missing("C13-W2", "snapshot of the previous position amount and its increase in expand_position's update closure")


_FORMULA_OPS = ("mul", "add", "sub", "div", "from_ratio", "min", "max", "rem")


def skeleton(sh, depth):
    """Operator skeleton of a normalised expression shape: arithmetic operators down to `depth`; the incentive helpers
    (get_flow_asset_amount_at_epoch, ...) and storage loads are named; every other operand (a map lookup, a loop
    variable, a join of several definitions, a parameter) is just a `value`."""
    if isinstance(sh, str):
        if sh.startswith("const("):
            return sh
        if sh.startswith("load("):
            return "load(%s)" % sh[5:].split(")")[0].split("::")[-1]
        if sh.startswith("call(") and "incentive::helpers::" in sh:
            return re.sub(r"^.*::", "", sh[5:].split("@")[0].rstrip(">"))
        return "value"
    if sh and sh[0] == "phi":
        return "value"
    if sh[0] not in _FORMULA_OPS:
        return sh[0] if sh[0].startswith("get_flow") else "value"
    if depth <= 0:
        return sh[0]
    return (sh[0], tuple(skeleton(x, depth - 1) for x in sh[1]))


def reward_formulas(v):
    from ..dataflow import expr_shape, norm_shape
    out = []
    for b, t in v.iter_calls():
        if re.search(r"^<cosmwasm_std::Uint256 as std::ops::Mul<cosmwasm_std::Decimal256>>::mul$|^<cosmwasm_std::Decimal256 as std::ops::Mul<cosmwasm_std::Uint256>>::mul$"
                     r"|^cosmwasm_std::Uint(128|256)::(checked_)?mul_floor$", mname(t)):
            parts = sorted((skeleton(norm_shape(expr_shape(v, a, v.at_term(b), depth=5)), 3) for a in t["args"][:2]), key=repr)
            out.append((b, tuple(parts)))
    return out


def _enum_roots(v, os_):
    """Origins of the iterator the given `next()`-derived values come from, with enumerate() kept opaque."""
    out = set()
    for o in os_:
        c = call_of(v, o)
        if c and c[1]["args"]:
            with v.opaque(r"Iterator>::enumerate$"):
                out |= v.origins_of_operand(c[1]["args"][0], at=v.at_term(c[0]))
    return out


def absent_test(v, b, c):
    """A branch condition that tests whether a map has an entry for a key: `m.get(&k).is_none()`, `.is_some()`,
    `m.contains_key(&k)`. Returns (map origins, key operand, at, edges taken when the entry is ABSENT) or None."""
    if c.kind != "call" or not c.term["args"]:
        return None
    te, fe = cmp_true_false_edges(v, b, c)
    n = c.callee
    if re.search(r"(HashMap|BTreeMap)::contains_key$", n):
        return (v.origins_of_operand(c.term["args"][0], at=v.at_term(c.block)), c.term["args"][1], v.at_term(c.block), te if c.neg else fe)
    m = re.search(r"^std::option::Option::(is_none|is_some)$", n)
    if m:
        for o in v.origins_of_operand(c.term["args"][0], at=v.at_term(c.block)):
            g = call_of(v, o)
            if g and re.search(r"(HashMap|BTreeMap)::get$", mname(g[1])):
                absent_when_true = (m.group(1) == "is_none") != bool(c.neg)
                return (v.origins_of_operand(g[1]["args"][0], at=v.at_term(g[0])), g[1]["args"][1], v.at_term(g[0]), te if absent_when_true else fe)
    return None


def check_sibling(ctx, model):
    """W3 (as quoted): the executed claim and the rewards query compute the per-epoch reward by the same formula, both
    record an epoch's cumulative emission only once, and the claim's per-call cap lets exactly EPOCH_CLAIM_CAP epochs
    through."""
    a = ctx.view(CLAIM, "C13-W3")
    b = ctx.view(REWARDS, "C13-W3")
    if a is None or b is None:
        return
    fa, fb = reward_formulas(a), reward_formulas(b)
    ok = len(fa) == 1 and len(fb) == 1 and fa[0][1] == fb[0][1]
    ctx.ob("C13-W3", "claim==get_rewards|reward-formula", ok,
           "per-epoch reward in claim: %s ; in the rewards query: %s (operator skeletons must be identical)" % ([x[1] for x in fa], [x[1] for x in fb]),
           a.where(fa[0][0]) if fa else a.where())
    # an epoch's cumulative emission is recorded only when the map has no entry for that epoch yet (claim and query)
    for v in (a, b):
        # `if let Entry::Vacant(slot) = map.entry(k) { slot.insert(v) }` can only write an absent entry
        for vb, vt in v.calls_to(r"^std::collections::(hash_map|btree_map)::VacantEntry::insert$"):
            eo = v.origins_of_operand(vt["args"][0], at=v.at_term(vb))
            from_entry = bool(eo) and all(o.kind == "call" and re.search(r"(HashMap|BTreeMap)::entry$", o.a) for o in eo)
            ctx.ob("C13-W3", "%s|emission-recorded-once" % v.path, from_entry,
                   "emitted_tokens is written through a vacant entry of the map (only possible when the epoch has no entry yet): %s" % from_entry, v.where(vb))
        if v.calls_to(r"^std::collections::(hash_map|btree_map)::VacantEntry::insert$") and not v.calls_to(r"^std::collections::(HashMap|BTreeMap)::insert$"):
            continue
        ins = v.calls_to(r"^std::collections::(HashMap|BTreeMap)::insert$")
        ins = [(ib, it) for ib, it in ins if any(o.proj and o.proj[-1] == "emitted_tokens" or (o.kind == "call" and "emitted_tokens" in str(o.proj))
                                                 for o in v.origins_of_operand(it["args"][0], at=v.at_term(ib)))] or ins
        if not ins:
            ctx.missing("C13-W3", "emitted_tokens insert in %s" % v.path)
            continue
        tests = [absent_test(v, sb, c) for sb, c, _ in switch_conds(v)]
        tests = [t for t in tests if t]
        for ib, it in ins:
            kos = v.origins_of_operand(it["args"][1], at=v.at_term(ib))
            guarded = False
            for mos, kop, kat, absent_edges in tests:
                same_key = v.origins_of_operand(kop, at=kat) == kos or bool(v.origins_of_operand(kop, at=kat) & kos)
                if same_key and absent_edges and v.edge_dominated(ib, absent_edges):
                    guarded = True
            ctx.ob("C13-W3", "%s|emission-recorded-once" % v.path, guarded,
                   "emitted_tokens.insert(epoch, ..) happens only when the map has no entry for that epoch: %s" % guarded, v.where(ib))
    # what claim changes in a flow (the recorded cumulative emission, the claimed amount) is written back: no successful
    # return is reachable from such an update without passing FLOWS.save
    saves = [sb for sb, _ in storage_calls(a, "incentive::state::FLOWS", ("save",))]
    muts = [ib for ib, it in a.calls_to(r"^std::collections::(HashMap|BTreeMap)::insert$")]
    for b_, i_, s_ in a.iter_stmts():
        F = a._named_fields(s_["lhs"]["p"])
        if F and F[-1] == "claimed_amount":
            muts.append(b_)
    oks_a = set(ok_value_blocks(a))
    if not saves or not muts or not oks_a:
        ctx.missing("C13-W3", "FLOWS.save / flow updates / Ok return in claim")
    else:
        lost = sorted(mb for mb in set(muts) if a.reachable(mb, cut_blocks=saves) & oks_a)
        ctx.ob("C13-W3", "%s|flow-updates-are-saved" % CLAIM, not lost,
               "a successful return is reachable from a flow update (emitted_tokens / claimed_amount) without FLOWS.save: %s" % (["bb%d" % x for x in lost] or "no"),
               a.where(lost[0]) if lost else a.where(saves[0]))
    # the cap: the loop body is entered for the first EPOCH_CLAIM_CAP epochs of a call and not for the next one
    from ..dataflow import single_var_guard, single_var_walk
    is_counter = lambda os_: bool(os_) and any(o.kind == "arith" for o in os_) and all(o.kind in ("arith", "const") for o in os_)
    tracked, ths = single_var_guard(a, is_counter, [])     # `count += 1` before the test: the first epoch is tested with 1
    first_value = 1
    enum_mode = False
    if not tracked:
        # `for (i, epoch) in (..).enumerate()`: the index half of the pair the loop's next() yields; the first epoch is tested with 0
        is_enum_index = lambda os_: bool(os_) and all(o.kind == "call" and o.a.endswith("Iterator>::enumerate") and tuple(o.proj[-1:]) == ("0",) for o in os_)
        with a.opaque(r"Iterator>::enumerate$"):
            tracked, ths = single_var_guard(a, is_enum_index, [])
        first_value = 0
        enum_mode = True
    caps = {}
    for blk, (cond, orient, k) in tracked.items():
        at = cond_at(a, cond)
        other = cond.b if orient == "fwd" else cond.a
        if other is not None and any(o.kind == "item" and o.a.endswith("EPOCH_CLAIM_CAP") for o in a.origins_of_operand(other, at=at)):
            caps[blk] = (cond, orient, k)
    if not caps or not fa:
        ctx.missing("C13-W3", "comparison of the per-call epoch counter with EPOCH_CLAIM_CAP in claim")
        return
    cap = next(iter(caps.values()))[2]
    body = fa[0][0]
    rows = {}
    # the k-th epoch of a call is tested with counter value first_value + k - 1: epochs 1..cap pass, epoch cap+1 does not
    for k in (cap - 1, cap, cap + 1):
        rows[str(k)] = body in single_var_walk(a, caps, first_value + k - 1)
    want = {str(cap - 1): True, str(cap): True, str(cap + 1): False}
    ctx.ob("C13-W3", "%s|cap-lets-exactly-%s-epochs-through" % (CLAIM, cap), rows == want and cap == 100,
           "reward computation reachable for the k-th epoch of a call: %s (documented: up to %s epochs per call, cap = 100; counter starts at %s)" % (rows, cap, first_value), a.where(next(iter(caps))))


def check_claim_guards(ctx, model):
    v = ctx.view(CLAIM, "C13-W4")
    if v is None:
        return
    effects = [b for b, i, l, d in message_creations(v, model)] + [b for b, t in v.iter_calls() if storage_call(t) and storage_call(t)[1] in ("save", "update", "remove")]
    cur = lambda os_: bool(os_) and all(o.kind == "call" and o.a.endswith("helpers::get_current_epoch") for o in os_)
    last = lambda os_: bool(os_) and all(o.kind == "load" and o.a.endswith("::state::LAST_CLAIMED_EPOCH") for o in os_)
    n = 0
    leak = []
    for b, c, _ in switch_conds(v):
        if c.kind == "cmp" and c.op in ("==", "!="):
            at = cond_at(v, c)
            oa = v.origins_of_operand(c.a, at=at)
            ob = v.origins_of_operand(c.b, at=at)
            if (cur(oa) and last(ob)) or (cur(ob) and last(oa)):
                n += 1
                te, fe = cmp_true_false_edges(v, b, c)
                for (_, tgt) in (te if c.op == "==" else fe):
                    r = v.reachable(tgt)
                    leak += [e for e in effects if e in r]
    ctx.ob("C13-W4", "%s|no-second-claim-in-epoch" % CLAIM, n > 0 and not leak,
           "tests of current epoch == last claimed epoch: %d; effects reachable from the equal edge: %s" % (n, sorted(set(leak))), v.where())
    oks = ok_value_blocks(v)
    saves = storage_calls(v, "incentive::state::LAST_CLAIMED_EPOCH", ("save",))
    ok = bool(saves) and all(must_pass_through(v, sb, oks) for sb, _ in saves)
    val_ok = all(cur(v.origins_of_operand(t["args"][3], at=v.at_term(sb))) for sb, t in saves)
    key_ok = all(any(o.kind == "param" and tuple(o.proj) == ("sender",) for o in v.origins_of_operand(t["args"][2], at=v.at_term(sb))) for sb, t in saves)
    ctx.ob("C13-W4", "%s|last-claimed-saved" % CLAIM, ok and val_ok and key_ok,
           "LAST_CLAIMED_EPOCH.save on every success path: %s; value = current epoch: %s; key = sender: %s" % (ok, val_ok, key_ok), v.where())
    # W5
    msgs = [b for b, i, l, d in message_creations(v, model)]
    reward = lambda os_: bool(os_) and all(o.kind == "call" and re.search(r"as std::ops::Mul(<.*>)?>::mul$", o.a) for o in os_)
    emission = lambda os_: bool(os_) and all(o.kind == "call" and o.a.endswith("Uint128::checked_div") for o in os_)
    tab, n, blocks = two_var_table(v, reward, emission, msgs)
    exp = {"<": True, "=": True, ">": False}
    ctx.ob("C13-W5", "%s|reward<=emission" % CLAIM, n > 0 and tab == exp,
           "reward transfer reachable for reward vs emission_per_epoch: %s; documented %s" % (tab, exp), v.where())
    total = lambda os_: bool(os_) and all(o.kind == "call" and o.a.endswith("Uint128::checked_add") for o in os_)
    funded = lambda os_: bool(os_) and any("asset_history" in o.proj or tuple(o.proj[-2:]) == ("flow_asset", "amount") for o in os_)
    tab, n, blocks = two_var_table(v, total, funded, msgs)
    ctx.ob("C13-W5", "%s|claimed<=funded" % CLAIM, n > 0 and tab == exp,
           "reward transfer reachable for (reward + claimed) vs funded amount: %s; documented %s" % (tab, exp), v.where())


def check_weight_fn(ctx, model):
    v = ctx.view(WEIGHT, "C13-W6")
    if v is None:
        return
    # domain guard through RangeInclusive::contains on a promoted constant range
    found = False
    for b, c, _ in switch_conds(v):
        if c.kind == "call" and c.callee.endswith("RangeInclusive::contains") or (c.kind == "call" and "contains" in c.callee):
            found = True
            rng = v.origins_of_operand(c.term["args"][0], at=v.at_term(c.block))
            vals = sorted(int(o.a) for o in rng if o.kind == "const" and str(o.a).isdigit())
            te, fe = cmp_true_false_edges(v, b, c)
            inside = fe if c.neg else te
            outside = te if c.neg else fe
            oks = ok_value_blocks(v)
            reach_out = set()
            for (_, tgt) in outside:
                reach_out |= v.reachable(tgt)
            ctx.ob("C13-W6", "%s|domain" % WEIGHT, vals == [86400, 31556926] and not (reach_out & set(oks)),
                   "duration range constants %s (documented [86400, 31556926]); outside-range edge reaches Ok: %s" % (vals, bool(reach_out & set(oks))), v.where(b))
    if not found:
        ctx.ob("C13-W6", "%s|domain" % WEIGHT, False, "no range test on the unbonding duration found", v.where())
    # result = max(computed, amount)
    ro = v.origins_of_place({"l": 0, "p": []})
    ok = False
    det = []
    for o in ro:
        c = call_of(v, o)
        if c and re.search(r"as std::cmp::Ord>::max$|^std::cmp::max$", mname(c[1])):
            a0 = v.origins_of_operand(c[1]["args"][0], at=v.at_term(c[0]))
            a1 = v.origins_of_operand(c[1]["args"][1], at=v.at_term(c[0]))
            is_amt = lambda os_: bool(os_) and all(x.kind == "param" and x.a == 2 and not x.proj for x in os_)
            ok = is_amt(a0) or is_amt(a1)
            det.append("max(%s, %s)" % (sorted(map(repr, a0)), sorted(map(repr, a1))))
    ctx.ob("C13-W6", "%s|at-least-amount" % WEIGHT, ok, "returned value: %s (must be max(computed, amount))" % (det or sorted(map(repr, ro))), v.where())


def run(ctx):
    model = ctx.model()
    check_epoch_ranges(ctx, model)
    check_weight_pairing(ctx, model, OPEN, "add")
    check_weight_pairing(ctx, model, EXPAND, "add")
    check_weight_pairing(ctx, model, CLOSE, "sub")
    check_telescoping(ctx, model)
    check_snapshot_before_update(ctx, model)
    check_sibling(ctx, model)
    check_claim_guards(ctx, model)
    check_weight_fn(ctx, model)


def check_epoch_ranges(ctx, model):
    """W7: claim, the rewards query and the share query replay the weight history over the same epochs: an inclusive
    range that ends at the CURRENT epoch (RangeInclusive::new(_, get_current_epoch())); a half-open range stops one epoch
    short, so the entry written in the current epoch is ignored and the reported shares can exceed 100%."""
    n = 0
    for p in ("incentive::claim::claim", "incentive::queries::get_rewards::get_rewards", "incentive::queries::get_rewards_share::get_rewards_share"):
        v = ctx.view(p, "C13-W7")
        if v is None:
            continue
        cur = lambda os_: bool(os_) and all(o.kind == "call" and o.a.endswith("get_current_epoch") for o in os_)
        incl = [(b, t) for b, t in v.calls_to(r"^std::ops::RangeInclusive::new$") if cur(v.origins_of_operand(t["args"][1], at=v.at_term(b)))]
        half = []
        from ..dataflow import expr_shape, norm_shape
        for b, i, s_ in v.iter_stmts():
            rv = s_["rv"]
            if rv["r"] == "agg" and rv.get("adt", "").endswith("ops::Range") and "end" in rv.get("fields", []):
                end = rv["ops"][rv["fields"].index("end")]
                if cur(v.origins_of_operand(end, at=(b, i))):
                    half.append(b)
                else:
                    # `start..current + 1` is the same inclusive range spelled half-open
                    sh = norm_shape(expr_shape(v, end, (b, i), depth=2))
                    if isinstance(sh, tuple) and sh[0] == "add" and "const(1)" in sh[1] and any(isinstance(x, tuple) and x[0] == "get_current_epoch" for x in sh[1]):
                        incl.append((b, None))
        n += len(incl)
        ctx.ob("C13-W7", "%s|replay-includes-the-current-epoch" % p, len(incl) >= 1 and not half,
               "inclusive ranges ending at the current epoch: %d; half-open ranges ending at the current epoch: %d" % (len(incl), len(half)),
               v.where(half[0]) if half else v.where())
    ctx.floor("C13-W7", "inclusive epoch replay ranges", n, 3)
