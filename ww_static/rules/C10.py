"""C10 -- fee pipeline: owed protocol fees reach the epoch, minus only the take rate."""
import re
from fractions import Fraction
from ..facts import mname, term_callee
from ..mir import switch_conds, cmp_true_false_edges, try_edges
from ..dataflow import (call_of, cond_at, field_sources, forward_flow, message_creations, const_of, single_var_guard,
                        single_var_regions, single_var_walk)
from ..guards import EqGuard, site_guarded, is_sender, is_loaded
from .common import storage_calls, arg_origins, ok_value_blocks, must_pass_through, nonzero_edges
from .C12 import check_messages_attached

EXPLANATION = """
Q1: forward_fees: every sub-message and the TMP_EPOCH write are dominated by sender == CONFIG.fee_distributor. Q2: four
sub-messages are pushed in the order collect(vault factory), collect(pool factory), aggregate(vault factory),
aggregate(pool factory); only the last replies (on success), none replies on error (an error must abort epoch
creation); each targets the contract itself; TMP_EPOCH.save lies on the success path. Q3: in the collector's reply the
DAO transfer and TAKE_RATE_HISTORY are built only under is_take_rate_active && take_rate != 0 && dao address set, and
only for a non-zero fee; fee = balance.checked_mul_floor(CONFIG.take_rate); the DAO message and the history record carry
that value; epoch.total and epoch.available are the same vector holding the remaining balance, which is also the amount
of the BankMsg::Send to CONFIG.fee_distributor. Q4: in aggregate_fees every swap message is built only when balance >
1000 (ordering-domain walk), after a successful route query and simulation, and never for the distribution asset itself.
Q5: collect messages go to the contracts listed by the configured factories. Q6: in every pool and vault
collect_protocol_fees the pending entry goes to CONFIG.fee_collector_addr and is zeroed only where it is transferred.
"""
ASSUMPTIONS = [
    "conservation across collector / DAO / distributor balances is the composition of Q3 with C09-D3 and bank semantics: not a tool result",
]

FF = "fee_collector::commands::forward_fees"
REPLY = "fee_collector::contract::reply"
AGG = "fee_collector::commands::aggregate_fees"


def submsg_info(v):
    """[(block, idx, local, {id, reply_on, variant of inner ExecuteMsg, factory field})]"""
    out = []
    for b, i, s in v.iter_stmts():
        rv = s["rv"]
        if rv["r"] == "agg" and rv.get("adt") == "cosmwasm_std::SubMsg":
            f = dict(zip(rv["fields"], rv["ops"]))
            ro = v.origins_of_operand(f["reply_on"], at=(b, i))
            reply_on = None
            for o in ro:
                if o.kind == "agg" and "ReplyOn::" in o.a:
                    reply_on = o.a.split("::")[-1]
            msg = v.origins_of_operand(f["msg"], at=(b, i), taint=True)
            inner = sorted({o.a.split("::")[-1] for o in msg if o.kind == "agg" and o.a.startswith("white_whale_std::fee_collector::ExecuteMsg::")})
            ftype = sorted({o.a.split("::")[-1] for o in msg if o.kind == "agg" and o.a.startswith("white_whale_std::fee_collector::FactoryType::")})
            fac = sorted({o.proj[-1] for o in msg if o.kind == "load" and o.proj and o.proj[-1] in ("vault_factory", "pool_factory")})
            to_self = any(o.kind == "param" and tuple(o.proj) == ("contract", "address") for o in msg)
            out.append((b, i, s["lhs"]["l"], {"reply_on": reply_on, "inner": inner, "ftype": ftype, "factory": fac, "self": to_self}))
    return out


def check_forward(ctx, model):
    v = ctx.view(FF, "C10-Q1")
    if v is None:
        return
    spec = EqGuard("sender==CONFIG.fee_distributor", is_sender(model), is_loaded("fee_collector::state::CONFIG", ("fee_distributor",)))
    subs = submsg_info(v)
    tmp = storage_calls(v, "fee_collector::state::TMP_EPOCH", ("save",))
    sites = [(b, "SubMsg") for b, _, _, _ in subs] + [(b, "TMP_EPOCH.save") for b, _ in tmp]
    for b, what in sites:
        ok, why = site_guarded(model, (), FF, b, spec)
        ctx.ob("C10-Q1", "%s|guarded|%s" % (FF, what), ok, why or "%s reachable without sender == fee_distributor" % what, v.where(b))
    ctx.floor("C10-Q2", "sub-messages in forward_fees", len(subs), 4)
    # order of pushes
    order = []
    from .common import vec_additions
    for k, (b, t, elem, how, at_) in enumerate(vec_additions(v, r"SubMsg")):
        os_ = v.origins_of_operand(elem, at=at_)
        for sb, si, sl, info in subs:
            if any(o.kind == "agg" and o.a.endswith("SubMsg::SubMsg") and o.b == "%s:bb%d" % (v.path, sb) for o in os_):
                order.append((b, info, k))
    order.sort(key=lambda x: (x[0], x[2]))
    linear = all(order[k + 1][0] == order[k][0] or order[k + 1][0] in v.reach_strict(order[k][0]) for k in range(len(order) - 1))
    seq = [("%s/%s" % ((x[1]["inner"] or ["?"])[0], (x[1]["factory"] or ["?"])[0])) for x in order]
    want = ["CollectFees/vault_factory", "CollectFees/pool_factory", "AggregateFees/vault_factory", "AggregateFees/pool_factory"]
    ctx.ob("C10-Q2", "%s|order" % FF, seq == want and linear, "sub-messages pushed in order %s (expected %s)" % (seq, want), v.where())
    replies = [x[1]["reply_on"] for x in order]
    ctx.ob("C10-Q2", "%s|reply-discipline" % FF, replies == ["Never", "Never", "Never", "Success"],
           "reply_on per sub-message: %s (only the last may reply, and only on success)" % replies, v.where())
    ctx.ob("C10-Q2", "%s|targets-self-and-types" % FF, all(x[1]["self"] for x in order) and
           [x[1]["ftype"] for x in order] == [["Vault"], ["Pool"], ["Vault"], ["Pool"]],
           "all to env.contract.address: %s; factory types: %s" % (all(x[1]["self"] for x in order), [x[1]["ftype"] for x in order]), v.where())
    oks = ok_value_blocks(v)
    ctx.ob("C10-Q2", "%s|tmp-epoch-saved" % FF, bool(tmp) and all(must_pass_through(v, b, oks) for b, _ in tmp), "TMP_EPOCH.save lies on every success path", v.where())
    check_messages_attached(ctx, model, FF, rule="C10-Q2")


def check_reply(ctx, model):
    v = ctx.view(REPLY, "C10-Q3")
    if v is None:
        return
    fee = lambda os_: bool(os_) and all(o.kind == "call" and (o.a.endswith("Uint128::checked_mul_floor") or o.a.endswith("Uint128::zero")) for o in os_) and any(
        o.a.endswith("checked_mul_floor") for o in os_)
    muls = v.calls_to(r"Uint128::checked_mul_floor$")
    for b, t in muls:
        a0 = arg_origins(v, b, t, 0)
        a1 = arg_origins(v, b, t, 1)
        ok = bool(a0) and all(o.kind == "call" and o.a.endswith("QuerierWrapper::query") for o in a0) and bool(a1) and all(
            o.kind == "load" and tuple(o.proj) == ("take_rate",) for o in a1)
        ctx.ob("C10-Q3", "%s|fee=floor(balance*take_rate)" % REPLY, ok, "take-rate fee = %s.checked_mul_floor(%s)" % (sorted(map(repr, a0)), sorted(map(repr, a1))), v.where(b))
    ctx.ob("C10-Q3", "%s|single-take-rate-computation" % REPLY, len(muls) == 1, "checked_mul_floor sites: %d" % len(muls), v.where())
    # sends
    dao_b = dist_b = None
    for b, i, s in v.iter_stmts():
        rv = s["rv"]
        if rv["r"] == "agg" and rv.get("adt") == "cosmwasm_std::BankMsg" and rv.get("variant") == "Send":
            f = dict(zip(rv["fields"], rv["ops"]))
            to = v.origins_of_operand(f["to_address"], at=(b, i))
            amt = v.origins_of_operand(f["amount"], at=(b, i), taint=True)
            if to and all(o.kind == "load" and tuple(o.proj) == ("take_rate_dao_address",) for o in to):
                dao_b = b
                ok = any(o.kind == "call" and o.a.endswith("checked_mul_floor") for o in amt) and not any(o.kind == "call" and o.a.endswith("saturating_sub") for o in amt)
                ctx.ob("C10-Q3", "%s|dao-gets-the-fee" % REPLY, ok, "DAO transfer amount derives from %s" % sorted(map(repr, amt))[:4], v.where(b))
            elif to and all(o.kind == "load" and tuple(o.proj) == ("fee_distributor",) for o in to):
                dist_b = b
                ok = any(o.kind == "call" and o.a.endswith("saturating_sub") for o in amt) or any(o.kind == "call" and o.a.endswith("QuerierWrapper::query") for o in amt)
                ctx.ob("C10-Q3", "%s|distributor-gets-the-remainder" % REPLY, ok, "distributor transfer amount derives from %s" % sorted(map(repr, amt))[:4], v.where(b))
            else:
                ctx.ob("C10-Q3", "%s|unknown-recipient" % REPLY, False, "BankMsg::Send to %s" % sorted(map(repr, to)), v.where(b))
    if dao_b is None or dist_b is None:
        ctx.missing("C10-Q3", "DAO / distributor BankMsg::Send in the collector reply")
        return
    # take-rate conditions dominate the DAO transfer and the history record
    conds = {"active": None, "rate!=0": None, "dao-set": None, "fee!=0": None}
    for b, c, _ in switch_conds(v):
        te, fe = cmp_true_false_edges(v, b, c) if c.kind in ("cmp", "call", "place") else ([], [])
        if c.kind == "place":
            os_ = v.origins_of_place(c.pl, at=c.at)
            if os_ and all(o.kind == "load" and tuple(o.proj) == ("is_take_rate_active",) for o in os_):
                conds["active"] = fe if c.neg else te
            continue
        nz = nonzero_edges(v, b, c)
        if nz is not None:
            oa = v.origins_of_operand(nz[0], at=nz[1])
            if oa and all(o.kind == "load" and tuple(o.proj) == ("take_rate",) for o in oa):
                conds["rate!=0"] = nz[2]
            elif fee(oa):
                conds["fee!=0"] = nz[2]
            continue
        if c.kind == "call" and c.callee.endswith("::is_empty"):
            a0 = v.origins_of_operand(c.term["args"][0], at=v.at_term(c.block), taint=True)
            if any(o.kind == "load" and tuple(o.proj) == ("take_rate_dao_address",) for o in a0):
                conds["dao-set"] = te if c.neg else fe
    hist = storage_calls(v, "fee_collector::state::TAKE_RATE_HISTORY", ("save",))
    for name, edges in sorted(conds.items()):
        ok = bool(edges) and v.edge_dominated(dao_b, edges) and all(v.edge_dominated(hb, edges) for hb, _ in hist) and bool(hist)
        ctx.ob("C10-Q3", "%s|take-rate-condition|%s" % (REPLY, name), ok, "DAO transfer and TAKE_RATE_HISTORY dominated by condition '%s': %s" % (name, ok), v.where(dao_b))
    for hb, ht in hist:
        val = arg_origins(v, hb, ht, 3, taint=True)
        key = arg_origins(v, hb, ht, 2)
        # the recorded amount is the fee itself (what the DAO is sent), not the remainder computed from it
        is_fee_value = any(o.kind == "call" and o.a.endswith("checked_mul_floor") for o in val) and not any(
            o.kind == "call" and o.a.endswith("saturating_sub") for o in val)
        ctx.ob("C10-Q3", "%s|history-record" % REPLY, is_fee_value and bool(key) and all(
            o.kind == "load" and o.a.endswith("::state::TMP_EPOCH") and tuple(o.proj) == ("id",) for o in key),
            "TAKE_RATE_HISTORY[%s] <- the take-rate fee itself: %s" % (sorted(map(repr, key)), is_fee_value), v.where(hb))
    # epoch.total == epoch.available == vector sent to the distributor
    tot = av = None
    for b, i, s in v.iter_stmts():
        F = v._named_fields(s["lhs"]["p"])
        if F == ["total"]:
            tot = (b, i, v.origins_of_operand(s["rv"]["op"], at=(b, i)) if s["rv"]["r"] == "use" else set())
        if F == ["available"]:
            av = (b, i, v.origins_of_operand(s["rv"]["op"], at=(b, i)) if s["rv"]["r"] == "use" else set())
    ok = tot is not None and av is not None and tot[2] == av[2] and bool(tot[2])
    same_branch = ok and v.edge_dominated(tot[0], []) is not None and (dist_b in v.reach_strict(tot[0]) or dist_b == tot[0]) and must_pass_through(v, tot[0], [dist_b])
    ctx.ob("C10-Q3", "%s|epoch-total=available=sent" % REPLY, ok and same_branch,
           "epoch.total and epoch.available assigned from the same vector: %s; the distributor transfer follows that assignment: %s" % (ok, same_branch), v.where(dist_b))
    check_messages_attached(ctx, model, REPLY, rule="C10-Q3")
    # TMP_EPOCH cleared
    ctx.ob("C10-Q3", "%s|tmp-epoch-removed" % REPLY, bool(storage_calls(v, "fee_collector::state::TMP_EPOCH", ("remove",))), "TMP_EPOCH removed in the reply", v.where())


def check_aggregate(ctx, model):
    v = ctx.view(AGG, "C10-Q4")
    if v is None:
        return
    # swap messages: WasmMsg::Execute whose msg contains ExecuteSwapOperations (directly or via cw20 Send)
    swaps = []
    for b, i, s in v.iter_stmts():
        rv = s["rv"]
        if rv["r"] == "agg" and rv.get("adt") == "cosmwasm_std::WasmMsg" and rv.get("variant") == "Execute":
            f = dict(zip(rv["fields"], rv["ops"]))
            msg = v.origins_of_operand(f["msg"], at=(b, i), taint=True)
            if any(o.kind == "agg" and o.a.endswith("router::ExecuteMsg::ExecuteSwapOperations") for o in msg):
                swaps.append(b)
    ctx.floor("C10-Q4", "swap messages in aggregate_fees", len(swaps), 2)
    is_bal = lambda os_: bool(os_) and all((o.kind == "call" and o.a.endswith("QuerierWrapper::query")) for o in os_)
    tracked, ths = single_var_guard(v, is_bal, [Fraction(1000)])
    unresolved = getattr(v, "_unresolved_cmp", [])
    rows, bad = [], []
    for x in single_var_regions(ths):
        if x < 0:
            continue
        reach = single_var_walk(v, tracked, x)
        r = any(b in reach for b in swaps)
        rows.append("%s:%s" % (x, "swap" if r else "kept"))
        if r != (x > 1000):
            bad.append("balance=%s -> %s" % (x, "swap" if r else "no swap"))
    ctx.ob("C10-Q4", "%s|threshold" % AGG, bool(tracked) and not bad and not unresolved, ("MISMATCH %s | " % bad if bad else "") + "regions %s" % rows, v.where())
    # route query and simulation must have succeeded: swap blocks dominated by the Ok edges of both query results
    ok_edges = []
    for b, c, edges in switch_conds(v):
        if c.kind == "discr" and (c.enum or "").endswith("result::Result"):
            os_ = v.origins_of_place(c.pl, at=c.at)
            if os_ and all(o.kind == "call" and o.a.endswith("QuerierWrapper::query") for o in os_):
                inv = {n: val for val, n in c.variants.items()}
                t = v.blocks[b]["t"]
                okt = [tgt for val, tgt in t["targets"] if val == inv.get("Ok")] or [t["otherwise"]]
                ok_edges.append([(b, x) for x in okt])
        elif c.kind == "call" and re.search(r"^std::result::Result::(is_ok|is_err)$", c.callee) and c.term["args"]:
            os_ = v.origins_of_operand(c.term["args"][0], at=v.at_term(c.block))
            if os_ and all(o.kind == "call" and o.a.endswith("QuerierWrapper::query") for o in os_):
                te, fe = cmp_true_false_edges(v, b, c)
                # cmp_true_false_edges is relative to the condition as written (negation included)
                is_ok_true = c.callee.endswith("is_ok") != bool(c.neg)
                ok_edges.append(te if is_ok_true else fe)
    n_dom = 0
    for sb in swaps:
        n = sum(1 for e in ok_edges if v.edge_dominated(sb, e))
        n_dom = max(n_dom, n)
        ctx.ob("C10-Q4", "%s|route-and-simulation-ok|bb" % AGG, n >= 2, "swap message dominated by %d successful router query results (route, simulation)" % n, v.where(sb))
    # the distribution asset is skipped
    skip = False
    for b, c, _ in switch_conds(v):
        if c.kind == "cmp" and c.op in ("==", "!="):
            at = cond_at(v, c)
            oa, ob = v.origins_of_operand(c.a, at=at), v.origins_of_operand(c.b, at=at)
            da = lambda os_: bool(os_) and all(o.kind == "call" and o.a.endswith("query_distribution_asset") for o in os_)
            if da(oa) or da(ob):
                te, fe = cmp_true_false_edges(v, b, c)
                eq = te if c.op == "==" else fe
                r = set()
                for (_, tgt) in eq:
                    r |= v.reachable(tgt, cut_edges=[e for e in te + fe if e not in eq])
                # from the equal edge a swap can only be reached by going round the loop (next asset): the loop head is the iterator next
                nxt = [xb for xb, xt in v.calls_to(r"as std::iter::Iterator>::next$")]
                r2 = set()
                for (_, tgt) in eq:
                    r2 |= v.reachable(tgt, cut_blocks=nxt)
                skip = not any(sb in r2 for sb in swaps)
    if not skip:
        # `for offer in assets.into_iter().filter(|a| *a != distribution_asset)`: the loop never sees it
        from ..mir import resolve_bool
        from ..guards import resolve as _res
        good_filters = set()
        for fb, ft in v.calls_to(r"as std::iter::Iterator>::filter$"):
            for po in v.origins_of_operand(ft["args"][1], at=v.at_term(fb)):
                if po.kind != "closure" or po.a not in model.fnsrc:
                    continue
                fv = model.view(po.a)
                fch = ((v.path, int(po.b.rsplit(":bb", 1)[1]), "closure"),)
                for rb_ in fv.return_blocks():
                    c = resolve_bool(fv, {"k": "copy", "pl": {"l": 0, "p": []}}, at=fv.at_term(rb_))
                    if c.kind != "cmp" or c.op != "!=" or c.b is None:
                        continue
                    at = cond_at(fv, c)
                    oa = _res(model, fch, fv, fv.origins_of_operand(c.a, at=at), elems=True)
                    ob = _res(model, fch, fv, fv.origins_of_operand(c.b, at=at), elems=True)
                    da = lambda os_: bool(os_) and all(o.kind == "call" and o.a.endswith("query_distribution_asset") for o in os_)
                    if da(oa) or da(ob):
                        good_filters.add("%s:bb%d" % (v.path, fb))
        if good_filters and swaps:
            def through_filter(sb):
                for b_, i_, s_ in v.iter_stmts():
                    if b_ == sb and s_["rv"]["r"] == "agg" and s_["rv"].get("adt") == "cosmwasm_std::WasmMsg":
                        with v.opaque(r"as std::iter::Iterator>::filter$"):
                            os_ = v.origins_of_operand({"k": "copy", "pl": s_["lhs"]}, at=(b_, i_ + 1), taint=True)
                        if any(o.kind == "call" and o.b in good_filters for o in os_):
                            return True
                return False
            skip = all(through_filter(sb) for sb in swaps)
    ctx.ob("C10-Q4", "%s|distribution-asset-skipped" % AGG, skip, "the distribution asset itself is never swapped: %s" % skip, v.where())
    check_messages_attached(ctx, model, AGG, rule="C10-Q4")


def check_collect(ctx, model):
    p = "fee_collector::commands::collect_fees_for_contract"
    v = ctx.view(p, "C10-Q5")
    if v is None:
        return
    for b, i, s in v.iter_stmts():
        rv = s["rv"]
        if rv["r"] == "agg" and rv.get("adt") == "cosmwasm_std::WasmMsg" and rv.get("variant") == "Execute":
            f = dict(zip(rv["fields"], rv["ops"]))
            to = v.origins_of_operand(f["contract_addr"], at=(b, i))
            ctx.ob("C10-Q5", "%s|target" % p, bool(to) and all(o.kind == "param" for o in to), "CollectProtocolFees sent to %s" % sorted(map(repr, to)), v.where(b))
    # callers pass addresses returned by the configured factory queries
    for q in ("fee_collector::commands::collect_fees_for_factory",):
        w = ctx.view(q, "C10-Q5")
        if w is None:
            continue
        n = 0
        from .common import scope_calls, scope_origins
        for w_, ch_, b, t in scope_calls(model, q, r"collect_fees_for_contract$"):
            # in the handler's loops or in the closure of `.map(..).collect()`
            a0 = scope_origins(model, ch_, w_, t["args"][0], w_.at_term(b), taint=True)
            n += 1
            ctx.ob("C10-Q5", "%s|address-from-factory-query#%d" % (q, n), any(o.kind == "call" and o.a.endswith("QuerierWrapper::query") for o in a0),
                   "contract address derives from %s" % sorted(map(repr, a0))[:3], w_.where(b))
        ctx.floor("C10-Q5", "collect_fees_for_contract call sites in %s" % q, n, 2)


def check_pool_side(ctx, model):
    """Q6: what a registered pool or vault does when it receives CollectProtocolFees -- the pending entry is transferred
    to the configured collector, and it is zeroed only where it is transferred (the rule C07-F3 decides; it is repeated
    here because a fee erased on the pool side never reaches any epoch)."""
    from .C07 import check_collect as pool_collect
    for crate in ("terraswap_pair", "stableswap_3pool"):
        pool_collect(ctx, model, crate, "%s::commands::collect_protocol_fees" % crate, "%s::state::COLLECTED_PROTOCOL_FEES" % crate, rule="C10-Q6")
    pool_collect(ctx, model, "vault", "vault::execute::collect_protocol_fee::collect_protocol_fees", "vault::state::COLLECTED_PROTOCOL_FEES", vault=True, rule="C10-Q6")


def run(ctx):
    model = ctx.model()
    check_forward(ctx, model)
    check_reply(ctx, model)
    check_aggregate(ctx, model)
    check_collect(ctx, model)
    check_pool_side(ctx, model)
    check_paging_forwarded(ctx, model)
    # Q8: the new epoch's total = what the collector sent + what is rolled over from the expiring epoch, and the rollover
    # is the expiring epoch's `available` (the field that is then emptied), never re-derived from total - claimed (C09-D3)
    from .C09 import check_reply as _dist_reply
    _dist_reply(ctx.renamed({"C09-D3": "C10-Q8"}), model)
    # Q7: the take-rate switches of the collector can each be changed on their own ("nothing otherwise" once switched off)
    from .common import check_independent_optional_updates
    uv = ctx.view("fee_collector::commands::update_config", "C10-Q7")
    if uv is not None:
        n = check_independent_optional_updates(ctx, "C10-Q7", uv, "fee_collector::state::CONFIG", fields={"take_rate", "take_rate_dao_address", "is_take_rate_active", "fee_distributor", "pool_router", "pool_factory", "vault_factory"})
        ctx.floor("C10-Q7", "independently updatable collector settings", n, 7)


def check_paging_forwarded(ctx, model):
    """Q5 (page size): the registry listings the collector asks the factories for (Vaults / Pairs) carry the start_after and
    limit of the FactoryType the caller selected -- in the collect helper and in aggregate_fees alike. A constant (None)
    limit falls back to the factory's default page of 10 while forward_fees asks for 30: pools beyond the tenth are never
    collected."""
    n = 0
    for p in sorted(model.all_paths("fee_collector")):
        if "::tests::" in p or "::migrations::" in p:
            continue
        v = model.view(p)
        for b, i, s_ in v.iter_stmts():
            rv = s_["rv"]
            if rv["r"] != "agg" or rv.get("variant") not in ("Vaults", "Pairs") or not rv.get("adt", "").endswith("QueryMsg"):
                continue
            f = dict(zip(rv["fields"], rv["ops"]))
            n += 1
            ctx.fn_seen.add(p)
            bad = []
            for name in ("start_after", "limit"):
                os_ = v.origins_of_operand(f[name], at=(b, i))
                # FactoryType variant name and QueryMsg variant name pair up: Vault -> Vaults, Pool -> Pairs
                want_variant = "#Vault" if rv["variant"] == "Vaults" else "#Pool"
                if not (os_ and all(o.kind == "param" and tuple(o.proj[-2:]) == (want_variant, name) for o in os_)):
                    bad.append("%s from %s" % (name, sorted(map(repr, os_))))
            ctx.ob("C10-Q5", "%s|%s|paging-forwarded" % (p, rv["variant"]), not bad,
                   "QueryMsg::%s paging fields: %s" % (rv["variant"], "; ".join(bad) if bad else "start_after and limit are the selected FactoryType's own"), v.where(b))
    ctx.floor("C10-Q5", "factory listing queries built by the collector", n, 4)
