"""C03 -- two-asset stableswap pool (wiring only; the numerical content is not decided)."""
import re
from ..facts import mname, term_callee
from ..dataflow import call_of, const_of, variant_excluded_edges
from .common import arg_origins
from .C14 import check_pair_directions, index_of_site

EXPLANATION = """
C03 is a numerical property (Newton iterations against an independent solution); none of that is decided here. What is
decided is the WIRING of the stableswap paths, each clause being a necessary condition of the property because a
mis-wired operand makes the pool price with the wrong reserves or scales: Y1 in the stableswap arm of compute_swap,
calculate_stableswap_y receives (offer reserve scaled by the offer precision, ask reserve scaled by the ask precision,
offer amount scaled by the offer precision, the pair's amp, the ask precision, the Simulate direction), the gross
proceeds are ask reserve (at ask precision) minus the new pool value, the three fees are taken on that gross amount
from the three pool_fees fields and all subtracted (checked). Y2 in swap and in the simulation query the offer/ask
reserves and their decimals are selected by the same direction table (offer == pools[j] -> decimals[j], ask -> the other
index). Y3 in provide_liquidity the stableswap mint helper receives (deposits[0], deposits[1], pools[0], pools[1], total
share) in matching index order and the first deposit calls compute_d on (deposits[0], deposits[1]). Accuracy of the
invariant, monotonicity of proceeds, rounding dust and the mint bound are NOT decided. Y4: the mint helper computes
compute_d(pool0, pool1) and compute_d(pool0+deposit0, pool1+deposit1) (same index) and mints supply*(d1-d0)/d0 (operator
tree, spelling normalised). Y5: compute_d's operator trees are invariant under exchanging its two reserves; its Newton step is
(Ann*S + Dp*n)*d / ((Ann-1)*d + (n+1)*Dp) with Ann = amp*n and is called with (amp, d, d_prod, sum, 2). Y6: no ceil-family rounding
in the pair's deposit, withdrawal and swap computations.
"""
ASSUMPTIONS = ["only operand wiring is decided; Newton convergence / invariant accuracy need a numerical technique"]

CS = "terraswap_pair::helpers::compute_swap"
PL = "terraswap_pair::commands::provide_liquidity"


def run(ctx):
    model = ctx.model()
    v = ctx.view(CS, "C03-Y1")
    if v is not None:
        pred = lambda os_: bool(os_) and all(o.kind == "param" and "PairType" in v.local_ty(o.a) for o in os_)
        excl = variant_excluded_edges(v, "pool_network::asset::PairType", pred, "StableSwap")
        arm = v.reachable(0, cut_edges=excl) - v.reachable(0, cut_edges=variant_excluded_edges(v, "pool_network::asset::PairType", pred, "ConstantProduct"))
        ys = [(b, t) for b, t in v.calls_to(r"helpers::calculate_stableswap_y$") if b in arm]
        if len(ys) != 1:
            ctx.missing("C03-Y1", "single calculate_stableswap_y call in the stableswap arm of compute_swap")
        else:
            b, t = ys[0]

            def scaled(argi, value_param, prec_param):
                os_ = arg_origins(v, b, t, argi)
                if not os_:
                    return False
                for o in os_:
                    c = call_of(v, o)
                    if not c or not mname(c[1]).endswith("Decimal256Helper>::decimal_with_precision"):
                        return False
                    a0 = v.origins_of_operand(c[1]["args"][0], at=v.at_term(c[0]))
                    a1 = v.origins_of_operand(c[1]["args"][1], at=v.at_term(c[0]))
                    if not (a0 and all(x.kind == "param" and x.a == value_param for x in a0) and a1 and all(x.kind == "param" and x.a == prec_param for x in a1)):
                        return False
                return True
            ok = scaled(0, 1, 6) and scaled(1, 2, 7) and scaled(2, 3, 6)
            a3 = arg_origins(v, b, t, 3)
            a4 = arg_origins(v, b, t, 4)
            a5 = arg_origins(v, b, t, 5)
            ok_amp = bool(a3) and all(o.kind == "param" and "PairType" in v.local_ty(o.a) and tuple(o.proj[-1:]) == ("amp",) for o in a3)
            ok_prec = bool(a4) and all(o.kind == "param" and o.a == 7 for o in a4)
            ok_dir = bool(a5) and all(o.kind == "agg" and o.a.endswith("StableSwapDirection::Simulate") for o in a5)
            ctx.ob("C03-Y1", "%s|stableswap-y-operands" % CS, ok and ok_amp and ok_prec and ok_dir,
                   "calculate_stableswap_y(offer@offer_precision, ask@ask_precision, amount@offer_precision): %s; amp from the pair type: %s; ask precision: %s; direction Simulate: %s"
                   % (ok, ok_amp, ok_prec, ok_dir), v.where(b))
            # gross = ask_pool.to_uint256(ask_precision) - new_pool
            gross = None
            for xb, xt in v.calls_to(r"Uint256::checked_sub$"):
                if xb not in arm:
                    continue
                a0 = arg_origins(v, xb, xt, 0)
                a1 = arg_origins(v, xb, xt, 1)
                if a1 and all(o.kind == "call" and o.a.endswith("calculate_stableswap_y") for o in a1):
                    okg = False
                    for o in a0:
                        c = call_of(v, o)
                        if c and mname(c[1]).endswith("to_uint256_with_precision"):
                            r0 = v.origins_of_operand(c[1]["args"][0], at=v.at_term(c[0]))
                            okg = bool(r0) and all(x.kind == "call" and x.b.endswith(":bb%d" % next(
                                (cb for cb, ct in v.calls_to(r"decimal_with_precision$") if arg_origins(v, cb, ct, 0) and all(y.kind == "param" and y.a == 2 for y in arg_origins(v, cb, ct, 0))), -1)) for x in r0)
                    gross = (xb, okg)
            ctx.ob("C03-Y1", "%s|gross=ask-minus-new-pool" % CS, gross is not None and gross[1],
                   "gross proceeds = ask reserve (ask precision) - calculate_stableswap_y(..): %s" % (gross[1] if gross else "not found"), v.where(gross[0] if gross else None))
            # fees
            fees = {}
            for xb, xt in v.calls_to(r"fee::Fee::compute$"):
                if xb not in arm:
                    continue
                recv = arg_origins(v, xb, xt, 0)
                amt = arg_origins(v, xb, xt, 1)
                for o in recv:
                    if o.kind == "param" and len(o.proj) == 1:
                        fees[o.proj[0]] = {(x.kind, x.a, x.b) for x in amt}
            same = len({frozenset(x) for x in fees.values()}) == 1 and gross is not None and all(
                any(k[2].endswith(":bb%d" % gross[0]) for k in x) for x in fees.values())
            ctx.ob("C03-Y1", "%s|three-fees-on-the-gross" % CS, set(fees) == {"swap_fee", "protocol_fee", "burn_fee"} and same,
                   "fees %s computed on the gross proceeds: %s" % (sorted(fees), same), v.where())
            subs = set()
            for xb, xt in v.calls_to(r"Uint256::checked_sub$"):
                if xb in arm:
                    for o in arg_origins(v, xb, xt, 1):
                        c = call_of(v, o)
                        if c and mname(c[1]).endswith("fee::Fee::compute"):
                            subs |= {x.proj[0] for x in v.origins_of_operand(c[1]["args"][0], at=v.at_term(c[0])) if x.kind == "param" and len(x.proj) == 1}
            ctx.ob("C03-Y1", "%s|all-fees-subtracted" % CS, subs == {"swap_fee", "protocol_fee", "burn_fee"}, "fees subtracted from the gross proceeds: %s" % sorted(subs), v.where())
            from .C02 import check_result_fields
            check_result_fields(ctx, v, arm, "C03-Y1", "stableswap")
    # Y2: direction + decimals tables (shared with C14)
    check_pair_directions(ctx, model, rule="C03-Y2")
    check_deposit_helpers(ctx, model)
    # Y3: deposit helper operand order: deposit_i is the amount found for pools[i]'s asset (pool order, whatever order the
    # caller listed the assets in) and pool_i is pools[i].amount
    from .stablemath import deposit_pool_index
    w = ctx.view(PL, "C03-Y3")
    if w is not None:
        for rx, dep_args, pool_args, what in ((r"helpers::compute_lp_mint_amount_for_stableswap_deposit$", (1, 2), (3, 4), "mint helper"),
                                             (r"helpers::compute_d$", (1, 2), (), "first-deposit compute_d")):
            calls = w.calls_to(rx)
            if not calls:
                ctx.missing("C03-Y3", "%s call in provide_liquidity" % what)
                continue
            for b, t in calls:
                deps_ = [deposit_pool_index(w, model, t["args"][ai], w.at_term(b)) for ai in dep_args]
                pools_ = []
                for ai in pool_args:
                    os_ = w.origins_of_operand(t["args"][ai], at=w.at_term(b))
                    pools_.append(sorted({o.proj[0] for o in os_ if o.kind == "call" and o.a.endswith("query_pools") and len(o.proj) == 2 and o.proj[1] == "amount"}) or ["?"])
                want_d = [["[%d]" % i] for i in range(len(dep_args))]
                want_p = [["[%d]" % i] for i in range(len(pool_args))]
                ctx.ob("C03-Y3", "%s|%s|operand-order" % (PL, what), deps_ == want_d and pools_ == want_p,
                       "%s called with deposits matched against pools%s and pool amounts pools%s (expected %s and %s)" % (what, deps_, pools_, want_d, want_p), w.where(b))


def _array_index(v, operand, at):
    """Constant index i of an `arr[i]` (fixed array place index or Index::index call) the operand is read from."""
    seen = set()
    work = [operand]
    steps = 0
    while work and steps < 16:
        steps += 1
        o = work.pop()
        if o["k"] not in ("copy", "move"):
            continue
        pl = o["pl"]
        for e in pl["p"]:
            if isinstance(e, dict) and "i" in e:
                k = const_of(v, {"k": "copy", "pl": {"l": e["i"], "p": []}}, at)
                if k is not None:
                    return int(k)
            if isinstance(e, dict) and "ci" in e:
                return int(e["ci"])
        if pl["l"] in seen:
            continue
        seen.add(pl["l"])
        for d in v.defs().get(pl["l"], []):
            if d[0] == "c":
                n = mname(d[2])
                if re.search(r"as std::ops::Index<usize>>::index$", n):
                    k = const_of(v, d[2]["args"][1], v.at_term(d[1]))
                    if k is not None:
                        return int(k)
                if d[2]["args"]:
                    work.append(d[2]["args"][0])
            else:
                rv = d[3]["rv"]
                if rv["r"] == "ref":
                    work.append({"k": "copy", "pl": rv["pl"]})
                elif rv["r"] in ("use", "cast") and rv["op"]["k"] in ("copy", "move"):
                    work.append(rv["op"])
    return None


MINT = "terraswap_pair::helpers::compute_lp_mint_amount_for_stableswap_deposit"
CD = "terraswap_pair::helpers::compute_d"


def check_deposit_helpers(ctx, model):
    """Y4: inside the stableswap mint helper the initial invariant is compute_d(pool0, pool1), the new one is
    compute_d(pool0 + deposit0, pool1 + deposit1) -- each reserve grows by the deposit of the SAME index (the parameter
    roles are those fixed at the call site by Y3) -- and the minted amount is supply * (d1 - d0) / d0.
    Y5: compute_d treats its two reserves symmetrically (D is a symmetric function; using one reserve twice is not)."""
    from .stablemath import check_mint_helper, check_symmetric
    v = ctx.view(MINT, "C03-Y4")
    if v is not None:
        check_mint_helper(ctx, "C03-Y4", v, r"^%s$" % re.escape(CD), dep=(2, 3), pool=(4, 5), supply=6, key=MINT)
    w = ctx.view(CD, "C03-Y5")
    if w is not None:
        check_symmetric(ctx, "C03-Y5", w, (2, 3), CD)
    from .stablemath import check_newton_step, check_solver_bounds_agree
    check_solver_bounds_agree(ctx, "C03-Y5")
    nd = ctx.view("terraswap_pair::helpers::compute_next_d", "C03-Y5")
    if nd is not None:
        check_newton_step(ctx, "C03-Y5", nd, "param(1)", "param(2)", "param(3)", "param(4)", "param(5)", "terraswap_pair::helpers::compute_next_d")
        # ... and compute_d hands it (amp, d, d_prod, sum_x, n_coins = 2)
        for b, t in w.calls_to(r"^terraswap_pair::helpers::compute_next_d$"):
            from ..dataflow import const_of
            a0 = w.origins_of_operand(t["args"][0], at=w.at_term(b))
            k = const_of(w, t["args"][4], w.at_term(b))
            ctx.ob("C03-Y5", "%s|newton-step-arguments" % CD, bool(a0) and all(o.kind == "param" and o.a == 1 for o in a0) and k == 2,
                   "compute_next_d called with amp from %s and n_coins = %s (must be the amp parameter and 2)" % (sorted(map(repr, a0)), k), w.where(b))
    # Y8: the solvers of one curve use the same amplification; Y9: their convergence tests compare new with previous
    from .stablemath import check_no_self_comparison, check_amp_used_unmodified
    for q, amp in (("terraswap_pair::helpers::calculate_stableswap_d", 3), ("terraswap_pair::helpers::calculate_stableswap_y", 4)):
        sv = ctx.view(q, "C03-Y8")
        if sv is not None:
            check_amp_used_unmodified(ctx, "C03-Y8", sv, amp, q, forward_rx=r"helpers::calculate_stableswap_d$")
            check_no_self_comparison(ctx, "C03-Y9", sv, q)
    if w is not None:
        check_no_self_comparison(ctx, "C03-Y9", w, CD)
        check_amp_used_unmodified(ctx, "C03-Y8", w, 1, CD, forward_rx=r"helpers::compute_next_d$")
    # Y7: pending (not all-time) protocol fees are excluded wherever the pair reads its balances (shared with C01-V1)
    from .poolvalue import check_v1_pools, check_fee_lookup_same_asset
    check_v1_pools(ctx, model, "terraswap_pair", "C03-Y7")
    check_fee_lookup_same_asset(ctx, model, "terraswap_pair", "C03-Y7")
    # no rounding in the user's favour on the deposit / withdrawal / swap paths of the pair (shared with C01-V5)
    from .poolvalue import check_v5_rounding
    check_v5_rounding(ctx, model, ["terraswap_pair::commands::provide_liquidity", "terraswap_pair::commands::withdraw_liquidity",
                                   "terraswap_pair::helpers::compute_swap", MINT, CD, "terraswap_pair::helpers::calculate_stableswap_y"], "C03-Y6")
