"""Small helpers shared by the rule modules."""
import re
from ..facts import mname, term_callee
from ..mir import storage_call, switch_conds
from ..effects import fn_effects


def calls(view, rx):
    return view.calls_to(rx)


def arg_origins(view, b, t, i, proj=(), taint=False):
    if i >= len(t["args"]):
        return set()
    return view.origins_of_operand(t["args"][i], proj=proj, at=view.at_term(b), taint=taint)


def strip_proj(os_):
    """Origin identities without their projections."""
    return {(o.kind, o.a, o.b) for o in os_}


def must_pass_through(view, block, targets):
    """Every path entry -> any target passes through `block`."""
    r = view.reachable(0, cut_blocks=[block])
    return not (r & set(targets))


def ok_value_blocks(view):
    """Blocks where `_0 = Ok(..)` is built."""
    out = []
    for b, i, s in view.iter_stmts():
        if s["lhs"]["l"] == 0 and not s["lhs"]["p"] and s["rv"]["r"] == "agg" and s["rv"].get("variant") == "Ok":
            out.append(b)
    return out


def storage_calls(view, item_suffix, methods):
    out = []
    for b, t in view.iter_calls():
        sc = storage_call(t)
        if sc and sc[1] in methods:
            if any(o.kind == "item" and o.a.endswith(item_suffix) for o in view.storage_item_of_call(t, view.at_term(b))):
                out.append((b, t))
    return out


def branch_edges_on(view, pred):
    """[(block, cond, true_edges, false_edges)] for switches whose resolved condition satisfies pred."""
    from ..mir import cmp_true_false_edges
    out = []
    for b, c, _ in switch_conds(view):
        if pred(c):
            te, fe = cmp_true_false_edges(view, b, c)
            out.append((b, c, te, fe))
    return out


def attached_message_sinks(view):
    """Call sites that attach messages to a Response: [(block, term, kind)]."""
    return view.calls_to(r"^cosmwasm_std::Response::add_(message|messages|submessage|submessages)$")


def writers_of(model, item_path, crates=None):
    out = []
    for p in list(model.all_paths()):
        if crates and model.fnsrc[p]["crate"] not in crates:
            continue
        for e in fn_effects(model, p):
            if e.kind == "write" and e.what == item_path:
                out.append((p, e))
    return out


def resolve_to_callers(model, path, origins, depth=3):
    """Replace bare-parameter origins of function `path` by the origins of the operands passed at its direct call sites,
    recursively (up to `depth` frames). Origins that are not bare parameters, and parameters of functions nobody in the
    workspace calls (entry points), are kept."""
    out = set()
    for o in origins:
        done = False
        if o.kind == "param" and depth > 0 and (o.b in (None, path)):
            callers = [(cp, cb) for (cp, cb, ck) in model.callers().get(path, []) if ck == "call"]
            for cp, cb in callers:
                cv = model.view(cp)
                ct = cv.blocks[cb]["t"]
                if o.a - 1 < len(ct["args"]):
                    sub = cv.origins_of_operand(ct["args"][o.a - 1], proj=tuple(o.proj), at=cv.at_term(cb))
                    out |= resolve_to_callers(model, cp, sub, depth - 1)
                    done = True
        if not done:
            out.add(o)
    return out


def check_independent_optional_updates(ctx, rule, v, item_suffix, fields=None):
    """An update handler of the form `if let Some(x) = x { config.x = x }` per optional request field: the assignment of
    each field must be reachable with ONLY that field present (every other optional parameter None) -- nesting one field's
    update inside another's `Some` arm makes a request that names only the inner field succeed without changing anything."""
    from ..dataflow import field_sources, variant_excluded_edges
    opt = [i for i in range(1, v.argc + 1) if v.local_ty(i).startswith("std::option::Option<")]
    saves = storage_calls(v, item_suffix, ("save",))
    if not saves or not opt:
        ctx.missing(rule, "%s.save / optional parameters in %s" % (item_suffix.split("::")[-1], v.path))
        return 0
    n = 0
    seen = set()
    for sb, t in saves:
        for b, i, s_ in v.iter_stmts():
            F = v._named_fields(s_["lhs"]["p"])
            if len(F) != 1 or (fields is not None and F[0] not in fields):
                continue
            base = v.origins_of_place({"l": s_["lhs"]["l"], "p": []}, at=(b, i))
            if not any(o.kind == "load" and o.a.endswith(item_suffix) for o in base):
                continue
            if s_["rv"]["r"] != "use":
                continue
            src = v.origins_of_operand(s_["rv"]["op"], at=(b, i), taint=True)
            own = {o.a for o in src if o.kind == "param" and o.a in opt}
            if len(own) != 1 or (F[0], b) in seen:
                continue
            seen.add((F[0], b))
            own = next(iter(own))
            cut = set()
            for q in opt:
                if q == own:
                    continue
                pred = lambda os_, q=q: bool(os_) and all(o.kind == "param" and o.a == q for o in os_)
                cut |= variant_excluded_edges(v, "option::Option", pred, "None")
            reach = v.reachable(0, cut_edges=cut)
            ok = b in reach and sb in v.reachable(b, cut_edges=cut)
            n += 1
            ctx.ob(rule, "%s|%s|updated-on-its-own" % (v.path, F[0]), ok,
                   "with only the `%s` request field present the assignment %s reached and saved" % (F[0], "is" if ok else "is NOT"), v.where(b))
    return n


def check_migration_copy(ctx, model, rule, path, adt_suffix, new_fields):
    """A storage migration that rebuilds records of type `adt_suffix`: every field of the rebuilt record is copied from the
    SAME-NAMED field of the record being migrated, except the fields the migration introduces (`new_fields`, frozen list).
    A ledger field reset to a constant, or filled from a differently named field, silently rewrites every stored ledger."""
    fns = [path] + [x for x in model.fnsrc if x.startswith(path + "::{closure")]
    n = 0
    for q in fns:
        if q not in model.fnsrc:
            continue
        v = model.view(q)
        for b, i, s_ in v.iter_stmts():
            rv = s_["rv"]
            if rv["r"] != "agg" or not rv.get("adt", "").endswith(adt_suffix):
                continue
            n += 1
            bad = []
            for name, op in zip(rv["fields"], rv["ops"]):
                if name in new_fields:
                    continue
                os_ = v.origins_of_operand(op, at=(b, i))
                if not (os_ and all(o.proj and o.proj[-1] == name for o in os_)):
                    bad.append("%s <- %s" % (name, sorted(map(repr, os_))))
            ctx.ob(rule, "%s|%s|fields-copied-from-the-old-record" % (q, adt_suffix.split("::")[-1]), not bad,
                   "rebuilt %s: %s" % (adt_suffix.split("::")[-1], "; ".join(bad) if bad else "every pre-existing field copied from the same-named old field"), v.where(b))
    if n == 0:
        ctx.missing(rule, "%s rebuilt in %s" % (adt_suffix, path))
