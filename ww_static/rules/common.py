"""Small helpers shared by the rule modules."""
import re
from ..facts import mname, term_callee
from ..mir import storage_call, switch_conds
from ..effects import fn_effects


def calls(view, rx):
    return view.calls_to(rx)


def arg_origins(view, b, t, i, proj=(), taint=False):
    if i >= len(t["args"]):
        return set()
    return view.origins_of_operand(t["args"][i], proj=proj, at=view.at_term(b), taint=taint)


def strip_proj(os_):
    """Origin identities without their projections."""
    return {(o.kind, o.a, o.b) for o in os_}


def must_pass_through(view, block, targets):
    """Every path entry -> any target passes through `block`."""
    r = view.reachable(0, cut_blocks=[block])
    return not (r & set(targets))


def on_every_success_path(view, block, targets, operand=None):
    """`block` lies on every path to a successful return -- directly, or as the unconditional body of a `for` loop
    (`for ledger in [A, B] { store_fee(.., ledger)?; }`) whose header lies on every such path: `operand` must derive from
    that loop's `next()` (the caller has resolved it to the constants of a literal, which is therefore not empty) and no
    iteration may complete, and no success return be reached from inside the body, without passing the block."""
    if must_pass_through(view, block, targets):
        return True
    if operand is None:
        return False
    with view.opaque(r"Iterator>::next$"):
        os_ = view.origins_of_operand(operand, at=view.at_term(block))
    heads = {int(o.b.rsplit(":bb", 1)[1]) for o in os_
             if o.kind == "call" and o.a.endswith("Iterator>::next") and o.b and o.b.startswith(view.path + ":bb")}
    if len(heads) != 1 or len(os_) != 1:
        return False
    h = next(iter(heads))
    if not must_pass_through(view, h, targets):
        return False
    return body_always_passes(view, h, block, targets)


def body_always_passes(view, h, block, targets):
    """`h` is the call that yields the next element of a loop (`next()`, `pop()`): on the arm of the switch on its
    result from which `block` is reachable, no path returns to `h` or reaches a target without passing `block`."""
    # the switch on the Option returned by next()
    x = view.blocks[h]["t"].get("target")
    steps = 0
    while x is not None and view.blocks[x]["t"]["k"] in ("goto", "drop") and steps < 4:
        x = view.blocks[x]["t"]["target"]
        steps += 1
    if x is None or view.blocks[x]["t"]["k"] != "switch":
        return False
    t = view.blocks[x]["t"]
    arms = [y for _, y in t["targets"]] + ([t["otherwise"]] if t.get("otherwise") is not None else [])
    body = [y for y in arms if y == block or block in view.reachable(y, cut_blocks=[h])]
    if len(body) != 1:
        return False
    if body[0] == block:
        return True
    r = view.reachable(body[0], cut_blocks=[block])
    return h not in r and not (r & set(targets))


def ok_value_blocks(view):
    """Blocks where `_0 = Ok(..)` is built."""
    out = []
    for b, i, s in view.iter_stmts():
        if s["lhs"]["l"] == 0 and not s["lhs"]["p"] and s["rv"]["r"] == "agg" and s["rv"].get("variant") == "Ok":
            out.append(b)
    return out


def storage_calls(view, item_suffix, methods):
    out = []
    for b, t in view.iter_calls():
        sc = storage_call(t)
        if sc and sc[1] in methods:
            if any(o.kind == "item" and o.a.endswith(item_suffix) for o in view.storage_item_of_call(t, view.at_term(b))):
                out.append((b, t))
    return out


def branch_edges_on(view, pred):
    """[(block, cond, true_edges, false_edges)] for switches whose resolved condition satisfies pred."""
    from ..mir import cmp_true_false_edges
    out = []
    for b, c, _ in switch_conds(view):
        if pred(c):
            te, fe = cmp_true_false_edges(view, b, c)
            out.append((b, c, te, fe))
    return out


def attached_message_sinks(view):
    """Call sites that attach messages to a Response: [(block, term, kind)]."""
    return view.calls_to(r"^cosmwasm_std::Response::add_(message|messages|submessage|submessages)$")


def writers_of(model, item_path, crates=None):
    out = []
    for p in list(model.all_paths()):
        if crates and model.fnsrc[p]["crate"] not in crates:
            continue
        for e in fn_effects(model, p):
            if e.kind == "write" and e.what == item_path:
                out.append((p, e))
    return out


def resolve_to_callers(model, path, origins, depth=3):
    """Replace bare-parameter origins of function `path` by the origins of the operands passed at its direct call sites,
    recursively (up to `depth` frames). Origins that are not bare parameters, and parameters of functions nobody in the
    workspace calls (entry points), are kept."""
    out = set()
    for o in origins:
        done = False
        if o.kind == "param" and depth > 0 and (o.b in (None, path)):
            callers = [(cp, cb) for (cp, cb, ck) in model.callers().get(path, []) if ck == "call"]
            for cp, cb in callers:
                cv = model.view(cp)
                ct = cv.blocks[cb]["t"]
                if o.a - 1 < len(ct["args"]):
                    sub = cv.origins_of_operand(ct["args"][o.a - 1], proj=tuple(o.proj), at=cv.at_term(cb))
                    out |= resolve_to_callers(model, cp, sub, depth - 1)
                    done = True
        if not done:
            out.add(o)
    return out


def check_independent_optional_updates(ctx, rule, v, item_suffix, fields=None):
    """An update handler of the form `if let Some(x) = x { config.x = x }` per optional request field: the assignment of
    each field must be reachable with ONLY that field present (every other optional parameter None) -- nesting one field's
    update inside another's `Some` arm makes a request that names only the inner field succeed without changing anything."""
    from ..dataflow import field_sources, variant_excluded_edges
    opt = [i for i in range(1, v.argc + 1) if v.local_ty(i).startswith("std::option::Option<")]
    saves = storage_calls(v, item_suffix, ("save",))
    if not saves or not opt:
        ctx.missing(rule, "%s.save / optional parameters in %s" % (item_suffix.split("::")[-1], v.path))
        return 0
    n = 0
    seen = set()
    for sb, t in saves:
        # the fields of the saved value that this handler assigns: `config.f = x` statements on the loaded value, or the
        # fields of the struct literal the saved value is rebuilt from
        cand = set()
        for b, i, s_ in v.iter_stmts():
            F = v._named_fields(s_["lhs"]["p"])
            if len(F) == 1 and s_["rv"]["r"] == "use":
                base = v.origins_of_place({"l": s_["lhs"]["l"], "p": []}, at=(b, i))
                if any(o.kind == "load" and o.a.endswith(item_suffix) for o in base):
                    cand.add(F[0])
        aggs = {o.a for o in v.origins_of_operand(t["args"][2], at=v.at_term(sb)) if o.kind == "agg"}
        for b, i, s_ in v.iter_stmts():
            rv = s_["rv"]
            if rv["r"] == "agg" and "adt" in rv and "%s::%s" % (rv["adt"], rv["variant"]) in aggs:
                cand |= set(rv.get("fields") or [])
        for fld in sorted(cand):
            if fields is not None and fld not in fields:
                continue
            for src_ in field_sources(v, t["args"][2], (fld,), v.at_term(sb)):
                if src_.kind != "assign" or src_.operand is None:
                    continue
                b = src_.block
                src = v.origins_of_operand(src_.operand, at=(src_.block, src_.idx), taint=True)
                own = {o.a for o in src if o.kind == "param" and o.a in opt}
                if len(own) != 1 or (fld, b) in seen:
                    continue
                seen.add((fld, b))
                own = next(iter(own))
                cut = set()
                for q in opt:
                    if q == own:
                        continue
                    pred = lambda os_, q=q: bool(os_) and all(o.kind == "param" and o.a == q for o in os_)
                    cut |= variant_excluded_edges(v, "option::Option", pred, "None")
                reach = v.reachable(0, cut_edges=cut)
                ok = b in reach and sb in v.reachable(b, cut_edges=cut)
                n += 1
                ctx.ob(rule, "%s|%s|updated-on-its-own" % (v.path, fld), ok,
                       "with only the `%s` request field present the assignment %s reached and saved" % (fld, "is" if ok else "is NOT"), v.where(b))
    return n


def check_migration_copy(ctx, model, rule, path, adt_suffix, new_fields):
    """A storage migration that rebuilds records of type `adt_suffix`: every field of the rebuilt record is copied from the
    SAME-NAMED field of the record being migrated, except the fields the migration introduces (`new_fields`, frozen list).
    A ledger field reset to a constant, or filled from a differently named field, silently rewrites every stored ledger."""
    fns = [path] + model.closures_of(path)
    n = 0
    for q in fns:
        if q not in model.fnsrc:
            continue
        v = model.view(q)
        for b, i, s_ in v.iter_stmts():
            rv = s_["rv"]
            if rv["r"] != "agg" or not rv.get("adt", "").endswith(adt_suffix):
                continue
            n += 1
            bad = []
            for name, op in zip(rv["fields"], rv["ops"]):
                if name in new_fields:
                    continue
                os_ = v.origins_of_operand(op, at=(b, i))
                if not (os_ and all(o.proj and o.proj[-1] == name for o in os_)):
                    bad.append("%s <- %s" % (name, sorted(map(repr, os_))))
            ctx.ob(rule, "%s|%s|fields-copied-from-the-old-record" % (q, adt_suffix.split("::")[-1]), not bad,
                   "rebuilt %s: %s" % (adt_suffix.split("::")[-1], "; ".join(bad) if bad else "every pre-existing field copied from the same-named old field"), v.where(b))
    if n == 0:
        ctx.missing(rule, "%s rebuilt in %s" % (adt_suffix, path))


_VEC_ADD_RE = re.compile(r"^std::(?:vec::Vec|collections::VecDeque)::(push|push_back|insert|append|extend_from_slice)$"
                         r"|^<std::vec::Vec<.*> as std::iter::Extend<.*>>::(extend)$")


def vec_additions(view, elem_ty_rx=None):
    """Every place of this function where elements are added to a growable vector, in whatever spelling:
    [(block, term_or_None, operand, how, at)] with how in push|insert|extend|append|literal; `at` is the program point at
    which the operand's provenance is to be read; entries are listed in source order within one literal. `v.push(x)` / `v.insert(i, x)` add
    the operand; `v.extend(xs)` / `v.append(&mut w)` add the elements of the operand (an Option, a Vec, an iterator);
    `vec![a, b]` adds its elements in order (one entry per element, same block). `elem_ty_rx` filters on the type of the
    vector local when it is known."""
    out = []
    for b, t in view.iter_calls():
        m = _VEC_ADD_RE.search(mname(t))
        if not m or len(t["args"]) < 2:
            continue
        how = m.group(1) or m.group(2)
        if elem_ty_rx is not None and t["args"][0]["k"] in ("copy", "move"):
            tys = set()
            r = t["args"][0]["pl"]["l"]
            for d in view.defs().get(r, []):
                if d[0] == "s" and d[3]["rv"]["r"] == "ref":
                    tys.add(str(view.local_ty(d[3]["rv"]["pl"]["l"])))
            if tys and not any(re.search(elem_ty_rx, x) for x in tys):
                continue
        out.append((b, t, t["args"][-1], {"push_back": "push", "extend_from_slice": "extend"}.get(how, how), view.at_term(b)))
    # vec![..] literals: the array aggregate written into the box that box_assume_init_into_vec_unsafe turns into a Vec
    for b, t in view.calls_to(r"^std::boxed::box_assume_init_into_vec_unsafe$"):
        if elem_ty_rx is not None and not re.search(elem_ty_rx, str(view.local_ty(t["dest"]["l"]))):
            continue
        a0 = t["args"][0]
        if a0["k"] not in ("copy", "move"):
            continue
        boxes = {a0["pl"]["l"]} | view.alias_roots(a0["pl"]["l"])
        for sb, si, s_ in view.iter_stmts():
            if "*" not in s_["lhs"]["p"]:
                continue
            if not (({s_["lhs"]["l"]} | view.alias_roots(s_["lhs"]["l"])) & boxes):
                continue
            rv = s_["rv"]
            if rv["r"] == "agg" and rv.get("array"):
                for k, op in enumerate(rv["ops"]):
                    out.append((sb, None, op, "literal", (sb, si)))
    return out


_STR_CMP = re.compile(r"^<(?:std::string::String|str|&str|&std::string::String) as std::cmp::PartialEq(?:<.*>)?>::(eq|ne)$")


def closure_string_test(cv):
    """How a predicate closure compares strings: 'eq' (true when equal), 'ne' (true when different) or None (no
    string comparison / mixed). `!(a == b)` counts as 'ne'."""
    pol = set()
    for b, t in cv.iter_calls():
        m = _STR_CMP.search(mname(t))
        if not m:
            continue
        p = m.group(1)
        d = t["dest"]["l"]
        for sb, si, s_ in cv.iter_stmts():
            rv = s_["rv"]
            if rv["r"] == "un" and rv["op"] == "Not" and rv["a"].get("k") in ("copy", "move") and rv["a"]["pl"]["l"] == d:
                p = "ne" if p == "eq" else "eq"
        pol.add(p)
    return next(iter(pol)) if len(pol) == 1 else None


def membership_test(model, view, c):
    """A branch condition that tests membership of a string in a collection, in any of its spellings:
    `xs.iter().any(|x| x == d)` (true = member), `xs.iter().all(|x| x != d)` (true = NOT a member), `xs.contains(&d)`.
    Returns (collection origins, True if the condition being true means 'is a member') or None."""
    if c.kind != "call" or not c.term["args"]:
        return None
    n = c.callee
    a0 = view.origins_of_operand(c.term["args"][0], at=view.at_term(c.block))
    if n.endswith("::contains"):
        return a0, True
    which = "any" if n.endswith("as std::iter::Iterator>::any") else "all" if n.endswith("as std::iter::Iterator>::all") else None
    if which is None or len(c.term["args"]) < 2:
        return None
    tests = set()
    for o in view.origins_of_operand(c.term["args"][1], at=view.at_term(c.block), taint=True):
        if o.kind == "closure" and o.a in model.fnsrc:
            tests.add(closure_string_test(model.view(o.a)))
    if tests == {"eq"} and which == "any":
        return a0, True
    if tests == {"ne"} and which == "all":
        return a0, False
    return None


# ---------------------------------------------------------------------------------------
# a function together with the closures it creates (a `for` loop and an iterator pipeline are the same program)

def scope_views(model, path, depth=3, _chain=()):
    """[(view, chain)] for the function and, recursively, every closure created in it; `chain` is what guards.resolve
    needs to translate the closure's captured variables and element arguments back into the enclosing function."""
    if path not in model.fnsrc:
        return []
    v = model.view(path)
    out = [(v, _chain)]
    if depth > 0:
        for cb, cp, ops in v.closures_created():
            if cp in model.fnsrc:
                out += scope_views(model, cp, depth - 1, _chain + ((path, cb, "closure"),))
    return out


def scope_calls(model, path, rx):
    """[(view, chain, block, term)] call sites matching rx in the function or in one of its closures."""
    out = []
    for v, chain in scope_views(model, path):
        for b, t in v.calls_to(rx):
            out.append((v, chain, b, t))
    return out


def scope_origins(model, chain, view, operand, at, proj=(), taint=False):
    from ..guards import resolve
    return resolve(model, chain, view, view.origins_of_operand(operand, proj=proj, at=at, taint=taint), taint=taint, elems=True)


def scope_attached(model, chain, view, local):
    """The value in `local` reaches the response: directly (a response sink in its own function), or by being what the
    closure returns to an adapter call (`.map(|x| x.into_msg(..))`) whose result reaches one in the enclosing function."""
    from ..dataflow import forward_flow
    tainted, sinks, ret = forward_flow(view, [local])
    if sinks:
        return True
    if not chain:
        return bool(ret)
    if not ret:
        return False
    caller, cb, kind = chain[-1]
    pv = model.view(caller)
    for b_, cp, ops in pv.closures_created():
        if cp == view.path and b_ == cb:
            for sb, si, s_ in pv.iter_stmts():
                if sb == cb and s_["rv"]["r"] == "agg" and s_["rv"].get("closure") == cp:
                    return scope_attached(model, chain[:-1], pv, s_["lhs"]["l"])
    return False


def zero_test(view, c):
    """A branch condition that tests an unsigned quantity against zero, in any spelling: `x.is_zero()`, `x == T::zero()`,
    `x != zero`, `x > zero`, `zero < x`, `x <= zero`. Returns (operand x, program point, True if the condition being true
    means x != 0) or None."""
    from ..dataflow import const_of, cond_at, FLIP
    if c.kind == "call" and c.callee.endswith("::is_zero") and c.term["args"]:
        return c.term["args"][0], view.at_term(c.block), bool(c.neg)
    if c.kind != "cmp" or c.b is None:
        return None
    at = cond_at(view, c)
    ka, kb = const_of(view, c.a, at), const_of(view, c.b, at)
    if kb == 0 and ka is None:
        x, op = c.a, c.op
    elif ka == 0 and kb is None:
        x, op = c.b, FLIP[c.op]
    else:
        return None
    nz = {"!=": True, ">": True, "==": False, "<=": False}.get(op)
    if nz is None:
        return None
    return x, at, nz


def nonzero_edges(view, b, c):
    """(operand, at, edges taken when the operand is non-zero, edges taken when it is zero) for a zero test, else None."""
    from ..mir import cmp_true_false_edges
    z = zero_test(view, c)
    if z is None:
        return None
    x, at, nz = z
    te, fe = cmp_true_false_edges(view, b, c)
    return (x, at, te, fe) if nz else (x, at, fe, te)
