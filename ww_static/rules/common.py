"""Small helpers shared by the rule modules."""
import re
from ..facts import mname, term_callee
from ..mir import storage_call, switch_conds
from ..effects import fn_effects


def calls(view, rx):
    return view.calls_to(rx)


def arg_origins(view, b, t, i, proj=(), taint=False):
    if i >= len(t["args"]):
        return set()
    return view.origins_of_operand(t["args"][i], proj=proj, at=view.at_term(b), taint=taint)


def strip_proj(os_):
    """Origin identities without their projections."""
    return {(o.kind, o.a, o.b) for o in os_}


def must_pass_through(view, block, targets):
    """Every path entry -> any target passes through `block`."""
    r = view.reachable(0, cut_blocks=[block])
    return not (r & set(targets))


def ok_value_blocks(view):
    """Blocks where `_0 = Ok(..)` is built."""
    out = []
    for b, i, s in view.iter_stmts():
        if s["lhs"]["l"] == 0 and not s["lhs"]["p"] and s["rv"]["r"] == "agg" and s["rv"].get("variant") == "Ok":
            out.append(b)
    return out


def storage_calls(view, item_suffix, methods):
    out = []
    for b, t in view.iter_calls():
        sc = storage_call(t)
        if sc and sc[1] in methods:
            if any(o.kind == "item" and o.a.endswith(item_suffix) for o in view.storage_item_of_call(t, view.at_term(b))):
                out.append((b, t))
    return out


def branch_edges_on(view, pred):
    """[(block, cond, true_edges, false_edges)] for switches whose resolved condition satisfies pred."""
    from ..mir import cmp_true_false_edges
    out = []
    for b, c, _ in switch_conds(view):
        if pred(c):
            te, fe = cmp_true_false_edges(view, b, c)
            out.append((b, c, te, fe))
    return out


def attached_message_sinks(view):
    """Call sites that attach messages to a Response: [(block, term, kind)]."""
    return view.calls_to(r"^cosmwasm_std::Response::add_(message|messages|submessage|submessages)$")


def writers_of(model, item_path, crates=None):
    out = []
    for p in list(model.all_paths()):
        if crates and model.fnsrc[p]["crate"] not in crates:
            continue
        for e in fn_effects(model, p):
            if e.kind == "write" and e.what == item_path:
                out.append((p, e))
    return out


def resolve_to_callers(model, path, origins, depth=3):
    """Replace bare-parameter origins of function `path` by the origins of the operands passed at its direct call sites,
    recursively (up to `depth` frames). Origins that are not bare parameters, and parameters of functions nobody in the
    workspace calls (entry points), are kept."""
    out = set()
    for o in origins:
        done = False
        if o.kind == "param" and depth > 0 and (o.b in (None, path)):
            callers = [(cp, cb) for (cp, cb, ck) in model.callers().get(path, []) if ck == "call"]
            for cp, cb in callers:
                cv = model.view(cp)
                ct = cv.blocks[cb]["t"]
                if o.a - 1 < len(ct["args"]):
                    sub = cv.origins_of_operand(ct["args"][o.a - 1], proj=tuple(o.proj), at=cv.at_term(cb))
                    out |= resolve_to_callers(model, cp, sub, depth - 1)
                    done = True
        if not done:
            out.add(o)
    return out
