"""C20 -- epoch clocks only move forward, one epoch at a time, never early."""
import re
from fractions import Fraction
from ..facts import mname
from ..mir import storage_call, switch_conds
from ..dataflow import (field_sources, two_var_table, call_shape, const_of, call_of)
from ..effects import fn_effects, collect_effects
from ..guards import is_sender, origins_at
from .C18 import saves_of

EXPLANATION = """
E1: in epoch_manager::create_epoch and fee_distributor::create_new_epoch the effect (EPOCH.save / the ForwardFees
sub-message) is reachable exactly when elapsed >= duration, where `elapsed` is recognised by provenance as
block.time.minus_nanos(current epoch start) and `duration` as the loaded CONFIG.epoch_config.duration; the three
orderings (<, =, >) are walked through the CFG. The distributor's first-epoch branch additionally rejects
block.time < genesis. E2: the stored id is checked_add(previous id, 1) and the stored start_time is
plus_nanos(previous start_time, CONFIG duration) (genesis_epoch in the distributor's first-epoch branch), by
tracing the sources of those two fields of the saved/forwarded Epoch. E3: between the distributor building the
epoch and saving it in its reply, neither the fee collector (forward_fees, reply) nor the distributor's reply
assigns id or start_time; the collector saves the epoch from the message and returns the one it loaded. E4: only
instantiate/create_epoch write EPOCH; only reply/claim write EPOCHS (migrations excepted). E5: prepare_hooks is
called once on the success path and its result attached with add_submessages. E6: there is no sender test on the
creation paths. Induction over successful creations (each moves start by exactly one duration and id by one,
and E1 is evaluated on the stored start) gives the gap-free clock; the induction itself is an argument, not a
tool result. E7: every path storing a distributor epoch_config validates that value with validate_epoch_config, which
accepts exactly duration >= 1 day. E8: the epoch manager's Epoch{id} query derives a past epoch's start from the stored
clock: current.start_time - duration * (current.id - id). E6 also covers the entry points (no admin assertion or sender
comparison in front of the creating arm). E9: the epoch manager stores its start epoch only when genesis == start time.
"""
ASSUMPTIONS = [
    "cw_controllers::Hooks::prepare_hooks produces exactly one message per registered hook (trusted library)",
    "a pre-genesis call in the epoch manager aborts in Timestamp::minus_nanos (underflow) -- an abort is a rejection without change",
]


def is_env_time(v):
    def f(os_):
        return bool(os_) and all(o.kind == "param" and v.local_ty(o.a).endswith("cosmwasm_std::Env")
                                 and tuple(o.proj) == ("block", "time") for o in os_)
    return f


def ends_with(*proj):
    def f(os_):
        return bool(os_) and all(tuple(o.proj[-len(proj):]) == tuple(proj) for o in os_)
    return f


def loaded(item_suffix, *proj):
    def f(os_):
        return bool(os_) and all(o.kind == "load" and o.a.endswith(item_suffix) and tuple(o.proj) == tuple(proj) for o in os_)
    return f


def run(ctx):
    model = ctx.model()
    check_duration_floor(ctx, model)
    check_entry_permissionless(ctx, model)
    check_manager_genesis(ctx, model)
    check_hooks_carry_the_new_epoch(ctx, model)
    check_query_epoch(ctx, model)
    # ---------------- epoch manager -------------------------------------------------------
    p = "epoch_manager::commands::create_epoch"
    v = ctx.view(p, "C20-E1")
    if v is not None:
        prev_start = loaded("epoch_manager::state::EPOCH", "start_time")
        dur = loaded("epoch_manager::state::CONFIG", "epoch_config", "duration")
        elapsed = lambda os_: call_shape(v, os_, r"^cosmwasm_std::Timestamp::minus_nanos$", [is_env_time(v), prev_start])
        saves = saves_of(v, "epoch_manager::state::EPOCH")
        tab, n, blocks = two_var_table(v, elapsed, dur, [b for b, _ in saves])
        exp = {"<": False, "=": True, ">": True}
        ctx.ob("C20-E1", "%s|not-early" % p, n > 0 and tab == exp,
               "EPOCH.save reachable for elapsed vs duration: %s; documented %s (tracked comparisons at %s)" % (tab, exp, blocks), v.where())
        for sb, t in saves:
            check_next(ctx, v, t["args"][2], sb, loaded("epoch_manager::state::EPOCH", "id"), prev_start, dur, p, genesis=None)
        # E5 hooks
        hooks = v.calls_to(r"^cw_controllers::Hooks::prepare_hooks$")
        # attached in one call or element by element (`for m in messages { response = response.add_submessage(m) }`)
        adds = v.calls_to(r"^cosmwasm_std::Response::add_submessages?$")
        ok = len(hooks) == 1 and len(adds) >= 1
        if ok:
            hb, ht = hooks[0]
            okflow = False
            for ab, at_ in adds:
                os_ = v.origins_of_operand(at_["args"][1], at=v.at_term(ab))
                if any(o.kind == "call" and o.a == "cw_controllers::Hooks::prepare_hooks" for o in os_):
                    okflow = True
            recv = v.origins_of_operand(ht["args"][0], at=v.at_term(hb))
            ok = okflow and all(o.kind == "item" and o.a.endswith("::state::HOOKS") for o in recv) and bool(recv)
            # after the save, on the success path
            ok = ok and all(hb in v.reach_strict(sb) for sb, _ in saves)
        ctx.ob("C20-E5", "%s|hooks-once-attached" % p, ok,
               "prepare_hooks calls: %d, attached through add_submessages and after EPOCH.save: %s" % (len(hooks), ok), v.where())
        check_no_sender_test(ctx, model, v, p)
    # ---------------- fee distributor ---------------------------------------------------
    p = "fee_distributor::commands::create_new_epoch"
    v = ctx.view(p, "C20-E1")
    if v is not None:
        cur = lambda *proj: (lambda os_: bool(os_) and all(o.kind == "call" and o.a == "fee_distributor::state::get_current_epoch"
                                                           and tuple(o.proj) == ("epoch",) + tuple(proj) for o in os_))
        prev_start = cur("start_time")
        dur = loaded("fee_distributor::state::CONFIG", "epoch_config", "duration")
        elapsed = lambda os_: call_shape(v, os_, r"^cosmwasm_std::Timestamp::minus_nanos$", [is_env_time(v), prev_start])
        targets = [e.block for e in fn_effects(model, p) if e.kind == "msg" and e.what.endswith("SubMsg::SubMsg")]
        if not targets:
            ctx.missing("C20-E1", "ForwardFees sub-message in %s" % p)
        tab, n, blocks = two_var_table(v, elapsed, dur, targets)
        exp = {"<": False, "=": True, ">": True}
        ctx.ob("C20-E1", "%s|not-early" % p, n > 0 and tab == exp,
               "ForwardFees sub-message reachable for elapsed vs duration: %s; documented %s" % (tab, exp), v.where())
        # the forwarded epoch
        epochs = [(b, i, s) for b, i, s in v.iter_stmts() if s["rv"]["r"] == "agg" and s["rv"].get("adt", "").endswith("fee_distributor::Epoch")]
        if not epochs:
            ctx.missing("C20-E2", "Epoch aggregate in %s" % p)
        gen = loaded("fee_distributor::state::CONFIG", "epoch_config", "genesis_epoch")
        for b, i, s in epochs:
            check_next(ctx, v, {"k": "copy", "pl": s["lhs"]}, b, cur("id"), prev_start, dur, p, genesis=gen, at=(b, i + 1))
        # genesis guard: block.time < genesis -> Err on the genesis branch
        gsrc_blocks = []
        for b, i, s in epochs:
            for src in field_sources(v, {"k": "copy", "pl": s["lhs"]}, ("start_time",), (b, i + 1)):
                if src.operand is None:
                    continue
                if gen(v.origins_of_operand(src.operand, at=(src.block, src.idx))):
                    gsrc_blocks.append(src.block)
                elif src.operand["k"] in ("copy", "move") and not src.operand["pl"]["p"]:
                    # `let start_time = if first { genesis } else { prev + duration }`: the definition that carries genesis
                    for d in v.defs().get(src.operand["pl"]["l"], []):
                        if d[0] == "s" and d[3]["rv"]["r"] == "use" and gen(v.origins_of_operand(d[3]["rv"]["op"], at=(d[1], d[2]))):
                            gsrc_blocks.append(d[1])
        # fall back: blocks where a local is assigned from the genesis value
        gblocks = set()
        for b, i, s in v.iter_stmts():
            if s["rv"]["r"] == "use" and s["rv"]["op"]["k"] in ("copy", "move"):
                if gen(v.origins_of_operand(s["rv"]["op"], at=(b, i))) and "Timestamp" in v.local_ty(s["lhs"]["l"]):
                    gblocks.add(b)
        if gsrc_blocks:
            gblocks = set(gsrc_blocks)      # where the new epoch's start_time actually receives the genesis value
        tab, n, blocks = two_var_table(v, is_env_time(v), gen, sorted(gblocks))
        expg = {"<": False, "=": True, ">": True}
        ctx.ob("C20-E1", "%s|not-before-genesis" % p, n > 0 and bool(gblocks) and tab == expg,
               "genesis start reachable for block.time vs genesis_epoch: %s; documented %s" % (tab, expg), v.where())
        # the genesis branch is taken only for the never-advanced default epoch
        check_no_sender_test(ctx, model, v, p)
    check_roundtrip(ctx, model)
    check_writers(ctx, model)


def check_next(ctx, v, value_op, site_block, prev_id, prev_start, dur, p, genesis, at=None):
    """E2: sources of .id and .start_time of the epoch value."""
    at = at or v.at_term(site_block)
    one = lambda os_: False
    id_srcs = [s for s in field_sources(v, value_op, ("id",), at) if s.kind in ("assign", "agg")]
    ok_id = bool(id_srcs)
    det = []
    for s in id_srcs:
        os_ = v.origins_of_operand(s.operand, at=(s.block, s.idx)) if s.operand else set()
        good = False
        if os_:
            good = True
            for o in os_:
                c = call_of(v, o)
                if c is None or not re.search(r"(u64|cosmwasm_std::Uint64)::checked_add$|^std::num::checked_add$", mname(c[1])):
                    good = False
                    break
                cb, ct = c
                a0 = v.origins_of_operand(ct["args"][0], at=v.at_term(cb))
                k = const_of(v, ct["args"][1], v.at_term(cb))
                if not prev_id(a0) or k != 1:
                    good = False
        det.append("%r <- %s [%s]" % (s, sorted(map(repr, os_)), "ok" if good else "BAD"))
        ok_id = ok_id and good
    ctx.ob("C20-E2", "%s|id=prev+1" % p, ok_id, "id sources: %s (must be checked_add(previous id, 1))" % det, v.where(site_block))
    st_srcs = [s for s in field_sources(v, value_op, ("start_time",), at) if s.kind in ("assign", "agg")]
    ok_st = bool(st_srcs)
    det = []
    # expand one level of plain local copies (start_time computed into a local by if/else)
    expanded = []
    for s in st_srcs:
        if s.operand is not None and s.operand["k"] in ("copy", "move"):
            os_ = v.origins_of_operand(s.operand, at=(s.block, s.idx))
            expanded.append((s, os_))
        else:
            expanded.append((s, set()))
    n_gen = 0
    for s, os_ in expanded:
        good = bool(os_)
        for o in os_:
            c = call_of(v, o)
            if c is not None and mname(c[1]) == "cosmwasm_std::Timestamp::plus_nanos":
                cb, ct = c
                a0 = v.origins_of_operand(ct["args"][0], at=v.at_term(cb))
                a1 = v.origins_of_operand(ct["args"][1], at=v.at_term(cb))
                if not (prev_start(a0) and dur(a1)):
                    good = False
            elif genesis is not None and genesis({o}):
                n_gen += 1
            else:
                good = False
        det.append("%r <- %s [%s]" % (s, sorted(map(repr, os_)), "ok" if good else "BAD"))
        ok_st = ok_st and good
    ctx.ob("C20-E2", "%s|start=prev+duration" % p, ok_st,
           "start_time sources: %s (must be plus_nanos(previous start, CONFIG duration)%s)" % (
               det, " or the configured genesis" if genesis else ""), v.where(site_block))


def check_no_sender_test(ctx, model, v, p):
    """E6: anyone may create an epoch -- no comparison involving the caller."""
    bad = []
    for b, c, _ in switch_conds(v):
        if c.kind == "cmp":
            at = v.at_term(c.site[1]) if c.site[0] == "c" else (c.site[1], c.site[2])
            for side in (c.a, c.b):
                for o in v.origins_of_operand(side, at=at):
                    if o.kind == "param" and "MessageInfo" in v.local_ty(o.a):
                        bad.append("bb%d" % b)
    ctx.ob("C20-E6", "%s|permissionless" % p, not bad, "sender-dependent tests on the creation path: %s" % bad, v.where(), nontrivial=True)


def check_roundtrip(ctx, model):
    """E3: the epoch forwarded by the distributor comes back unchanged in id/start_time."""
    # collector forward_fees: TMP_EPOCH.save(value from the message parameter)
    p = "fee_collector::commands::forward_fees"
    v = ctx.view(p, "C20-E3")
    if v is not None:
        saves = saves_of(v, "fee_collector::state::TMP_EPOCH")
        if not saves:
            ctx.missing("C20-E3", "TMP_EPOCH.save in %s" % p)
        for sb, t in saves:
            os_ = v.origins_of_operand(t["args"][2], at=v.at_term(sb))
            ok = bool(os_) and all(o.kind == "param" and "Epoch" in v.local_ty(o.a) and not o.proj for o in os_)
            srcs = [s for f in ("id", "start_time") for s in field_sources(v, t["args"][2], (f,), v.at_term(sb)) if s.kind in ("assign", "partial", "agg")]
            ctx.ob("C20-E3", "%s|tmp-epoch-is-message-epoch" % p, ok and not srcs,
                   "TMP_EPOCH saved from %s; id/start_time assignments: %s" % (sorted(map(repr, os_)), srcs), v.where(sb))
    # collector reply: epoch in the response data comes from TMP_EPOCH, id/start_time untouched
    p = "fee_collector::contract::reply"
    v = ctx.view(p, "C20-E3")
    if v is not None:
        aggs = [(b, i, s) for b, i, s in v.iter_stmts() if s["rv"]["r"] == "agg" and s["rv"].get("adt", "").endswith("ForwardFeesResponse")]
        if not aggs:
            ctx.missing("C20-E3", "ForwardFeesResponse in %s" % p)
        for b, i, s in aggs:
            for f in ("id", "start_time"):
                srcs = field_sources(v, {"k": "copy", "pl": s["lhs"]}, ("epoch", f), (b, i + 1))
                bad = [x for x in srcs if x.kind != "load"]
                loads = [x for x in srcs if x.kind == "load" and "TMP_EPOCH" in (x.detail or "")]
                ctx.ob("C20-E3", "%s|response-epoch-%s" % (p, f), bool(loads) and not bad,
                       "ForwardFeesResponse.epoch.%s sources: %s (must only be the loaded TMP_EPOCH)" % (f, srcs), v.where(b))
    # distributor reply: EPOCHS.save(new_epoch) with id/start_time only from the parsed response
    p = "fee_distributor::contract::reply"
    v = ctx.view(p, "C20-E3")
    if v is not None:
        n = 0
        k = 0
        for b, t in v.iter_calls():
            sc = storage_call(t)
            if sc and sc[1] == "save" and any(o.kind == "item" and o.a.endswith("::state::EPOCHS") for o in v.storage_item_of_call(t, v.at_term(b))):
                val = t["args"][3]
                for f in ("id", "start_time"):
                    srcs = field_sources(v, val, (f,), v.at_term(b))
                    bad = [x for x in srcs if x.kind in ("assign", "partial", "const", "param")]
                    os_ = v.origins_of_operand(val, proj=(f,), at=v.at_term(b))
                    good = bool(os_) and all(
                        (o.kind == "call" and o.a == "cosmwasm_std::from_json" and tuple(o.proj) == ("epoch", f)) or
                        (o.kind == "call" and o.a == "fee_distributor::state::get_expiring_epoch" and tuple(o.proj) == (f,))
                        for o in os_)
                    n += 1
                    ctx.ob("C20-E3", "%s|saved-epoch-%s|save#%d" % (p, f, k), good and not bad,
                           "EPOCHS.save value .%s origins: %s; assignments: %s (must come unchanged from the ForwardFeesResponse / "
                           "the stored expiring epoch)" % (f, sorted(map(repr, os_)), bad), v.where(b))
                k += 1
        ctx.floor("C20-E3", "EPOCHS.save field obligations in distributor reply", n, 4)


def check_writers(ctx, model):
    allowed = {
        "epoch_manager::state::EPOCH": {"epoch_manager::contract::instantiate", "epoch_manager::commands::create_epoch"},
        "fee_distributor::state::EPOCHS": {"fee_distributor::contract::reply", "fee_distributor::commands::claim"},
    }
    n = 0
    for p in list(model.all_paths()):
        if model.fnsrc[p]["crate"] not in ("epoch_manager", "fee_distributor"):
            continue
        for e in fn_effects(model, p):
            if e.kind == "write" and e.what in allowed:
                n += 1
                base = p.split("::{closure")[0]
                is_mig = "::migrations::" in p or p.endswith("::contract::migrate")
                ctx.ob("C20-E4", "%s|%s" % (e.what, base), base in allowed[e.what] or is_mig,
                       "%s written by %s" % (e.what, p) + ("" if base in allowed[e.what] or is_mig else " -- UNLISTED writer of the epoch clock"),
                       model.view(p).where(e.block), nontrivial=not is_mig)
    ctx.floor("C20-E4", "epoch clock write sites", n, 4)


def check_duration_floor(ctx, model):
    """E7: the distributor's epoch duration is what makes "not before a full day" true, so every path that stores a new
    epoch_config (instantiate, update_config) passes validate_epoch_config applied to THAT value, and the validator accepts
    exactly duration >= 86400 s (rules shared with C18-store / C18-validator)."""
    from .C18 import validated_store, table_check, origin_pred_param_field, ok_blocks
    n = 0
    for fn in ["fee_distributor::contract::instantiate", "fee_distributor::commands::update_config"]:
        v = ctx.view(fn, "C20-E7")
        if v is not None:
            n += validated_store(ctx, "C20-E7", v, "fee_distributor::state::CONFIG", ("epoch_config",),
                                 r"^fee_distributor::helpers::validate_epoch_config$", "validate_epoch_config")
    ctx.floor("C20-E7", "paths storing a new epoch_config", n, 2)
    p = "fee_distributor::helpers::validate_epoch_config"
    v = ctx.view(p, "C20-E7")
    if v is not None:
        table_check(ctx, "C20-E7", p, v, origin_pred_param_field(1, ("duration",)), [Fraction(86400 * 10**9)],
                    lambda x: x >= 86400 * 10**9, ok_blocks(v), what="epoch duration")


def check_query_epoch(ctx, model):
    """E8: the epoch manager's Epoch{id} query reports the same clock the contract keeps: the stored epoch itself for the
    current id, otherwise start_time = current.start_time - duration * (current.id - id) (operator tree, spelling normalised)."""
    from ..dataflow import expr_shape, norm_shape
    p = "epoch_manager::queries::query_epoch"
    v = ctx.view(p, "C20-E8")
    if v is None:
        return
    idp = None
    for i in range(1, v.argc + 1):
        if v.local_ty(i) == "u64":
            idp = i
    aggs = [(b, i, s_) for b, i, s_ in v.iter_stmts() if s_["rv"]["r"] == "agg" and s_["rv"].get("adt", "").endswith("EpochV2")]
    if len(aggs) != 1 or idp is None:
        ctx.missing("C20-E8", "single EpochV2 built in query_epoch")
        return
    b, i, s_ = aggs[0]
    f = dict(zip(s_["rv"]["fields"], s_["rv"]["ops"]))
    E = lambda fld: "load(epoch_manager::state::EPOCH).%s" % fld
    want_start = norm_shape(("minus_nanos", (E("start_time"), ("mul", ("load(epoch_manager::state::CONFIG).epoch_config.duration",
                                                                       ("sub", (E("id"), "param(%d)" % idp)))))))
    got_start = norm_shape(expr_shape(v, f["start_time"], (b, i), depth=6))
    got_start_n = got_start
    got_id = norm_shape(expr_shape(v, f["id"], (b, i), depth=2))
    ctx.ob("C20-E8", "%s|past-epoch-relative-to-the-stored-clock" % p, got_start_n == want_start and got_id == "param(%d)" % idp,
           "Epoch{id}: id := %s, start_time := %s (expected %s)" % (got_id, got_start, want_start), v.where(b))


def check_entry_permissionless(ctx, model):
    """E6 (entry point): on the way from `execute` to the creation handler nothing depends on who calls: the arm of the
    creating variant (epoch manager CreateEpoch, distributor NewEpoch) is not dominated by an admin assertion or by a
    comparison involving info.sender placed in `execute` itself."""
    from ..effects import dispatch_table, arm_blocks
    for crate, variant in (("epoch_manager", "CreateEpoch"), ("fee_distributor", "NewEpoch")):
        root = "%s::contract::execute" % crate
        v = ctx.view(root, "C20-E6")
        if v is None:
            continue
        dt = dispatch_table(v)
        if not dt or variant not in dt[2]:
            ctx.missing("C20-E6", "%s arm of %s" % (variant, root))
            continue
        sb, _, table = dt[0], dt[1], dt[2]
        ab = arm_blocks(v, table[variant], sb)
        arm_entry = table[variant]
        bad = []
        # blocks every path to the arm passes through (entry .. dispatch): any admin assertion / sender comparison there gates the arm
        for b in sorted(v.live_blocks()):
            if b in ab or arm_entry in v.reachable(0, cut_blocks=[b]):
                continue    # not a dominator of the arm
            t = v.blocks[b]["t"]
            if t["k"] == "call":
                n = mname(t)
                if re.search(r"Admin::assert_admin$|Admin::is_admin$|assert_owner|assert_admin$", n):
                    bad.append("%s at bb%d" % (n.split("::")[-1], b))
        for b, c, _ in switch_conds(v):
            if b in ab or arm_entry in v.reachable(0, cut_blocks=[b]):
                continue
            if c.kind == "cmp":
                at = v.at_term(c.site[1]) if c.site[0] == "c" else (c.site[1], c.site[2])
                for side in (c.a, c.b):
                    if any(o.kind == "param" and "MessageInfo" in v.local_ty(o.a) for o in v.origins_of_operand(side, at=at)):
                        bad.append("sender comparison at bb%d" % b)
        ctx.ob("C20-E6", "%s::%s|entry-permissionless" % (crate, variant), not bad,
               "caller-dependent gates in front of the %s arm: %s" % (variant, bad or "none"), v.where(arm_entry))


def check_manager_genesis(ctx, model):
    """E9: the epoch manager has no genesis guard in create_epoch; "not before genesis" holds because instantiate stores a
    start epoch only when genesis_epoch == start_epoch.start_time (both orderings of a mismatch rejected)."""
    p = "epoch_manager::contract::instantiate"
    v = ctx.view(p, "C20-E9")
    if v is None:
        return
    gen = lambda os_: bool(os_) and all(o.kind == "param" and tuple(o.proj[-2:]) == ("epoch_config", "genesis_epoch") for o in os_)
    st = lambda os_: bool(os_) and all(o.kind == "param" and tuple(o.proj[-2:]) == ("start_epoch", "start_time") for o in os_)
    saves = saves_of(v, "epoch_manager::state::EPOCH")
    tab, n, blocks = two_var_table(v, gen, st, [b for b, _ in saves])
    exp = {"<": False, "=": True, ">": False}
    ctx.ob("C20-E9", "%s|genesis==start" % p, n > 0 and tab == exp,
           "EPOCH.save reachable for genesis_epoch vs start_epoch.start_time: %s; documented %s (tracked comparisons at %s)" % (tab, exp, blocks), v.where())


def check_hooks_carry_the_new_epoch(ctx, model):
    """E5 (payload): the epoch each hook is told about is the epoch that was just saved (the new one), not the value
    loaded before the update: the provenance of EpochChangedHookMsg.current_epoch inside the prepare_hooks closure,
    resolved to the enclosing function, equals the provenance of the value passed to EPOCH.save."""
    from ..guards import resolve
    p = "epoch_manager::commands::create_epoch"
    v = ctx.view(p, "C20-E5")
    if v is None:
        return
    saves = saves_of(v, "epoch_manager::state::EPOCH")
    hooks = v.calls_to(r"^cw_controllers::Hooks::prepare_hooks$")
    if not saves or not hooks:
        ctx.missing("C20-E5", "EPOCH.save / prepare_hooks in create_epoch")
        return
    saved = set()
    for sb, t in saves:
        saved |= {(o.kind, o.a, o.b, tuple(o.proj)) for o in v.origins_of_operand(t["args"][2], at=v.at_term(sb))}
    told = set()
    # the payload is built inside the prepare_hooks closure or once, before it, in the function: wherever it is built
    from .common import scope_views, scope_origins
    for cv, chain in scope_views(model, p):
        for b, i, s_ in cv.iter_stmts():
            rv = s_["rv"]
            if rv["r"] == "agg" and rv.get("adt", "").endswith("EpochChangedHookMsg"):
                f = dict(zip(rv["fields"], rv["ops"]))
                for x in scope_origins(model, chain, cv, f["current_epoch"], (b, i)):
                    told.add((x.kind, x.a, x.b, tuple(x.proj)))
    ctx.ob("C20-E5", "%s|hooks-are-told-the-saved-epoch" % p, bool(told) and told == saved,
           "hook payload epoch from %s; saved epoch from %s" % (sorted(map(str, told))[:4], sorted(map(str, saved))[:4]), v.where(hooks[0][0]))
