"""C11 -- incentive contract: staked LP is held one-for-one and returned to its owner."""
import re
from ..facts import mname, term_callee
from ..mir import switch_conds, cmp_true_false_edges, storage_call
from ..dataflow import (two_var_table, call_of, cond_at, message_creations, forward_flow, field_sources,
                        variant_excluded_edges, const_of)
from ..guards import HelperGuard, site_guarded, resolve, ok_return_blocks
from .common import storage_calls, arg_origins, ok_value_blocks, must_pass_through, nonzero_edges
from .C12 import check_messages_attached

EXPLANATION = """
K1: in open_position and expand_position the success edge of validate_funds_sent(.., amount)? dominates the
OPEN_POSITIONS write; the amount recorded in the position (OpenPosition{amount} / pos.amount += amount, inside the update
closure, resolved through the captured variable) is the very parameter that was validated; the TransferFrom the
helper returns is attached (forward flow). K2: validate_funds_sent, sliced by the kind of LP asset: zero is rejected;
native: the Ok return is reachable only through the equality edge of must_pay(info, denom) == amount; cw20: the Ok
return is reachable only through the construction of TransferFrom{owner: sender, recipient: contract, amount} and
only when allowance >= amount. K3: close_position records the open position's own amount in CLOSED_POSITIONS and
both the CLOSED_POSITIONS update and the OPEN_POSITIONS save lie on every success path. K4: withdraw adds each
closed amount and removes that entry unconditionally together; the map key and the transfer recipient are both
info.sender. K5: the frontend helper pairs TransferFrom(amount) with IncreaseAllowance(pair, amount) per cw20 asset,
forwards info.funds, and its reply forwards the whole LP balance with receiver = the saved depositor, turning a
failed deposit into an error: every message of the reply lies behind the success edge of into_result() and from its
failure edge no successful return is reachable (however the result is tested: `?`, match, if let Err, is_err).
K6: the position lists are only edited in place: every OPEN_/CLOSED_POSITIONS.update closure returns the list it was
given (all Vec edits applied to it) and every save stores the list loaded from the same map.
"""
ASSUMPTIONS = [
    "cw_utils::must_pay returns the amount of the only coin sent and fails when other denoms are present",
    "LP balance = sum of positions over histories is the inductive consequence of K1-K4, not a tool result",
]

VFS = "incentive::funds_validation::validate_funds_sent"
OPEN = "incentive::execute::open_position::open_position"
EXPAND = "incentive::execute::expand_position::expand_position"
CLOSE = "incentive::execute::close_position::close_position"
WITHDRAW = "incentive::execute::withdraw::withdraw"


def pidx(v, suffix):
    for i in range(1, v.argc + 1):
        if v.local_ty(i).replace("&", "").strip().endswith(suffix):
            return i
    return None


def check_position_fn(ctx, model, p):
    v = ctx.view(p, "C11-K1")
    if v is None:
        return
    spec = HelperGuard("validate_funds_sent(..)?", r"^incentive::funds_validation::validate_funds_sent$")
    ups = storage_calls(v, "incentive::state::OPEN_POSITIONS", ("update", "save"))
    if not ups:
        ctx.missing("C11-K1", "OPEN_POSITIONS write in %s" % p)
        return
    amt_param = None
    for b, t in v.calls_to(r"^incentive::funds_validation::validate_funds_sent$"):
        a = arg_origins(v, b, t, 4)
        if a and all(o.kind == "param" and not o.proj for o in a):
            amt_param = next(iter(a)).a
        info = arg_origins(v, b, t, 3)
        ctx.ob("C11-K1", "%s|validated-sender" % p, bool(info) and all(o.kind == "param" and "MessageInfo" in v.local_ty(o.a) for o in info),
               "funds are validated against %s (must be the caller's MessageInfo)" % sorted(map(repr, info)), v.where(b))
        lp = arg_origins(v, b, t, 2)
        ctx.ob("C11-K1", "%s|validated-asset" % p, bool(lp) and all(o.kind == "load" and tuple(o.proj) == ("lp_asset",) for o in lp),
               "validated asset: %s (must be CONFIG.lp_asset)" % sorted(map(repr, lp)), v.where(b))
    if amt_param is None:
        ctx.ob("C11-K1", "%s|validated-amount" % p, False, "validate_funds_sent is not applied to an amount parameter", v.where())
        return
    for ub, ut in ups:
        ok, why = site_guarded(model, (), p, ub, spec)
        ctx.ob("C11-K1", "%s|validated-before-write" % p, ok, why or "OPEN_POSITIONS written without validate_funds_sent succeeding", v.where(ub))
        # amount recorded inside the closure
        rec_ok = False
        det = []
        for o in v.origins_of_operand(ut["args"][3], at=v.at_term(ub)):
            if o.kind == "closure" and o.a in model.fnsrc:
                cv = model.view(o.a)
                cb = int(o.b.rsplit(":bb", 1)[1])
                chain = ((v.path, cb, "closure"),)
                # OpenPosition { amount } aggregate or `pos.amount += amount`
                for b, i, s in cv.iter_stmts():
                    rv = s["rv"]
                    if rv["r"] == "agg" and rv.get("adt", "").endswith("incentive::OpenPosition"):
                        f = dict(zip(rv["fields"], rv["ops"]))
                        os_ = resolve(model, chain, cv, cv.origins_of_operand(f["amount"], at=(b, i)))
                        det.append("OpenPosition{amount: %s}" % sorted(map(repr, os_)))
                        rec_ok = bool(os_) and all(x.kind == "param" and x.b == p and x.a == amt_param and not x.proj for x in os_)
                for b, t in cv.iter_calls():
                    if re.search(r"Uint128 as std::ops::AddAssign>::add_assign$|Uint128::checked_add$", mname(t)):
                        os_ = resolve(model, chain, cv, cv.origins_of_operand(t["args"][1], at=cv.at_term(b)))
                        det.append("amount += %s" % sorted(map(repr, os_)))
                        rec_ok = bool(os_) and all(x.kind == "param" and x.b == p and x.a == amt_param and not x.proj for x in os_)
        ctx.ob("C11-K1", "%s|recorded-amount-is-validated-amount" % p, rec_ok,
               "position amount written: %s (must be the validated amount parameter #%d)" % (det, amt_param), v.where(ub))
    check_messages_attached(ctx, model, p, rule="C11-K1")


def check_vfs(ctx, model):
    v = ctx.view(VFS, "C11-K2")
    if v is None:
        return
    oks = ok_value_blocks(v)
    amount = pidx(v, "cosmwasm_std::Uint128")
    info = pidx(v, "cosmwasm_std::MessageInfo")
    env = pidx(v, "cosmwasm_std::Env")
    lp = pidx(v, "pool_network::asset::AssetInfo")
    is_amt = lambda os_: bool(os_) and all(o.kind == "param" and o.a == amount and not o.proj for o in os_)
    # zero rejected
    zero_ok = False
    for b, c, _ in switch_conds(v):
        nz = nonzero_edges(v, b, c)
        if nz is not None and is_amt(v.origins_of_operand(nz[0], at=nz[1])):
            bad = nz[3]
            r = set()
            for (_, tgt) in bad:
                r |= v.reachable(tgt)
            zero_ok = not (r & set(oks))
    ctx.ob("C11-K2", "%s|zero-rejected" % VFS, zero_ok, "amount == 0 cannot reach the Ok return: %s" % zero_ok, v.where())
    pred = lambda os_: bool(os_) and all(o.kind == "param" and o.a == lp and not o.proj for o in os_)
    # native
    excl = variant_excluded_edges(v, "pool_network::asset::AssetInfo", pred, "NativeToken")
    paid = lambda os_: bool(os_) and all(o.kind == "call" and o.a == "cw_utils::must_pay" for o in os_)
    ties = []
    for b, c, _ in switch_conds(v):
        if c.kind == "cmp" and c.op in ("==", "!="):
            at = cond_at(v, c)
            oa, ob = v.origins_of_operand(c.a, at=at), v.origins_of_operand(c.b, at=at)
            if (paid(oa) and is_amt(ob)) or (paid(ob) and is_amt(oa)):
                te, fe = cmp_true_false_edges(v, b, c)
                ties += te if c.op == "==" else fe
    reach = v.reachable(0, cut_edges=set(excl) | set(ties))
    ctx.ob("C11-K2", "%s|native|paid==amount" % VFS, bool(excl) and bool(ties) and not (reach & set(oks)),
           "native LP: Ok return reachable without the must_pay == amount edge: %s" % bool(reach & set(oks)), v.where())
    for b, t in v.calls_to(r"^cw_utils::must_pay$"):
        a0 = arg_origins(v, b, t, 0)
        ctx.ob("C11-K2", "%s|native|must_pay-on-caller-funds" % VFS, bool(a0) and all(o.kind == "param" and o.a == info for o in a0),
               "must_pay is applied to %s" % sorted(map(repr, a0)), v.where(b))
    # cw20
    excl = variant_excluded_edges(v, "pool_network::asset::AssetInfo", pred, "Token")
    tf_blocks = []
    for b, i, s in v.iter_stmts():
        rv = s["rv"]
        if rv["r"] == "agg" and rv.get("adt") == "cw20::Cw20ExecuteMsg" and rv.get("variant") == "TransferFrom":
            f = dict(zip(rv["fields"], rv["ops"]))
            a = v.origins_of_operand(f["amount"], at=(b, i))
            o_ = v.origins_of_operand(f["owner"], at=(b, i))
            r_ = v.origins_of_operand(f["recipient"], at=(b, i))
            good = is_amt(a) and bool(o_) and all(x.kind == "param" and x.a == info and tuple(x.proj) == ("sender",) for x in o_) and \
                bool(r_) and all(x.kind == "param" and x.a == env and tuple(x.proj) == ("contract", "address") for x in r_)
            ctx.ob("C11-K2", "%s|cw20|transfer-from-fields" % VFS, good,
                   "TransferFrom{owner: %s, recipient: %s, amount: %s}" % (sorted(map(repr, o_)), sorted(map(repr, r_)), sorted(map(repr, a))), v.where(b))
            if good:
                tainted, sinks, ret = forward_flow(v, [s["lhs"]["l"]])
                if ret:
                    tf_blocks.append(b)
    reach = v.reachable(0, cut_edges=set(excl), cut_blocks=tf_blocks)
    ctx.ob("C11-K2", "%s|cw20|ok-only-with-transfer" % VFS, bool(excl) and bool(tf_blocks) and not (reach & set(oks)),
           "cw20 LP: Ok return reachable without building the returned TransferFrom: %s" % bool(reach & set(oks)), v.where())
    allow = lambda os_: bool(os_) and all(o.kind == "call" and o.a.endswith("query_wasm_smart") and tuple(o.proj) == ("allowance",) for o in os_)
    tab, n, blocks = two_var_table(v, allow, is_amt, tf_blocks)
    exp = {"<": False, "=": True, ">": True}
    ctx.ob("C11-K2", "%s|cw20|allowance>=amount" % VFS, n > 0 and tab == exp, "TransferFrom built for allowance vs amount: %s; documented %s" % (tab, exp), v.where())


def check_close(ctx, model):
    v = ctx.view(CLOSE, "C11-K3")
    if v is None:
        return
    oks = ok_value_blocks(v)
    cl = storage_calls(v, "incentive::state::CLOSED_POSITIONS", ("update", "save"))
    op = storage_calls(v, "incentive::state::OPEN_POSITIONS", ("save", "update", "remove"))
    if not cl or not op:
        ctx.missing("C11-K3", "CLOSED_POSITIONS / OPEN_POSITIONS writes in close_position")
        return
    both = all(must_pass_through(v, b, oks) for b, _ in cl + op) and bool(oks)
    ctx.ob("C11-K3", "%s|move-is-atomic" % CLOSE, both, "CLOSED_POSITIONS push and OPEN_POSITIONS save both lie on every success path: %s" % both, v.where())
    ok_amt = False
    det = []
    for b, t in cl:
        for o in v.origins_of_operand(t["args"][3], at=v.at_term(b)):
            if o.kind == "closure" and o.a in model.fnsrc:
                cv = model.view(o.a)
                cb = int(o.b.rsplit(":bb", 1)[1])
                chain = ((v.path, cb, "closure"),)
                for sb, i, s in cv.iter_stmts():
                    rv = s["rv"]
                    if rv["r"] == "agg" and rv.get("adt", "").endswith("incentive::ClosedPosition"):
                        f = dict(zip(rv["fields"], rv["ops"]))
                        os_ = resolve(model, chain, cv, cv.origins_of_operand(f["amount"], at=(sb, i)))
                        det.append(sorted(map(repr, os_)))
                        ok_amt = bool(os_) and all(x.kind == "load" and x.a.endswith("::state::OPEN_POSITIONS") and x.proj and x.proj[-1] == "amount" for x in os_)
    ctx.ob("C11-K3", "%s|closed-amount-is-open-amount" % CLOSE, ok_amt, "ClosedPosition.amount from %s (must be the open position's amount)" % det, v.where())
    # the position read (amount, duration), the position cloned for the response and the position removed are one and the
    # same list element: every index into the open list is the result of the `position(..)` lookup
    idx_sites = v.calls_to(r"as std::ops::Index<usize>>::index$|as std::ops::IndexMut<usize>>::index_mut$|^std::vec::Vec::(remove|swap_remove)$")
    idx_o = [sorted(map(repr, v.origins_of_operand(t["args"][1], at=v.at_term(b)))) for b, t in idx_sites]
    ok_idx = bool(idx_sites) and all(os_ and all("Iterator>::position" in x for x in os_) for os_ in idx_o) and len({tuple(x) for x in idx_o}) == 1
    ctx.ob("C11-K3", "%s|one-index-for-read-and-removal" % CLOSE, ok_idx and any("Vec::remove" in mname(t) or "swap_remove" in mname(t) for b, t in idx_sites),
           "indices into the open-position list: %s (all must be the position(..) lookup result)" % idx_o, v.where())
    for b, t in cl + op:
        k = arg_origins(v, b, t, 2)
        ctx.ob("C11-K3", "%s|key-is-sender|bb" % CLOSE, bool(k) and all(o.kind == "param" and tuple(o.proj) == ("sender",) for o in k),
               "position maps keyed by %s" % sorted(map(repr, k)), v.where(b))


def check_lists_edited_in_place(ctx, model):
    """K6: a user's position lists are only ever edited in place: every OPEN_/CLOSED_POSITIONS.update closure returns
    the list it was given (after its pushes / removals / in-place edits) and every .save stores the list loaded from
    the same map -- a freshly built list would drop the user's other positions while their LP stays in the contract."""
    n = 0
    for p in (OPEN, EXPAND, CLOSE, WITHDRAW):
        v = ctx.view(p, "C11-K6")
        if v is None:
            continue
        for item in ("incentive::state::OPEN_POSITIONS", "incentive::state::CLOSED_POSITIONS"):
            short = item.split("::")[-1]
            for b, t in storage_calls(v, item, ("update",)):
                for o in v.origins_of_operand(t["args"][3], at=v.at_term(b)):
                    if not (o.kind == "closure" and o.a in model.fnsrc):
                        ctx.ob("C11-K6", "%s|%s|update" % (p, short), False, "update function is not a closure of this crate: %r" % o, v.where(b), kind="unrecognised")
                        continue
                    n += 1
                    cv = model.view(o.a)
                    # the stored list, or (first position of a user) an explicitly empty one
                    empty = lambda x: (x.kind in ("fnitem", "call") and re.search(r"(Vec::new|Default>::default|unwrap_or_default)$", re.sub(r"::<[^>]*>", "", str(x.a))))
                    old = lambda os_: any(x.kind == "param" and x.a == 2 for x in os_) and all(
                        (x.kind == "param" and x.a == 2 and not [e for e in x.proj if e != "0"]) or empty(x) for x in os_)
                    edits = cv.calls_to(r"^std::vec::Vec::(push|remove|insert|swap_remove|retain|clear|truncate|pop)$")
                    recv = [sorted(map(repr, cv.origins_of_operand(et["args"][0], at=cv.at_term(eb)))) for eb, et in edits]
                    recv_ok = all(old(cv.origins_of_operand(et["args"][0], at=cv.at_term(eb))) for eb, et in edits)
                    ret = [x for x in cv.origins_of_place({"l": 0, "p": []}) if x.kind != "err"]
                    ctx.ob("C11-K6", "%s|%s|update" % (p, short), recv_ok and old(ret),
                           "closure edits %s and stores back %s (must be the previously stored list)" % (recv, sorted(map(repr, ret))), cv.where())
            for b, t in storage_calls(v, item, ("save",)):
                n += 1
                val = arg_origins(v, b, t, 3)
                ok = bool(val) and all(x.kind == "load" and x.a == item and not x.proj for x in val)
                ctx.ob("C11-K6", "%s|%s|save" % (p, short), ok, "saves %s (must be the list loaded from %s)" % (sorted(map(repr, val)), short), v.where(b))
    ctx.floor("C11-K6", "position list write sites", n, 5)


def check_withdraw(ctx, model):
    v = ctx.view(WITHDRAW, "C11-K4")
    if v is None:
        return
    ups = storage_calls(v, "incentive::state::CLOSED_POSITIONS", ("update",))
    if not ups:
        ctx.missing("C11-K4", "CLOSED_POSITIONS.update in withdraw")
        return
    for b, t in ups:
        k = arg_origins(v, b, t, 2)
        ctx.ob("C11-K4", "%s|key-is-sender" % WITHDRAW, bool(k) and all(o.kind == "param" and tuple(o.proj) == ("sender",) for o in k),
               "closed positions looked up under %s" % sorted(map(repr, k)), v.where(b))
        for o in v.origins_of_operand(t["args"][3], at=v.at_term(b)):
            if o.kind == "closure" and o.a in model.fnsrc:
                cv = model.view(o.a)
                adds = [(xb, xt) for xb, xt in cv.calls_to(r"Uint128::checked_add$")]
                rems = [(xb, xt) for xb, xt in cv.calls_to(r"^std::vec::Vec::(remove|swap_remove)$")]
                pops = [(xb, xt) for xb, xt in cv.calls_to(r"^std::vec::Vec::pop$")]
                ok = bool(adds) and bool(rems or pops)
                coks = ok_return_blocks(cv)
                for ab, at_ in adds:
                    for rb, rt in rems:
                        # the remove follows the add on every path that continues the loop / returns Ok
                        skip = cv.reachable(ab, cut_blocks=[rb])
                        ok = ok and must_pass_through(cv, ab, [rb]) and not (skip & set(coks))
                    for pb, pt in pops:
                        # `while let Some(p) = list.pop() { sum += p.amount }`: what is taken out is what is counted -- the
                        # added amount is the popped entry's, and no popped entry escapes the addition
                        from .common import body_always_passes
                        with cv.opaque(r"^std::vec::Vec::pop$"):
                            src = cv.origins_of_operand(at_["args"][1], at=cv.at_term(ab))
                        from_pop = bool(src) and all(x.kind == "call" and x.a == "std::vec::Vec::pop" and x.b == "%s:bb%d" % (cv.path, pb) for x in src)
                        ok = ok and from_pop and body_always_passes(cv, pb, ab, coks)
                    a1 = cv.origins_of_operand(at_["args"][1], at=cv.at_term(ab))
                    ok = ok and bool(a1) and all(x.proj and x.proj[-1] == "amount" for x in a1)
                ctx.ob("C11-K4", "%s|add-and-remove-together" % WITHDRAW, ok,
                       "closure adds each closed amount (%d add sites) and removes the entry (%d remove sites) on the same paths: %s" % (len(adds), len(rems), ok), cv.where())
    xf = v.calls_to(r"Asset::into_msg$")
    # the closed positions are erased by the update above whatever their total: the payout may be skipped only when that
    # total is exactly zero (ordering-domain walk over the constants the code compares the total with)
    from fractions import Fraction
    from ..dataflow import single_var_guard, single_var_regions, single_var_walk
    is_total = lambda os_: bool(os_) and any(o.kind == "call" and o.a.endswith("Uint128::checked_add") for o in os_)
    tracked, ths = single_var_guard(v, is_total, [Fraction(0)])
    rows, bad = [], []
    for x in single_var_regions(ths):
        if x < 0:
            continue
        reach = single_var_walk(v, tracked, x)
        paid = any(b in reach for b, _ in xf)
        rows.append("%s:%s" % (x, "paid" if paid else "skipped"))
        if x > 0 and not paid:
            bad.append("a closed total of %s is erased without payout" % x)
    ctx.ob("C11-K4", "%s|payout-skipped-only-for-zero" % WITHDRAW, bool(tracked) and bool(xf) and not bad and not getattr(v, "_unresolved_cmp", []),
           ("MISMATCH %s | " % bad if bad else "") + "closed-total regions: %s" % rows, v.where())
    if not xf:
        ctx.ob("C11-K4", "%s|payout" % WITHDRAW, False, "no transfer of the withdrawn LP is built", v.where())
    for b, t in xf:
        rec = arg_origins(v, b, t, 1)
        amt = v.origins_of_operand(t["args"][0], proj=("amount",), at=v.at_term(b))
        info_ = v.origins_of_operand(t["args"][0], proj=("info",), at=v.at_term(b))
        tainted, sinks, ret = forward_flow(v, [t["dest"]["l"]])
        ok = bool(rec) and all(o.kind == "param" and tuple(o.proj) == ("sender",) for o in rec) and bool(sinks) and \
            bool(info_) and all(o.kind == "load" and tuple(o.proj) == ("lp_asset",) for o in info_)
        ctx.ob("C11-K4", "%s|payout" % WITHDRAW, ok, "LP returned to %s, asset %s, attached: %s" % (sorted(map(repr, rec)), sorted(map(repr, info_)), bool(sinks)), v.where(b))


def check_frontend(ctx, model):
    root = "frontend_helper::contract::execute"
    v = ctx.view(root, "C11-K5")
    if v is None:
        return
    # the per-asset closure building TransferFrom + IncreaseAllowance
    found = False
    # the per-asset body: a closure of the iterator pipeline, or the handler's own `for asset in &assets` loop
    from .common import scope_views, scope_origins
    for cv, cch in scope_views(model, root):
        tf = ia = None
        for b, i, s in cv.iter_stmts():
            rv = s["rv"]
            if rv["r"] == "agg" and rv.get("adt") == "cw20::Cw20ExecuteMsg":
                f = dict(zip(rv["fields"], rv["ops"]))
                if rv["variant"] == "TransferFrom":
                    tf = scope_origins(model, cch, cv, f["amount"], (b, i))
                elif rv["variant"] == "IncreaseAllowance":
                    ia = scope_origins(model, cch, cv, f["amount"], (b, i))
        if tf is not None or ia is not None:
            found = True
            ctx.ob("C11-K5", "%s|transfer-and-allowance-same-amount" % root, tf is not None and ia is not None and tf == ia and bool(tf),
                   "TransferFrom amount %s ; IncreaseAllowance amount %s" % (sorted(map(repr, tf or [])), sorted(map(repr, ia or []))), cv.where())
    if not found:
        ctx.ob("C11-K5", "%s|transfer-and-allowance-same-amount" % root, False, "per-asset TransferFrom/IncreaseAllowance closure not found", v.where())
    # funds forwarded to the pair
    fw = False
    for b, i, s in v.iter_stmts():
        rv = s["rv"]
        if rv["r"] == "agg" and rv.get("adt") == "cosmwasm_std::WasmMsg" and rv.get("variant") == "Execute":
            f = dict(zip(rv["fields"], rv["ops"]))
            os_ = v.origins_of_operand(f["funds"], at=(b, i))
            if os_ and all(o.kind == "param" and tuple(o.proj) == ("funds",) for o in os_):
                fw = True
    ctx.ob("C11-K5", "%s|funds-forwarded" % root, fw, "info.funds forwarded to the pair's ProvideLiquidity: %s" % fw, v.where())
    check_messages_attached(ctx, model, root, rule="C11-K5")
    # reply
    p = "frontend_helper::reply::deposit_pair::deposit_pair"
    rv_ = ctx.view(p, "C11-K5")
    if rv_ is None:
        return
    # failed deposit -> Err: into_result()...map_err(..)? dominates everything
    spec = HelperGuard("msg.result.into_result()?", r"SubMsgResult::into_result$")
    effects = [b for b, i, l, d in message_creations(rv_, model)]
    ok = bool(effects) and all(site_guarded(model, (), p, b, spec)[0] for b in effects)
    # ... and the failure side is an error: from the Err edge of into_result() no successful return is reachable, however
    # the result is tested (`?`, match, if let Err)
    from ..guards import result_edges
    res_tests = result_edges(rv_, re.compile(r"SubMsgResult::into_result$"))
    okb = set(ok_value_blocks(rv_))
    swallowed = []
    for oke, hb, t_, erre in res_tests:
        for (_, tgt) in erre:
            if rv_.reachable(tgt) & okb:
                swallowed.append(tgt)
    ok = ok and bool(res_tests) and not swallowed
    ctx.ob("C11-K5", "%s|failed-deposit-is-error" % p, ok,
           "every message of the reply is dominated by the success edge of into_result(): %s; a failed deposit can end in a successful reply: %s" % (ok or bool(swallowed), bool(swallowed)), rv_.where())
    for b, i, s in rv_.iter_stmts():
        r = s["rv"]
        if r["r"] == "agg" and r.get("adt", "").endswith("incentive::ExecuteMsg") and r.get("variant") in ("OpenPosition", "ExpandPosition"):
            f = dict(zip(r["fields"], r["ops"]))
            amt = rv_.origins_of_operand(f["amount"], at=(b, i))
            rec = rv_.origins_of_operand(f["receiver"], at=(b, i))
            ok_amt = bool(amt) and all((o.kind == "call" and (o.a.endswith("query_balance") or o.a.endswith("query_wasm_smart"))) for o in amt)
            ok_rec = bool(rec) and all(o.kind == "load" and o.a.endswith("::state::TEMP_STATE") and tuple(o.proj) == ("receiver",) for o in rec)
            ctx.ob("C11-K5", "%s|forwards-whole-balance|%s" % (p, r["variant"]), ok_amt and ok_rec,
                   "%s{amount: %s, receiver: %s}" % (r["variant"], sorted(map(repr, amt)), sorted(map(repr, rec))), rv_.where(b))
    check_messages_attached(ctx, model, p, rule="C11-K5")


def run(ctx):
    model = ctx.model()
    check_position_fn(ctx, model, OPEN)
    check_position_fn(ctx, model, EXPAND)
    check_vfs(ctx, model)
    check_close(ctx, model)
    check_withdraw(ctx, model)
    check_lists_edited_in_place(ctx, model)
    check_frontend(ctx, model)
