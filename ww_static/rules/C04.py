"""C04 -- three-asset stableswap pool (structural part): amp ramp bounds, ramp bookkeeping, direction tables."""
import re
from fractions import Fraction
from ..facts import mname
from ..mir import switch_conds
from ..dataflow import (sample_walk, field_sources, call_of, const_of)
from .common import storage_calls, arg_origins
from .C18 import saves_of
from .C14 import check_trio_directions

EXPLANATION = """
A1: the ramp guard of stableswap_3pool::commands::update_config is decided on sample points: the comparisons on the new
target `future_a`, the current amplification (result of compute_amp_factor()) and `future_block` vs block height are
evaluated symbolically (copies, primitive arithmetic incl. overflow-checked multiplication by MAX_AMP_CHANGE and
addition of MIN_RAMP_BLOCKS) at one representative point per region of future_a/current in {<1/10, =1/10, (1/10,1), =1,
(1,10), =10, >10}, of future_a vs the absolute bounds 1 and 10^6, and of future_block - height vs 10000; the
assignment of the new ramp must be reachable exactly in the documented accept set (1 <= a <= 10^6, 1/10 <= a/current <= 10,
delta >= 10000). A2: on acceptance initial_amp := current amp (compute_amp_factor of the stored ramp at the current
height), initial_amp_block := block height, future_amp/future_amp_block := the requested values. A3: the three-asset
direction tables of swap, simulation and reverse simulation are permutations and agree (shared with C14). Solvency,
D-per-LP monotonicity and there-and-back are numerical and not decided. A4: the operator tree of compute_amp_factor's
interpolation is initial +/- (|target-initial| * (current-start)) / (stop-start), product before division, range ordered per
branch (shape only; the value is not evaluated). A5: deposit wiring -- mint helper operands in pool order, D(pool) and
D(pool_i + deposit_i), mint = supply*(d1-d0)/d0, compute_d symmetric in its three reserves. The shared pool clauses V1 (pending fees excluded wherever pool balances are
read), V3 (funds validated before pricing, deposits excluded/pulled), V4 (minimum liquidity locked in the pool on the
first deposit, nothing but Mint/Burn sent to the LP token) and V5 (floor-family rounding only) are decided for the 3-pool
exactly as for the pair under C01.
"""
ASSUMPTIONS = ["compute_amp_factor returns the interpolated amplification (numerical content not decided here)"]

UC = "stableswap_3pool::commands::update_config"


def run(ctx):
    model = ctx.model()
    # the withdraw hook only honours the LP token itself (else a foreign cw20 could burn the locked minimum stake)
    from .C16 import check_hook_authorisation
    from .poolvalue import check_direct_withdraw
    check_direct_withdraw(ctx, model, "C04-V4", "stableswap_3pool::contract::execute", r"^stableswap_3pool::commands::withdraw_liquidity$", "stableswap_3pool::state::TRIO_INFO", ("liquidity_token", "#NativeToken", "denom"))
    check_hook_authorisation(ctx, model, rule="C04-V4", only={"stableswap_3pool"})
    check_interpolation_wiring(ctx, model)
    check_deposit_wiring(ctx, model)
    check_curve_inputs(ctx, model)
    # owed protocol fees: the pending entry is transferred to the collector and zeroed only where transferred (C07-F3's rule)
    from .C07 import check_collect as _pool_collect
    _pool_collect(ctx, model, "stableswap_3pool", "stableswap_3pool::commands::collect_protocol_fees", "stableswap_3pool::state::COLLECTED_PROTOCOL_FEES", rule="C04-V1")
    v = ctx.view(UC, "C04-A1")
    if v is None:
        return
    saves = saves_of(v, "stableswap_3pool::state::CONFIG")
    # the ramp assignment site
    assign_blocks = set()
    srcs = {}
    for sb, t in saves:
        for f in ("future_amp", "initial_amp", "initial_amp_block", "future_amp_block"):
            for s in field_sources(v, t["args"][2], (f,), v.at_term(sb)):
                if s.kind == "assign":
                    srcs.setdefault(f, []).append(s)
                    if f == "future_amp":
                        assign_blocks.add(s.block)
    if not assign_blocks:
        ctx.missing("C04-A1", "assignment of CONFIG.future_amp in update_config")
        return
    fa = lambda os_: bool(os_) and all(o.kind == "param" and tuple(o.proj[-1:]) == ("future_a",) for o in os_)
    cur = lambda os_: bool(os_) and all(o.kind == "call" and o.a.endswith("StableSwap::compute_amp_factor") for o in os_)
    fb = lambda os_: bool(os_) and all(o.kind == "param" and tuple(o.proj[-1:]) == ("future_block",) for o in os_)
    ht = lambda os_: bool(os_) and all(o.kind == "param" and tuple(o.proj) == ("block", "height") for o in os_)
    H = Fraction(5000000)
    bad = []
    rows = []
    n_dec_max = 0
    # (future_a, current, delta)
    samples = []
    C = Fraction(1000)
    for f in (50, 99, 100, 101, 500, 1000, 5000, 9999, 10000, 10001, 20000):
        samples.append((Fraction(f), C, Fraction(20000)))
    for d in (0, 9999, 10000, 10001):
        samples.append((Fraction(2000), C, Fraction(d)))
    # absolute bounds (current chosen so that the ratio is fine)
    samples += [(Fraction(0), Fraction(5), Fraction(20000)), (Fraction(1), Fraction(5), Fraction(20000)),
                (Fraction(1000000), Fraction(500000), Fraction(20000)), (Fraction(1000001), Fraction(500000), Fraction(20000))]
    for f, c, d in samples:
        env = [(fa, f), (cur, c), (fb, H + d), (ht, H)]
        reach, ndec = sample_walk(v, env)
        n_dec_max = max(n_dec_max, ndec)
        acc = bool(reach & assign_blocks)
        exp = (1 <= f <= 1000000) and (f * 10 >= c) and (f <= c * 10) and d >= 10000
        rows.append("a=%s cur=%s dblocks=%s:%s" % (f, c, d, "accept" if acc else "reject"))
        if acc != exp:
            bad.append("future_a=%s current=%s blocks=%s: code %s, documented %s" % (f, c, d, "accepts" if acc else "rejects", "accept" if exp else "reject"))
    ctx.ob("C04-A1", "%s|ramp-guard" % UC, not bad and n_dec_max >= 7,
           ("MISMATCH " + "; ".join(bad) + " | " if bad else "") + "%d comparisons decided per sample; samples: %s" % (n_dec_max, rows), v.where(min(assign_blocks)))
    # A2 bookkeeping
    def one(field, pred, want):
        ss = srcs.get(field, [])
        ok = bool(ss)
        det = []
        for s in ss:
            os_ = v.origins_of_operand(s.operand, at=(s.block, s.idx)) if s.operand else set()
            det.append(sorted(map(repr, os_)))
            ok = ok and pred(os_)
        ctx.ob("C04-A2", "%s|%s" % (UC, field), ok, "%s := %s (must be %s)" % (field, det, want), v.where())
    one("initial_amp", cur, "the current amplification compute_amp_factor()")
    one("initial_amp_block", ht, "env.block.height")
    one("future_amp", fa, "ramp.future_a")
    one("future_amp_block", fb, "ramp.future_block")
    # the current amp is computed from the stored ramp at the current height
    for b, t in v.calls_to(r"StableSwap::new$"):
        names = ["initial_amp", "future_amp", None, "initial_amp_block", "future_amp_block"]
        ok = True
        det = []
        for i, nme in enumerate(names):
            os_ = arg_origins(v, b, t, i)
            det.append(sorted(map(repr, os_)))
            if nme is None:
                ok = ok and ht(os_)
            else:
                ok = ok and bool(os_) and all(o.kind == "load" and o.a.endswith("::state::CONFIG") and tuple(o.proj) == (nme,) for o in os_)
        ctx.ob("C04-A2", "%s|current-amp-from-stored-ramp" % UC, ok, "StableSwap::new(%s)" % det, v.where(b))
    check_trio_directions(ctx, model, rule="C04-A3")
    # shared pool-value clauses for the 3-pool
    from .poolvalue import check_v1_pools, check_v2_v3_pool, check_v4_min_liquidity, check_no_lp_outflow, check_v5_rounding
    T = "stableswap_3pool"
    check_v1_pools(ctx, model, T, "C04-V1")
    from .poolvalue import check_fee_lookup_same_asset
    check_fee_lookup_same_asset(ctx, model, T, "C04-V1")
    from .poolvalue import check_raw_balance_single_consumer
    check_raw_balance_single_consumer(ctx, model, T, "C04-V1")
    from .poolvalue import check_fee_deduction_all_kinds
    check_fee_deduction_all_kinds(ctx, model, T, "C04-V1")
    from .poolvalue import check_reserves_net_of_fees
    check_reserves_net_of_fees(ctx, model, T, "C04-V1")
    check_v2_v3_pool(ctx, model, T, "C04-V3")
    check_v4_min_liquidity(ctx, model, "%s::commands::provide_liquidity" % T, "C04-V4")
    check_no_lp_outflow(ctx, model, T, "C04-V4", "liquidity_token")
    check_v5_rounding(ctx, model, ["%s::commands::provide_liquidity" % T, "%s::commands::withdraw_liquidity" % T, "%s::helpers::compute_swap" % T], "C04-V5")


AMP = "stableswap_3pool::stableswap_math::curve::StableSwap::compute_amp_factor"


def check_interpolation_wiring(ctx, model):
    """A4: the operator tree of the ramp interpolation. In both ramp branches the value returned is
    initial +/- ((|target - initial| * (current - start)) / (stop - start)): the product is formed BEFORE the division
    (dividing first truncates the step to zero for every realistic ramp), the range is target-initial on the branch
    that adds and initial-target on the branch that subtracts. Spelling (checked_*/operators, conversions, operand order
    of commutative operations) is normalised away; the numerical result is not evaluated."""
    from ..dataflow import expr_shape, norm_shape
    v = ctx.view(AMP, "C04-A4")
    if v is None:
        return
    P = lambda f: "param(1).%s" % f
    td = ("sub", (P("current_ts"), P("start_ramp_ts")))
    tr = ("sub", (P("stop_ramp_ts"), P("start_ramp_ts")))
    want = {}
    for name, rng in (("add", ("sub", (P("target_amp_factor"), P("initial_amp_factor")))), ("sub", ("sub", (P("initial_amp_factor"), P("target_amp_factor"))))):
        delta = ("div", (norm_shape(("mul", (rng, td))), tr))
        want[name] = norm_shape((name, (P("initial_amp_factor"), delta)))
    found = {}
    for b, t in v.iter_calls():
        if t["dest"]["l"] == 0 and not t["dest"]["p"] and not mname(t).endswith("::from_residual"):
            sh = norm_shape((re.sub(r"^.*::", "", mname(t)), tuple(expr_shape(v, a, v.at_term(b)) for a in t["args"])))
            found.setdefault(sh[0], []).append((b, sh))
    for name in ("add", "sub"):
        got = found.get(name, [])
        ok = len(got) == 1 and got[0][1] == want[name]
        ctx.ob("C04-A4", "%s|ramp-%s|multiply-before-divide" % (AMP, "up" if name == "add" else "down"), ok,
               "returned value %s (expected %s)" % ([g[1] for g in got], want[name]), v.where(got[0][0]) if got else v.where())


CURVE = "stableswap_3pool::stableswap_math::curve::StableSwap"
PL3 = "stableswap_3pool::commands::provide_liquidity"


def check_deposit_wiring(ctx, model):
    """A5: the deposit path of the three-asset pool. provide_liquidity hands the mint helper (deposit_0..2, pool_0..2,
    total share) with deposit_i the amount found for pools[i]'s asset and pool_i = pools[i].amount; the helper computes
    D(pool) and D(pool_i + deposit_i) (same index) and mints supply*(d1-d0)/d0; compute_d uses its three reserves
    symmetrically."""
    from .stablemath import check_mint_helper, check_symmetric
    from ..guards import resolve
    v = ctx.view(PL3, "C04-A5")
    if v is not None:
        calls = v.calls_to(r"StableSwap::compute_mint_amount_for_deposit$")
        if not calls:
            ctx.missing("C04-A5", "compute_mint_amount_for_deposit call in provide_liquidity")
        for b, t in calls:
            pools = []
            for a in t["args"][4:7]:
                os_ = v.origins_of_operand(a, at=v.at_term(b))
                idx = {o.proj[0] for o in os_ if o.kind == "call" and o.a.endswith("query_pools") and len(o.proj) == 2 and o.proj[1] == "amount"}
                pools.append(sorted(idx))
            deps_ = []
            for a in t["args"][1:4]:
                # deposit_i = assets.iter().find(|a| a.info.equal(&pools[i].info)).map(|a| a.amount), or the array filled
                # position by position next to the pools (zip): decided by the shared helper
                from .stablemath import deposit_pool_index
                found = set(deposit_pool_index(v, model, a, v.at_term(b)))
                deps_.append(sorted(found))
            want = [["[0]"], ["[1]"], ["[2]"]]
            ctx.ob("C04-A5", "%s|mint-helper-operands-in-pool-order" % PL3, pools == want and deps_ == want,
                   "pool amounts taken from pools%s, deposits matched against pools%s (both must be [0],[1],[2] in order)" % (pools, deps_), v.where(b))
    h = ctx.view(CURVE + "::compute_mint_amount_for_deposit", "C04-A5")
    if h is not None:
        check_mint_helper(ctx, "C04-A5", h, r"StableSwap::compute_d$", dep=(2, 3, 4), pool=(5, 6, 7), supply=8, key=CURVE + "::compute_mint_amount_for_deposit")
    w = ctx.view(CURVE + "::compute_d", "C04-A5")
    if w is not None:
        check_symmetric(ctx, "C04-A5", w, (2, 3, 4), CURVE + "::compute_d")
    from .stablemath import check_no_self_comparison
    if w is not None:
        check_no_self_comparison(ctx, "C04-A5", w, CURVE + "::compute_d")
    yv = ctx.view(CURVE + "::compute_y_raw", "C04-A5")
    if yv is not None:
        check_no_self_comparison(ctx, "C04-A5", yv, CURVE + "::compute_y_raw")
    from .stablemath import check_newton_step, check_solver_bounds_agree
    check_solver_bounds_agree(ctx, "C04-A5")
    nd = ctx.view(CURVE + "::compute_next_d", "C04-A5")
    if nd is not None:
        check_newton_step(ctx, "C04-A5", nd, "param(2)", "param(3)", "param(4)", "param(5)", "item(stableswap_3pool::stableswap_math::curve::N_COINS)", CURVE + "::compute_next_d")


def check_curve_inputs(ctx, model, rule="C04-A6"):
    """A6: every StableSwap the contract constructs (swap, deposit, the three queries, update_config) is built from
    (CONFIG.initial_amp, CONFIG.future_amp, the BLOCK HEIGHT of the call, CONFIG.initial_amp_block, CONFIG.future_amp_block):
    the ramp is defined over block heights, so a timestamp (or any other clock) as `current` makes the effective amplification
    jump to the target. Parameters are resolved through the call sites up to the entry points."""
    from .common import resolve_to_callers
    n = 0
    want = {0: ("initial_amp",), 1: ("future_amp",), 3: ("initial_amp_block",), 4: ("future_amp_block",)}
    for p in sorted(model.all_paths("stableswap_3pool")):
        if "{closure" in p or "::tests::" in p or "::stableswap_math::" in p:
            continue
        v = model.view(p)
        for b, t in v.calls_to(r"^stableswap_3pool::stableswap_math::curve::StableSwap::new$"):
            n += 1
            ctx.fn_seen.add(p)
            bad = []
            for ai, proj in want.items():
                os_ = v.origins_of_operand(t["args"][ai], at=v.at_term(b))
                if not (os_ and all(o.kind == "load" and o.a.endswith("stableswap_3pool::state::CONFIG") and tuple(o.proj) == proj for o in os_)):
                    bad.append("arg %d from %s (must be CONFIG.%s)" % (ai, sorted(map(repr, os_)), proj[0]))
            cur = resolve_to_callers(model, p, v.origins_of_operand(t["args"][2], at=v.at_term(b)))
            ok_cur = bool(cur) and all(o.kind == "param" and tuple(o.proj) == ("block", "height") for o in cur)
            if not ok_cur:
                bad.append("current from %s (must be env.block.height)" % sorted(map(repr, cur)))
            ctx.ob(rule, "%s|curve-built-from-the-stored-ramp-and-the-block-height#%d" % (p, n), not bad,
                   "; ".join(bad) if bad else "StableSwap::new(CONFIG.initial_amp, CONFIG.future_amp, env.block.height, CONFIG.initial_amp_block, CONFIG.future_amp_block)", v.where(b))
    ctx.floor(rule, "StableSwap::new call sites", n, 5)
