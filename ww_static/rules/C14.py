"""C14 -- quotes are honest: simulation equals execution (structural part)."""
import re
from fractions import Fraction
from collections import Counter
from ..facts import mname, term_callee
from ..mir import switch_conds, cmp_true_false_edges
from ..dataflow import call_of, const_of, cond_at
from .common import arg_origins, storage_calls

EXPLANATION = """
S1: in pair and 3-pool, the arguments of compute_swap in the simulation query and in commands::swap are compared position
by position by provenance class (pool amounts selected by the direction table after the pending-fee subtraction,
CONFIG.pool_fees, pair type / invariant, decimals); the only permitted difference is swap's extra subtraction of the
received offer from the offer pool. Both read pools through query_pools and both subtract the pending protocol
fee of the same asset (get_protocol_fee_for_asset on the loaded COLLECTED_PROTOCOL_FEES). S2: every field of
SimulationResponse is the like-named field of the computation; in swap the return message, burn message and ledger
writes use the like-named fields (C07 covers the ledger side). S3: the direction tables: in the 3-pool's swap,
simulation and reverse simulation every branch guarded by ask == pools[i] and offer == pools[j] assigns ask_pool =
pools[i], offer_pool = pools[j], unswapped = pools[k] with {i,j,k} = {0,1,2}; all six (i,j) occur; the three functions
have the same table; the pair's two-branch analogue including the decimals indices. The tables are DECIDED, not located:
truth values are assigned to the asset-equality tests, the function is walked under each assignment and the pools index of
each role argument is read from provenance restricted to the walked blocks; an asset equal to none of the pools reaches no
pricing call. S4: vault get_share and withdraw compute
Decimal::from_ratio(amount, total_share) * (balance - pending fees) from the same classes of operands. S5: the router's
simulate_swap_operations feeds each hop's return_amount into the next hop's offer amount.
"""
ASSUMPTIONS = [
    "equality of router simulation and execution when the router holds a prior balance, and reverse-simulation accuracy, are runtime/numerical and not decided",
]

CLONE = r"as std::clone::Clone>::clone$"


INDEX = r"as std::ops::Index<usize>>::index$"


def index_of_operand(v, op, at):
    """Constant index i such that the operand is (a part / clone / reference of) `pools[i]`, by provenance: the
    `Index::index` call (kept opaque) or the constant array projection the value comes from. None if not unique."""
    with v.opaque(INDEX):
        os_ = v.origins_of_operand(op, at=at)
    ks = set()
    for o in os_:
        c = call_of(v, o)
        if c and re.search(INDEX, mname(c[1])):
            ks.add(const_of(v, c[1]["args"][1], v.at_term(c[0])))
            continue
        idx = [x for x in o.proj if re.fullmatch(r"\[\d+\]", str(x))]
        ks.add(Fraction(int(idx[0][1:-1])) if idx else None)
    return next(iter(ks)) if len(ks) == 1 else None


def index_of_site(v, site_block, t, argi=0):
    """Constant index i of `pools[i]` feeding argument argi of the call at site_block."""
    return index_of_operand(v, t["args"][argi], v.at_term(site_block))


def direction_table(ctx, v, compute_rx, roles, rule, amount_arg=None, amount_role="offer"):
    """{(guard indices...): {role: index}} for one function. Which parameter is the offer and which the ask is
    decided by use, not by name: the parameter whose `.amount` feeds the amount argument of the computation has
    role `amount_role`; any other asset parameter compared against the pools has the opposite role."""
    cs = v.calls_to(compute_rx)
    if len(cs) != 1:
        ctx.missing(rule, "single %s call in %s" % (compute_rx, v.path))
        return None
    cb, ct = cs[0]
    if amount_arg is None:
        amount_arg = max(roles.values()) + 1
    amount_params = {o.a for o in v.origins_of_operand(ct["args"][amount_arg], at=v.at_term(cb)) if o.kind == "param"}
    other_role = "ask" if amount_role == "offer" else "offer"
    # clone sites per role
    site_role = {}
    with v.opaque(CLONE):
        for role, argi in roles.items():
            for o in v.origins_of_operand(ct["args"][argi], at=v.at_term(cb)):
                if o.kind == "call" and re.search(CLONE, o.a):
                    bb = int(o.b.rsplit(":bb", 1)[1])
                    site_role[bb] = role
    # atoms: AssetInfo::equal(x, &pools[i].info) call sites; every branch that tests the result of one call site (directly,
    # through a bool binding, negated, in a guard and again in an if) is decided consistently
    atoms = {}
    for b, c, _ in switch_conds(v):
        if c.kind == "call" and c.callee.endswith("asset::AssetInfo::equal"):
            a0 = v.origins_of_operand(c.term["args"][0], at=v.at_term(c.block))
            who = None
            for o in a0:
                if o.kind == "param":
                    who = (amount_role if o.a in amount_params else other_role) + "_asset"
            atoms[c.block] = (who, index_of_site(v, c.block, c.term, 1))
    whos = sorted({w for w, _ in atoms.values() if w})
    idxs = {w: sorted({i for ww, i in atoms.values() if ww == w and i is not None}) for w in whos}
    import itertools
    from ..dataflow import region_walk
    table = {}
    reaches = {}
    v._direction_reach = reaches
    combos = [dict(zip(whos, c)) for c in itertools.product(*[idxs[w] for w in whos])]
    for asg in combos:
        if len(set(asg.values())) != len(asg):
            continue      # two different assets cannot both be the same pool

        def decide(b, c, asg=asg):
            if c.kind != "call" or c.block not in atoms:
                return None
            w, i = atoms[c.block]
            if w is None or i is None:
                return None
            return (asg.get(w) == i) != bool(c.neg)
        reach = region_walk(v, decide)
        key = tuple(sorted(asg.items()))
        reaches[key] = reach
        if cb not in reach:
            table[key] = {r: None for r in roles}
            continue
        # provenance of each role argument in this configuration: definitions in blocks it cannot execute are ignored
        with v.restricted(reach):
            for role, argi in roles.items():
                table.setdefault(key, {})[role] = index_of_operand(v, ct["args"][argi], v.at_term(cb))
    # an asset that is none of the pools gets no quote

    def decide_none(b, c):
        if c.kind != "call" or c.block not in atoms:
            return None
        return bool(c.neg)
    if atoms and all(w is not None and i is not None for w, i in atoms.values()):
        # (only when every comparison is against a constant pool position: otherwise the table itself is reported as unreadable)
        ctx.ob(rule, "%s|no-direction-no-pricing" % v.path, cb not in region_walk(v, decide_none),
               "with the traded asset equal to none of the pools the pricing call is unreachable: %s" % (cb not in region_walk(v, decide_none)), v.where(cb))
    return table


def check_trio_directions(ctx, model, rule="C14-S3"):
    fns = [("stableswap_3pool::commands::swap", r"^stableswap_3pool::helpers::compute_swap$", "offer"),
           ("stableswap_3pool::queries::query_simulation", r"^stableswap_3pool::helpers::compute_swap$", "offer"),
           ("stableswap_3pool::queries::query_reverse_simulation", r"^stableswap_3pool::helpers::compute_offer_amount$", "ask")]
    tables = {}
    for p, rx, arole in fns:
        v = ctx.view(p, rule)
        if v is None:
            continue
        t = direction_table(ctx, v, rx, {"offer": 0, "ask": 1, "unswapped": 2}, rule, amount_arg=3, amount_role=arole)
        if t is None:
            continue
        norm = {}
        bad = []
        for key, asg in t.items():
            roles = dict(key)
            # the parameter compared against pools[i]: ask role param vs offer role param
            ask_i = [gi for who, gi in key if who and "ask" in who]
            off_i = [gi for who, gi in key if who and "offer" in who]
            if len(ask_i) != 1 or len(off_i) != 1:
                bad.append("branch with guards %s" % (key,))
                continue
            i, j = ask_i[0], off_i[0]
            if i is None or j is None:
                bad.append("branch with guards %s: pool index not a constant" % (key,))
                continue
            ok = asg.get("ask") == i and asg.get("offer") == j and asg.get("unswapped") is not None and \
                {asg.get("ask"), asg.get("offer"), asg.get("unswapped")} == {0, 1, 2}
            norm[(int(i), int(j))] = (asg.get("ask"), asg.get("offer"), asg.get("unswapped"))
            if not ok:
                bad.append("ask==pools[%s] & offer==pools[%s] assigns ask=pools[%s], offer=pools[%s], unswapped=pools[%s]" % (
                    i, j, asg.get("ask"), asg.get("offer"), asg.get("unswapped")))
        want = {(i, j) for i in range(3) for j in range(3) if i != j}
        ctx.ob(rule, "%s|direction-table" % p, not bad and set(norm) == want,
               ("MISMATCH %s | " % bad if bad else "") + "branches: %s" % {"%d,%d" % k: v_ for k, v_ in sorted(norm.items())}, v.where())
        tables[p] = norm
    if len(tables) == 3:
        vals = list(tables.values())
        ctx.ob(rule, "stableswap_3pool|direction-tables-agree", vals[0] == vals[1] == vals[2], "swap / simulation / reverse simulation tables identical: %s" % (vals[0] == vals[1] == vals[2]))


def check_pair_directions(ctx, model, rule="C14-S3"):
    fns = [("terraswap_pair::commands::swap", r"^terraswap_pair::helpers::compute_swap$", {"offer": 0, "ask": 1}),
           ("terraswap_pair::queries::query_simulation", r"^terraswap_pair::helpers::compute_swap$", {"offer": 0, "ask": 1})]
    for p, rx, roles in fns:
        v = ctx.view(p, rule)
        if v is None:
            continue
        t = direction_table(ctx, v, rx, roles, rule, amount_arg=2, amount_role="offer")
        if t is None:
            continue
        bad = []
        seen = set()
        for key, asg in t.items():
            off_i = [gi for who, gi in key if who and "offer" in who]
            if not off_i:
                bad.append("branch %s" % (key,))
                continue
            j = off_i[-1]
            if j is None:
                bad.append("branch %s: the pool index the offer is compared with is not a constant" % (key,))
                continue
            seen.add(int(j))
            if not (asg.get("offer") == j and asg.get("ask") is not None and {asg.get("offer"), asg.get("ask")} == {0, 1}):
                bad.append("offer==pools[%s] assigns offer=pools[%s], ask=pools[%s]" % (j, asg.get("offer"), asg.get("ask")))
        ctx.ob(rule, "%s|direction-table" % p, not bad and seen == {0, 1}, ("MISMATCH %s | " % bad if bad else "") + "branches %s" % {str(k): a for k, a in t.items()}, v.where())
        # decimals: offer_decimal = asset_decimals[j], ask_decimal = asset_decimals[1-j], assigned in the same branches
        cs = v.calls_to(rx)
        if cs and len(cs[0][1]["args"]) >= 7:
            cb, ct = cs[0]
            bad = []
            n = 0
            for key, reach in sorted(getattr(v, "_direction_reach", {}).items()):
                jdx = dict(key).get("offer_asset")
                if jdx is None or cb not in reach:
                    continue
                jdx = int(jdx)
                # provenance of the two decimals arguments in the configuration `offer == pools[jdx]`
                with v.restricted(reach):
                    for argi, role in ((5, "offer"), (6, "ask")):
                        os_ = v.origins_of_operand(ct["args"][argi], at=v.at_term(cb))
                        ks = set()
                        for o in os_:
                            pr = list(o.proj)
                            k = None
                            if "asset_decimals" in pr:
                                i = pr.index("asset_decimals")
                                if i + 1 < len(pr) and re.fullmatch(r"\[\d+\]", str(pr[i + 1])):
                                    k = int(pr[i + 1][1:-1])
                            ks.add(k)
                        want = jdx if role == "offer" else 1 - jdx
                        if ks == {want}:
                            n += 1
                        elif not ks or None in ks:
                            bad.append("offer==pools[%s]: %s_decimal is not a constant element of asset_decimals (%s)" % (jdx, role, sorted(map(repr, os_))))
                        else:
                            bad.append("offer==pools[%s]: %s_decimal = asset_decimals%s" % (jdx, role, sorted(ks)))
            ctx.ob(rule, "%s|decimals-table" % p, not bad and n == 4, ("MISMATCH %s | " % bad if bad else "") + "%d decimal assignments follow the direction table" % n, v.where())


_CLASS_CALLS = ("query_pools", "get_protocol_fee_for_asset", "checked_sub", "StableSwap::new", "query_balance", "query_wasm_smart")


def _classes(v, origins, depth=0):
    out = set()
    for o in origins:
        if o.kind == "load":
            out.add("load:%s%s" % (o.a.split("::")[-1], "." + ".".join(o.proj) if o.proj else ""))
        elif o.kind == "call":
            if any(k in o.a for k in _CLASS_CALLS):
                out.add("call:%s" % re.sub(r"^.*::", "", o.a))
        elif o.kind == "param":
            ty = v.local_ty(o.a)
            out.add("param:%s%s" % (ty.split("::")[-1], "." + ".".join(o.proj) if o.proj else ""))
        elif o.kind == "closure" and depth < 2 and getattr(v, "model", None) is not None and o.a in v.model.fnsrc:
            # an iterator pipeline is the loop it stands for: what the closure captured and what its body computes
            for cb, cp, ops in v.closures_created():
                if cp == o.a:
                    for op in ops:
                        sub = v.origins_of_operand(op, at=(cb, len(v.blocks[cb]["s"])), taint=True)
                        out |= {c for c in _classes(v, sub, depth + 1) if not c.startswith("param:")}
            cv = v.model.view(o.a)
            for xb, xt in cv.iter_calls():
                n = mname(xt)
                if any(k in n for k in _CLASS_CALLS):
                    out.add("call:%s" % re.sub(r"^.*::", "", n))
    return out


def arg_classes(v, b, t, i):
    """Provenance classes of a compute_swap argument (coarse, names only)."""
    return _classes(v, v.origins_of_operand(t["args"][i], at=v.at_term(b), taint=True))


def check_sim_vs_swap(ctx, model, crate, nargs):
    sw = ctx.view("%s::commands::swap" % crate, "C14-S1")
    si = ctx.view("%s::queries::query_simulation" % crate, "C14-S1")
    if sw is None or si is None:
        return
    rx = r"^%s::helpers::compute_swap$" % crate
    a, b = sw.calls_to(rx), si.calls_to(rx)
    if len(a) != 1 or len(b) != 1:
        ctx.missing("C14-S1", "compute_swap calls in %s swap/simulation" % crate)
        return
    (ab, at_), (bb, bt) = a[0], b[0]
    for i in range(nargs):
        ca, cb_ = arg_classes(sw, ab, at_, i), arg_classes(si, bb, bt, i)
        # normalise parameter names: swap takes offer_asset: Asset, simulation takes offer_asset: Asset too
        extra_swap = ca - cb_
        extra_sim = cb_ - ca
        allowed_swap_extra = {x for x in extra_swap if x.startswith("param:") or x.startswith("load:PAIR_INFO") or x.startswith("load:TRIO_INFO")}
        allowed_sim_extra = {x for x in extra_sim if x.startswith("param:") or x.startswith("load:PAIR_INFO") or x.startswith("load:TRIO_INFO")}
        core_a = ca - allowed_swap_extra
        core_b = cb_ - allowed_sim_extra
        ctx.ob("C14-S1", "%s|compute_swap-arg%d" % (crate, i), core_a == core_b and bool(core_a | ca),
               "swap: %s ; simulation: %s" % (sorted(ca), sorted(cb_)), sw.where(ab))
    # pools: pending fees subtracted in both, offer subtracted only in swap
    for v, nm in ((sw, "swap"), (si, "simulation")):
        subs = []
        for q in [v.path] + model.closures_of(v.path):
            cv = model.view(q)
            for xb, xt in cv.calls_to(r"Uint128::checked_sub$"):
                a1 = cv.origins_of_operand(xt["args"][1], at=cv.at_term(xb))
                for o in a1:
                    if o.kind == "call" and o.a.endswith("get_protocol_fee_for_asset"):
                        subs.append("pending-fee")
                    elif o.kind == "param" or (o.proj and o.proj[-1] == "amount"):
                        subs.append("offer")
        want = {"pending-fee", "offer"} if nm == "swap" else {"pending-fee"}
        ctx.ob("C14-S1", "%s|%s|pool-adjustments" % (crate, nm), set(subs) == want, "pool amounts adjusted by %s (expected %s)" % (sorted(set(subs)), sorted(want)), v.where())
    # S2 field mapping
    for b_, i, s in si.iter_stmts():
        rv = s["rv"]
        if rv["r"] == "agg" and rv.get("adt", "").endswith("SimulationResponse"):
            f = dict(zip(rv["fields"], rv["ops"]))
            for name, op in f.items():
                os_ = si.origins_of_operand(op, at=(b_, i))
                ok = bool(os_) and all(o.kind == "call" and o.a.endswith("helpers::compute_swap") and tuple(o.proj) == (name,) for o in os_)
                ctx.ob("C14-S2", "%s|SimulationResponse.%s" % (crate, name), ok, "%s <- %s" % (name, sorted(map(repr, os_))), si.where(b_))
    # swap: return message amount and attributes
    for b_, i, s in sw.iter_stmts():
        rv = s["rv"]
        if rv["r"] == "agg" and rv.get("adt", "").endswith("asset::Asset"):
            f = dict(zip(rv["fields"], rv["ops"]))
            os_ = sw.origins_of_operand(f["amount"], at=(b_, i))
            if os_ and all(o.kind == "call" and o.a.endswith("helpers::compute_swap") for o in os_):
                fields = {o.proj[0] for o in os_ if o.proj}
                ctx.ob("C14-S2", "%s|swap-asset-amount|%s" % (crate, ",".join(sorted(fields))), fields <= {"return_amount", "burn_fee_amount"} and len(fields) == 1,
                       "Asset{amount: compute_swap(..).%s}" % sorted(fields), sw.where(b_))


def check_vault_share(ctx, model):
    g = ctx.view("vault::queries::get_share::get_share", "C14-S4")
    w = ctx.view("vault::execute::receive::withdraw::withdraw", "C14-S4")
    if g is None or w is None:
        return

    def shape(v):
        out = {}
        for b, t in v.iter_calls():
            if re.search(r"^<cosmwasm_std::Decimal as std::ops::Mul<cosmwasm_std::Uint128>>::mul$"
                         r"|^<cosmwasm_std::Uint128 as std::ops::Mul<cosmwasm_std::Decimal>>::mul$|^cosmwasm_std::Uint128::mul_floor$", mname(t)):
                # share * balance in either operand order (Decimal * Uint128 is defined as Uint128 * Decimal)
                ia = 0 if mname(t).startswith("<cosmwasm_std::Decimal as") else 1
                l = v.origins_of_operand(t["args"][ia], at=v.at_term(b))
                r = v.origins_of_operand(t["args"][1 - ia], at=v.at_term(b), taint=True)
                ratio = None
                for o in l:
                    c = call_of(v, o)
                    if c and mname(c[1]).endswith("Decimal::from_ratio"):
                        n_ = v.origins_of_operand(c[1]["args"][0], at=v.at_term(c[0]))
                        d_ = v.origins_of_operand(c[1]["args"][1], at=v.at_term(c[0]))
                        ratio = (all(x.kind == "param" and "Uint128" in v.local_ty(x.a) for x in n_) and bool(n_),
                                 all(x.kind == "call" and x.a.endswith("asset::get_total_share") for x in d_) and bool(d_))
                bal = any(x.kind == "call" and (x.a.endswith("query_balance") or x.a.endswith("query_wasm_smart")) for x in r)
                fees = any(x.kind == "load" and x.a.endswith("::state::COLLECTED_PROTOCOL_FEES") for x in r)
                sub = any(x.kind == "call" and x.a.endswith("Uint128::checked_sub") for x in r)
                out = {"ratio(amount,total_share)": ratio, "balance": bal, "minus pending fees": fees and sub}
        return out
    sg, sw_ = shape(g), shape(w)
    good = {"ratio(amount,total_share)": (True, True), "balance": True, "minus pending fees": True}
    ctx.ob("C14-S4", "vault|get_share==withdraw", sg == sw_ == good, "get_share: %s ; withdraw: %s" % (sg, sw_), g.where())


def check_router_chain(ctx, model):
    p = "terraswap_router::contract::simulate_swap_operations"
    v = ctx.view(p, "C14-S5")
    if v is None:
        return
    # the simulation query's offer amount derives from the previous response's return_amount (loop-carried)
    ok = False
    det = []
    from .common import scope_views, scope_origins
    for sv, chain in scope_views(model, p):
        for b, i, s in sv.iter_stmts():
            rv = s["rv"]
            if rv["r"] == "agg" and rv.get("adt", "").endswith("asset::Asset"):
                f = dict(zip(rv["fields"], rv["ops"]))
                # a loop-carried variable or the accumulator of a fold: the initial offer or the previous hop's return
                os_ = scope_origins(model, chain, sv, f["amount"], (b, i))
                det.append(sorted(map(repr, os_)))
                if any(o.proj and o.proj[-1] == "return_amount" for o in os_) and any(o.kind == "param" and o.b == p for o in os_):
                    ok = True
    ctx.ob("C14-S5", "%s|hop-chaining" % p, ok, "offer amount of each simulated hop: %s (must be the initial offer or the previous hop's return_amount)" % det[:3], v.where())


def run(ctx):
    model = ctx.model()
    # what a swap RECORDS is what it quoted: the protocol / burn fee booked in both ledgers is compute_swap's like-named
    # value, added through the add-only helper (C07-F1/F4)
    from .C07 import check_swap as _swap_booking, check_writers as _ledger_writers, check_store_fee_addonly as _addonly
    px = ctx.renamed({"C07-F1": "C14-S2", "C07-F2": "C14-S2", "C07-F4": "C14-S2"})
    for _crate in ("terraswap_pair", "stableswap_3pool"):
        _swap_booking(px, model, _crate)
        _addonly(px, model, _crate)
    _ledger_writers(px, model)
    # simulation and execution of the 3-pool build the curve from the same inputs: the stored ramp and the block HEIGHT
    from .C04 import check_curve_inputs
    check_curve_inputs(ctx, model, rule="C14-S3")
    from .poolvalue import check_fee_lookup_same_asset
    check_fee_lookup_same_asset(ctx, model, "terraswap_pair", "C14-S1")
    check_fee_lookup_same_asset(ctx, model, "stableswap_3pool", "C14-S1")
    from .poolvalue import check_fee_deduction_all_kinds, check_raw_balance_single_consumer
    from .poolvalue import check_reserves_net_of_fees
    for crate in ("terraswap_pair", "stableswap_3pool"):
        check_reserves_net_of_fees(ctx, model, crate, "C14-S1")
        check_fee_deduction_all_kinds(ctx, model, crate, "C14-S1")
        check_raw_balance_single_consumer(ctx, model, crate, "C14-S1")
    check_trio_directions(ctx, model)
    check_pair_directions(ctx, model)
    check_sim_vs_swap(ctx, model, "terraswap_pair", 7)
    check_sim_vs_swap(ctx, model, "stableswap_3pool", 6)
    check_vault_share(ctx, model)
    check_router_chain(ctx, model)
