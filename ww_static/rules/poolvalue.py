"""Shared structural clauses V1..V5 of C01 / C04 / C05 (pool and vault value)."""
import re
from fractions import Fraction
from ..facts import mname, term_callee
from ..mir import switch_conds, cmp_true_false_edges
from ..dataflow import (call_of, cond_at, const_of, message_creations, forward_flow, two_var_table)
from ..guards import HelperGuard, site_guarded
from .common import storage_calls, arg_origins, ok_value_blocks, must_pass_through, nonzero_edges

CEIL = re.compile(r"(_ceil|::ceil|to_uint_ceil|div_ceil|mul_ceil)$")


def fns_with_closures(model, p):
    return [p] + model.closures_of(p)


def pending_fee_subtracted(model, p, ledger_suffix):
    """Does function p (incl. closures) subtract a value derived from the pending ledger from an amount?"""
    for q in fns_with_closures(model, p):
        v = model.view(q)
        for b, t in v.calls_to(r"Uint128::checked_sub$|<cosmwasm_std::Uint128 as std::ops::Sub>::sub$|Uint128::saturating_sub$"):
            a1 = v.origins_of_operand(t["args"][1], at=v.at_term(b), taint=True)
            from ..guards import resolve
            if q != p:
                # resolve closure captures in the parent
                cb = None
                for (cp, cbk, k) in model.callers().get(q, []):
                    if k == "closure":
                        a1 = resolve(model, ((cp, cbk, "closure"),), v, a1, taint=True)
            if any(o.kind == "load" and o.a.endswith(ledger_suffix) for o in a1):
                return True
    return False


def check_fee_lookup_same_asset(ctx, model, crate, rule):
    """The pending fee subtracted from an asset's balance must be looked up by that same asset's id:
    `x.amount.checked_sub(get_protocol_fee_for_asset(fees, x.get_id()))`."""
    n = 0
    for p in sorted(model.all_paths(crate)):
        if "::migrations::" in p:
            continue
        v = model.view(p)
        for b, t in v.calls_to(r"helpers::get_protocol_fee_for_asset$"):
            n += 1
            ids = set()
            for o in v.origins_of_operand(t["args"][1], at=v.at_term(b)):
                c = call_of(v, o)
                if c and mname(c[1]).endswith("Asset::get_id"):
                    ids |= {(x.kind, x.a, x.b) for x in v.origins_of_operand(c[1]["args"][0], at=v.at_term(c[0]))}
                else:
                    ids.add(("?", repr(o), None))
            # consumers of the looked-up fee
            dest = t["dest"]["l"]
            consumers = []
            for xb, xt in v.calls_to(r"Uint128::checked_sub$|<cosmwasm_std::Uint128 as std::ops::Sub>::sub$|Uint128::saturating_sub$"):
                a1 = v.origins_of_operand(xt["args"][1], at=v.at_term(xb))
                if any(o.kind == "call" and o.b == "%s:bb%d" % (v.path, b) for o in a1):
                    a0 = v.origins_of_operand(xt["args"][0], at=v.at_term(xb))
                    consumers.append({(x.kind, x.a, x.b) for x in a0})
            ok = bool(consumers) and all(cs == ids for cs in consumers) and bool(ids)
            ctx.ob(rule, "%s|fee-looked-up-for-the-reduced-asset" % p, ok,
                   "pending fee looked up by the id of %s and subtracted from the balance of %s" % (sorted(ids), [sorted(c) for c in consumers]), v.where(b))
    ctx.floor(rule, "%s pending-fee lookups" % crate, n, 5)


def check_raw_balance_single_consumer(ctx, model, crate, rule):
    """Where a pending fee is subtracted from a balance, that subtraction is the ONLY consumer of the unreduced balance:
    no arithmetic, comparison, message or aggregate in the same function may read the raw amount next to its fee-reduced
    value (provenance is kill-aware, so reads after `x.amount = x.amount.checked_sub(fee)?` see the reduced value)."""
    from ..mir import _TRANSPARENT_RE
    n = 0
    for p in sorted(model.all_paths(crate)):
        if "::migrations::" in p:
            continue
        v = model.view(p)
        for b, t in v.calls_to(r"helpers::get_protocol_fee_for_asset$"):
            for xb, xt in v.calls_to(r"Uint128::checked_sub$|<cosmwasm_std::Uint128 as std::ops::Sub>::sub$|Uint128::saturating_sub$"):
                a1 = v.origins_of_operand(xt["args"][1], at=v.at_term(xb))
                if not any(o.kind == "call" and o.b == "%s:bb%d" % (v.path, b) for o in a1):
                    continue
                raw = {o for o in v.origins_of_operand(xt["args"][0], at=v.at_term(xb)) if o.proj and o.proj[-1] == "amount"}
                if not raw:
                    continue
                n += 1
                others = []

                def is_raw(op, at):
                    if op["k"] not in ("copy", "move"):
                        return False
                    os_ = v.origins_of_operand(op, at=at)
                    return bool(os_ & raw)
                for cb, ct in v.iter_calls():
                    if _TRANSPARENT_RE.search(mname(ct)):
                        continue
                    for ai, a in enumerate(ct["args"]):
                        if (cb, ai) == (xb, 0):
                            continue
                        if is_raw(a, v.at_term(cb)):
                            others.append("%s arg %d (line %s)" % (mname(ct).split("::")[-1], ai, ct.get("ln")))
                for sb, si, st in v.iter_stmts():
                    rv = st["rv"]
                    ops = []
                    if rv["r"] in ("bin", "checkedbin"):
                        ops = [rv["a"], rv["b"]]
                    elif rv["r"] == "agg":
                        ops = rv["ops"]
                    for a in ops:
                        if is_raw(a, (sb, si)):
                            others.append("%s operand (line %s)" % (rv["r"], st.get("ln")))
                ctx.ob(rule, "%s|raw-balance-only-feeds-the-fee-subtraction" % p, not others,
                       "unreduced balance %s is also read by: %s" % (sorted(map(repr, raw)), others) if others else
                       "unreduced balance %s has the fee subtraction as its only consumer" % sorted(map(repr, raw)), v.where(xb))
    ctx.floor(rule, "%s fee subtractions from a balance" % crate, n, 5)


def check_v1_pools(ctx, model, crate, rule):
    """V1: every function reading pool balances (query_pools) for pricing or shares subtracts the pending protocol fees."""
    info = "PairInfoRaw" if crate == "terraswap_pair" else "TrioInfoRaw"
    exempt = {"%s::commands::receive_cw20" % crate: "uses query_pools only to authorise the sending token"}
    n = 0
    for p in sorted(model.all_paths(crate)):
        if "{closure" in p or "::migrations::" in p:
            continue
        v = model.view(p)
        calls = v.calls_to(r"asset::%s::query_pools$" % info)
        if not calls:
            continue
        n += 1
        ctx.fn_seen.add(p)
        if p in exempt:
            ctx.ob(rule, "%s|pending-fees-excluded" % p, True, "exempt: %s" % exempt[p], v.where(), nontrivial=False)
            continue
        ok = pending_fee_subtracted(model, p, "%s::state::COLLECTED_PROTOCOL_FEES" % crate)
        ctx.ob(rule, "%s|pending-fees-excluded" % p, ok,
               "reads pool balances through query_pools and %s the pending protocol fees" % ("subtracts" if ok else "does NOT subtract"), v.where(calls[0][0]))
    ctx.floor(rule, "%s functions reading pool balances" % crate, n, 7)


def check_v2_v3_pool(ctx, model, crate, rule, fns=("swap", "provide_liquidity")):
    """V2/V3: funds validation dominates pricing; native deposits are subtracted."""
    for fn in fns:
        p = "%s::commands::%s" % (crate, fn)
        v = ctx.view(p, rule)
        if v is None:
            continue
        spec = HelperGuard("assert_sent_native_token_balance(..)?", r"asset::Asset::assert_sent_native_token_balance$")
        targets = [b for b, t in v.calls_to(r"query_pools$")]
        ok = bool(targets) and all(site_guarded(model, (), p, b, spec)[0] for b in targets)
        if not ok and targets:
            # validation inside a `for asset in assets { asset.assert..(&info)?; }` loop: the loop must come first and propagate the error
            edges = spec.pass_edges(model, (), v)
            helpers = [hb for hb, ht in v.calls_to(r"asset::Asset::assert_sent_native_token_balance$")]
            nxt = [nb for nb, nt in v.calls_to(r"as std::iter::Iterator>::next$") if any(hb in v.reach_strict(nb) for hb in helpers)]
            ok = bool(edges) and bool(nxt) and all(any(must_pass_through(v, nb, [tb]) for nb in nxt) for tb in targets) and not any(
                hb in v.reach_strict(tb) for hb in helpers for tb in targets)
        if not ok and targets:
            # `assets.iter().try_for_each(|a| a.assert_sent_native_token_balance(&info))?`: the adapter visits every asset and its
            # error is propagated before any balance is read
            from ..guards import result_edges
            from .common import scope_calls
            inner = [(sv, ch) for sv, ch, hb, ht in scope_calls(model, p, r"asset::Asset::assert_sent_native_token_balance$") if ch]
            for oke, ab, at_, erre in result_edges(v, re.compile(r"Iterator>::try_for_each$")):
                closes = {o.a for o in v.origins_of_operand(at_["args"][1], at=v.at_term(ab)) if o.kind == "closure"}
                if any(sv.path in closes for sv, ch in inner) and all(v.edge_dominated(tb, oke) for tb in targets):
                    ok = True
        ctx.ob(rule, "%s|funds-validated-before-pricing" % p, ok, "pool balances are read only after assert_sent_native_token_balance succeeded: %s" % ok, v.where())
        for b, t in v.calls_to(r"asset::Asset::assert_sent_native_token_balance$"):
            a1 = arg_origins(v, b, t, 1)
            ctx.ob(rule, "%s|validated-against-caller-funds" % p, bool(a1) and all(o.kind == "param" and "MessageInfo" in v.local_ty(o.a) for o in a1),
                   "validated against %s" % sorted(map(repr, a1)), v.where(b))
    p = "%s::commands::provide_liquidity" % crate
    v = ctx.view(p, rule) if "provide_liquidity" in fns else None
    if v is not None:
        # native deposit subtraction: checked_sub(pool.amount, deposits[i]) and cw20 TransferFrom(deposits[i])
        sub = False
        for b, t in v.calls_to(r"Uint128::checked_sub$"):
            a1 = v.origins_of_operand(t["args"][1], at=v.at_term(b), taint=True)
            if any(o.kind == "param" and "Asset" in v.local_ty(o.a) for o in a1):
                sub = True
        tf = False
        for b, i, s in v.iter_stmts():
            rv = s["rv"]
            if rv["r"] == "agg" and rv.get("adt") == "cw20::Cw20ExecuteMsg" and rv.get("variant") == "TransferFrom":
                f = dict(zip(rv["fields"], rv["ops"]))
                a = v.origins_of_operand(f["amount"], at=(b, i), taint=True)
                o_ = v.origins_of_operand(f["owner"], at=(b, i), taint=True)
                r_ = v.origins_of_operand(f["recipient"], at=(b, i), taint=True)
                tf = any(o.kind == "param" and "Asset" in v.local_ty(o.a) for o in a) and any(o.kind == "param" and tuple(o.proj) == ("sender",) for o in o_) and any(
                    o.kind == "param" and tuple(o.proj) == ("contract", "address") for o in r_)
        ctx.ob(rule, "%s|deposit-excluded-or-pulled" % p, sub and tf,
               "native deposits subtracted from the pool balance: %s; cw20 deposits pulled with TransferFrom(sender -> contract, deposit): %s" % (sub, tf), v.where())


def check_v4_min_liquidity(ctx, model, p, rule, const_name="MINIMUM_LIQUIDITY_AMOUNT", mint_rx=r"::mint_lp_token_msg$"):
    """V4: on the first deposit the minimum liquidity is minted to the contract itself and the user's share excludes it."""
    v = ctx.view(p, rule)
    if v is None:
        return
    mints = v.calls_to(mint_rx)
    locked = []
    user = []
    for b, t in mints:
        rec = arg_origins(v, b, t, 1, taint=True)
        amt = arg_origins(v, b, t, 3, taint=True)
        to_self = bool(rec) and any(o.kind == "param" and tuple(o.proj) == ("contract", "address") for o in rec) and not any(
            o.kind == "param" and tuple(o.proj) == ("sender",) for o in rec) and not any(o.kind == "param" and "Option" in v.local_ty(o.a) for o in rec)
        is_min = any(o.kind == "item" and o.a.endswith(const_name) for o in amt) and not any(o.kind == "call" and ("sqrt" in o.a or "compute" in o.a or "multiply_ratio" in o.a) for o in amt)
        if to_self and is_min:
            locked.append(b)
        else:
            user.append(b)
    ctx.ob(rule, "%s|min-liquidity-minted-to-contract" % p, bool(locked) and bool(user),
           "mint sites locking %s in the contract: %d; user mint sites: %d" % (const_name, len(locked), len(user)), v.where())
    # the locking mint happens only when total share is zero
    share = lambda os_: bool(os_) and all(o.kind == "call" and o.a.endswith("get_total_share") for o in os_)
    zero = lambda os_: bool(os_) and all(o.kind == "call" and o.a.endswith("Uint128::zero") for o in os_)
    if locked:
        from ..dataflow import single_var_guard, single_var_regions, single_var_walk
        tracked, ths = single_var_guard(v, share, [Fraction(0)])
        rows, bad = [], []
        for x in single_var_regions(ths):
            if x < 0:
                continue
            r = bool(single_var_walk(v, tracked, x) & set(locked))
            rows.append("%s:%s" % (x, "locks" if r else "no"))
            if r != (x == 0):
                bad.append("total_share=%s" % x)
        ctx.ob(rule, "%s|locked-only-on-first-deposit" % p, bool(tracked) and not bad,
               "locking mint reachable by total share: %s (must be only when zero)" % rows, v.where())
    # zero share rejected
    zs = False
    for b, c, _ in switch_conds(v):
        nz = nonzero_edges(v, b, c)
        if nz is not None:
            a0 = v.origins_of_operand(nz[0], at=nz[1], taint=True)
            if any(o.kind == "item" and o.a.endswith(const_name) for o in a0) or any(o.kind == "call" and ("checked_sub" in o.a or "saturating_sub" in o.a) for o in a0):
                bad = nz[3]
                r = set()
                for (_, tgt) in bad:
                    r |= v.reachable(tgt)
                if not (r & set(ok_value_blocks(v))):
                    zs = True
    ctx.ob(rule, "%s|zero-share-rejected" % p, zs, "a zero user share after locking the minimum liquidity cannot succeed: %s" % zs, v.where())


def check_no_lp_outflow(ctx, model, crate, rule, lp_field):
    """V4 'locked forever': no function of the contract builds a transfer of the LP token out of the contract: the only
    burn uses the amount the user sent, and no cw20 Transfer/Send targets the LP token contract."""
    n = 0
    for p in sorted(model.all_paths(crate)):
        if "::migrations::" in p:
            continue
        v = model.view(p)
        for b, i, s in v.iter_stmts():
            rv = s["rv"]
            if rv["r"] == "agg" and rv.get("adt") == "cosmwasm_std::WasmMsg" and rv.get("variant") == "Execute":
                f = dict(zip(rv["fields"], rv["ops"]))
                to = v.origins_of_operand(f["contract_addr"], at=(b, i), taint=True)
                msg = v.origins_of_operand(f["msg"], at=(b, i), taint=True)
                is_lp = any(o.proj and lp_field in o.proj for o in to)
                if not is_lp and to and all(o.kind == "param" and not o.proj for o in to):
                    # helper taking the LP token address as a parameter: resolve at the call sites
                    for (cp, cb, ck) in model.callers().get(p, []):
                        if ck != "call":
                            continue
                        cv = model.view(cp)
                        ct = cv.blocks[cb]["t"]
                        for o in to:
                            if o.a - 1 < len(ct["args"]):
                                if any(x.proj and lp_field in x.proj for x in cv.origins_of_operand(ct["args"][o.a - 1], at=cv.at_term(cb), taint=True)):
                                    is_lp = True
                kinds = {o.a.split("::")[-1] for o in msg if o.kind == "agg" and o.a.startswith("cw20::Cw20ExecuteMsg::")}
                if is_lp:
                    n += 1
                    ctx.ob(rule, "%s|lp-message|%s" % (p, ",".join(sorted(kinds))), kinds <= {"Mint", "Burn"},
                           "message to the LP token contract: %s (only Mint / Burn may be sent)" % sorted(kinds), v.where(b))
    ctx.floor(rule, "%s messages to the LP token" % crate, n, 2)


def check_v5_rounding(ctx, model, fns, rule):
    """V5: no ceil-family call in mint / refund / fee / reward computations."""
    n = 0
    for p in fns:
        for q in fns_with_closures(model, p) if model.has(p) else []:
            v = model.view(q)
            ctx.fn_seen.add(q)
            n += 1
            bad = [mname(t) for b, t in v.iter_calls() if CEIL.search(mname(t))]
            ctx.ob(rule, "%s|floor-family-only" % q, not bad, "ceil-family calls: %s" % (bad or "none"), v.where(), nontrivial=(q == p))
        if not model.has(p):
            ctx.missing(rule, p)
    return n


def check_direct_withdraw(ctx, model, rule, execute_path, withdraw_rx, item_suffix, lp_proj):
    """The direct (token-factory LP) withdrawal entry: the shares handed in are the attached coins, so the call into the
    withdraw routine must be dominated by `funds.len() == 1` and `funds[0].denom == <LP denom loaded from storage>` and
    must pass funds[0].amount -- comparing with any other denom (the deposit asset, say) turns ordinary coins into shares."""
    v = ctx.view(execute_path, rule)
    if v is None:
        return
    info = None
    for i in range(1, v.argc + 1):
        if "MessageInfo" in v.local_ty(i):
            info = i
    calls = v.calls_to(withdraw_rx)
    if not calls or info is None:
        ctx.missing(rule, "direct withdraw call in %s" % execute_path)
        return
    funds = lambda os_, last: bool(os_) and all(o.kind == "param" and o.a == info and o.proj and o.proj[0] == "funds" and o.proj[-1] == last for o in os_)
    lp = lambda os_: any(o.kind == "load" and o.a.endswith(item_suffix) and tuple(o.proj) == tuple(lp_proj) for o in os_) and all(
        (o.kind == "load" and o.a.endswith(item_suffix) and tuple(o.proj) == tuple(lp_proj)) or (o.kind == "call" and o.a.endswith("String::new")) for o in os_)
    den_edges, len_edges = [], []
    for b, c, _ in switch_conds(v):
        if c.kind != "cmp" or c.op not in ("==", "!="):
            continue
        at = cond_at(v, c)
        oa, ob = v.origins_of_operand(c.a, at=at), v.origins_of_operand(c.b, at=at)
        te, fe = cmp_true_false_edges(v, b, c)
        eq = te if c.op == "==" else fe
        if (funds(oa, "denom") and lp(ob)) or (funds(ob, "denom") and lp(oa)):
            den_edges += eq
        for x, y in ((oa, c.b), (ob, c.a)):
            if x and all(o.kind == "call" and o.a.endswith("Vec::len") for o in x) and const_of(v, y, at) == 1:
                # the length that is compared is that of info.funds
                ok_len = True
                for o in x:
                    cc = call_of(v, o)
                    ok_len = ok_len and cc is not None and funds(v.origins_of_operand(cc[1]["args"][0], at=v.at_term(cc[0])), "funds")
                if ok_len:
                    len_edges += eq
    for b, t in calls:
        amt = v.origins_of_operand(t["args"][-1], at=v.at_term(b))
        ok_amt = funds(amt, "amount")
        ok_den = bool(den_edges) and v.edge_dominated(b, den_edges)
        ok_len = bool(len_edges) and v.edge_dominated(b, len_edges)
        ctx.ob(rule, "%s|direct-withdraw|shares-are-the-attached-lp-coins" % execute_path, ok_amt and ok_den and ok_len,
               "withdraw amount from %s (must be info.funds[0].amount): %s; dominated by funds[0].denom == stored LP denom: %s; by funds.len() == 1: %s"
               % (sorted(map(repr, amt)), ok_amt, ok_den, ok_len), v.where(b))


def check_fee_deduction_all_kinds(ctx, model, crate, rule):
    """The pending-fee deduction applies to every pool asset whatever its kind: in each function that deducts pending fees
    from pool balances, the subtraction is reachable both when the pool asset is a cw20 token and when it is a native coin
    (a deduction tucked into the native-only branch leaves pending cw20 fees priced as LP reserves)."""
    from ..dataflow import variant_excluded_edges
    n = 0
    for p in sorted(model.all_paths(crate)):
        if "::migrations::" in p:
            continue
        v = model.view(p)
        lookups = v.calls_to(r"helpers::get_protocol_fee_for_asset$")
        if not lookups:
            continue
        subs = []
        for b, t in lookups:
            for xb, xt in v.calls_to(r"Uint128::checked_sub$|<cosmwasm_std::Uint128 as std::ops::Sub>::sub$|Uint128::saturating_sub$"):
                a1 = v.origins_of_operand(xt["args"][1], at=v.at_term(xb))
                if any(o.kind == "call" and o.b == "%s:bb%d" % (v.path, b) for o in a1):
                    subs.append(xb)
        if not subs:
            continue
        n += 1
        pred = lambda os_: bool(os_) and any((o.kind == "call" and o.a.endswith("query_pools")) or o.kind == "param" for o in os_) and all(
            o.proj and o.proj[-1] == "info" for o in os_)
        bad = []
        for kind in ("Token", "NativeToken"):
            cut = variant_excluded_edges(v, "pool_network::asset::AssetInfo", pred, kind)
            reach = v.reachable(0, cut_edges=cut)
            if not all(xb in reach for xb in subs):
                bad.append(kind)
        # ... nor may it hang on one side of a test of the asset's identity (`pool.info.equal(&offer.info)`): cutting any
        # single out-edge of such a test must leave the subtraction reachable
        for sb, c, edges in switch_conds(v):
            if c.kind == "call" and c.callee.endswith("AssetInfo::equal"):
                for e in v.edges_from(sb):
                    r = v.reachable(0, cut_edges=[(sb, e[1])])
                    if not all(xb in r for xb in subs):
                        bad.append("one side of AssetInfo::equal at line %s" % v.line_of_block(sb))
                        break
        ctx.ob(rule, "%s|fee-deducted-for-every-asset-kind" % p, not bad,
               "pending-fee subtraction unreachable when the pool asset is a %s" % bad if bad else "pending-fee subtraction reachable for cw20 and native pool assets alike", v.where(subs[0]))
    ctx.floor(rule, "%s functions deducting pending fees" % crate, n, 5)


def check_cp_share_formula(ctx, model, rule):
    """Constant-product deposit into a non-empty pair: the LP share is min_i(deposit_i.multiply_ratio(total_share, pool_i))
    -- one exact floor per side, deposit_i and pool_i of the SAME pool position, pool_i net of deposit and pending fees.
    Going through a truncated 18-decimal price (deposit / (pool/total_share)) rounds the share UP for large amounts."""
    from .stablemath import deposit_pool_index
    p = "terraswap_pair::commands::provide_liquidity"
    v = ctx.view(p, rule)
    if v is None:
        return
    mins = v.calls_to(r"^std::cmp::min$")
    cands = []
    for b, t in mins:
        sides = []
        for a in t["args"]:
            for o in v.origins_of_operand(a, at=v.at_term(b)):
                c = call_of(v, o)
                if c and mname(c[1]).endswith("Uint128::multiply_ratio"):
                    cb, ct = c
                    dep = deposit_pool_index(v, model, ct["args"][0], v.at_term(cb))
                    sup = v.origins_of_operand(ct["args"][1], at=v.at_term(cb))
                    den = v.origins_of_operand(ct["args"][2], at=v.at_term(cb), taint=True)
                    pidx = sorted({o2.proj[0] for o2 in den if o2.kind == "call" and o2.a.endswith("query_pools") and len(o2.proj) == 2 and o2.proj[1] == "amount" and o2.proj[0].startswith("[")})
                    sides.append((dep, pidx, bool(sup) and all(o2.kind == "call" and o2.a.endswith("get_total_share") for o2 in sup)))
                else:
                    sides.append(("?", "?", False))
        cands.append((b, sides))
    good = [c for c in cands if len(c[1]) == 2 and sorted(s[0] for s in c[1]) == [["[0]"], ["[1]"]] and all(s[0] == s[1] and s[2] for s in c[1])]
    ctx.ob(rule, "%s|share=min(deposit_i*supply/pool_i)" % p, len(good) == 1,
           "min(..) of per-side multiply_ratio: %s (each side: deposit index, pool index, scaled by total_share)" % [c[1] for c in cands], v.where(good[0][0]) if good else v.where())
    # and that value is what is minted to the depositor on this path
    if good:
        gb = good[0][0]
        mints = []
        for b, t in v.calls_to(r"mint_lp_token_msg$"):
            os_ = v.origins_of_operand(t["args"][-1], at=v.at_term(b))
            if any(o.kind == "call" and o.b == "%s:bb%d" % (v.path, gb) for o in os_):
                mints.append(b)
        ctx.ob(rule, "%s|that-share-is-minted" % p, bool(mints), "mint of the min(..) share found: %s" % bool(mints), v.where(gb))


def _closure_deducts_fee(model, cpath):
    """Closure body subtracts a looked-up pending fee on every path to its successful return."""
    if cpath not in model.fnsrc:
        return False
    cv = model.view(cpath)
    subs = []
    for b, t in cv.calls_to(r"helpers::get_protocol_fee_for_asset$"):
        for xb, xt in cv.calls_to(r"Uint128::checked_sub$|<cosmwasm_std::Uint128 as std::ops::Sub>::sub$"):
            a1 = cv.origins_of_operand(xt["args"][1], at=cv.at_term(xb))
            if any(o.kind == "call" and o.b == "%s:bb%d" % (cv.path, b) for o in a1):
                subs.append(xb)
    oks = ok_value_blocks(cv) or list(cv.return_blocks())
    return bool(subs) and any(must_pass_through(cv, xb, oks) for xb in subs)


def _fee_reduced(v, model, origins, depth=0):
    """Every reaching definition of a reserve is net of the pending protocol fee. Returns (ok, why)."""
    if not origins:
        return False, "no provenance"
    for o in origins:
        if o.kind != "call":
            return False, "%r is not derived from a fee subtraction" % (o,)
        c = call_of(v, o)
        if c is None:
            return False, "%r" % (o,)
        cb, ct = c
        name = mname(ct)
        if re.search(r"Uint128::(checked_sub|saturating_sub)$|<cosmwasm_std::Uint128 as std::ops::Sub>::sub$", name):
            a1 = v.origins_of_operand(ct["args"][1], at=v.at_term(cb))
            if any(x.kind == "call" and x.a.endswith("get_protocol_fee_for_asset") for x in a1):
                continue
            if depth < 4:
                ok, why = _fee_reduced(v, model, v.origins_of_operand(ct["args"][0], at=v.at_term(cb)), depth + 1)
                if ok:
                    continue
                return False, why
            return False, "subtraction chain too deep"
        if name.endswith("query_pools"):
            return False, "raw query_pools balance (line %s)" % ct.get("ln")
        # iterator pipeline / local closure call: some closure on the way must deduct the fee unconditionally
        closures = set()
        for a in ct["args"]:
            closures |= {x.a for x in v.origins_of_operand(a, at=v.at_term(cb), taint=True) if x.kind == "closure"}
        m = re.search(r"(\\S+::\\{closure#\\d+\\})", name)
        if m:
            closures.add(m.group(1))
        if any(_closure_deducts_fee(model, k) for k in closures):
            continue
        return False, "%s at line %s carries no pending-fee deduction" % (name.split("::")[-1], ct.get("ln"))
    return True, ""


def check_reserves_net_of_fees(ctx, model, crate, rule):
    """Every reserve handed to the pricing routine (compute_swap / compute_offer_amount) is, on every reaching definition,
    net of the pending protocol fee of its asset -- in the executed swap and in both simulations."""
    n = 0
    for p in ("%s::commands::swap" % crate, "%s::queries::query_simulation" % crate, "%s::queries::query_reverse_simulation" % crate):
        v = ctx.view(p, rule)
        if v is None:
            continue
        calls = v.calls_to(r"helpers::compute_swap$|helpers::compute_offer_amount$")
        if not calls:
            ctx.missing(rule, "pricing call in %s" % p)
            continue
        nres = 2 if crate == "terraswap_pair" else 3
        for b, t in calls:
            bad = []
            for ai in range(nres):
                ok, why = _fee_reduced(v, model, v.origins_of_operand(t["args"][ai], at=v.at_term(b)))
                if not ok:
                    bad.append("reserve argument %d: %s" % (ai, why))
            n += 1
            ctx.ob(rule, "%s|reserves-net-of-pending-fees" % p, not bad, "; ".join(bad) if bad else "all %d reserves net of pending fees on every reaching definition" % nres, v.where(b))
    ctx.floor(rule, "%s pricing calls" % crate, n, 3)
