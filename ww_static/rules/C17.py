"""C17 -- pause switches stop exactly the operation they name."""
import re
from ..facts import mname
from ..dataflow import call_of
from ..effects import (dispatch_table, dispatch_on_enum, arm_blocks, collect_effects, enumerate_chains)
from ..guards import FlagGuard, site_guarded, flag_tests, resolve

EXPLANATION = """
Entry paths of each pausable operation are taken from the MIR dispatch tables: pair and 3-pool
ExecuteMsg::{ProvideLiquidity, WithdrawLiquidity, Swap} and the cw20 hook Cw20HookMsg::{Swap, WithdrawLiquidity}
inside receive_cw20; vault ExecuteMsg::{Deposit, Withdraw, FlashLoan} and Cw20HookMsg::Withdraw (14 paths).
P1: every storage write and every outgoing message reachable from the arm (through all call chains) must be
dominated by the true-edge of a branch on the operation's own flag as loaded from CONFIG
(feature_toggle.{deposits,withdrawals,swaps}_enabled; vault {deposit,withdraw,flash_loan}_enabled) -- decided by
cutting the pass edge and testing reachability. P2: the set of pause flags tested anywhere on the arm and in the
functions it reaches is exactly {own flag} (no foreign flag can stop the operation, and disabling another flag cannot
affect it). P3: instantiate stores all flags as the constant true. P4: update_config stores into each flag only the
same-named field of the request (vault) / the request's whole feature_toggle (pools). All three configurations are analysed in the
thorough tier because the token-factory withdraw arms are only live there.
"""
ASSUMPTIONS = [
    "router / frontend helper / vault router / fee collector can reach a pool or vault operation only through the "
    "child's execute entry point (CosmWasm call model), i.e. through one of the 14 analysed entry paths",
]

POOL_FLAGS = {"deposits_enabled", "withdrawals_enabled", "swaps_enabled"}
VAULT_FLAGS = {"deposit_enabled", "withdraw_enabled", "flash_loan_enabled"}

POOLS = {
    "terraswap_pair": ("terraswap_pair::commands::receive_cw20", "pool_network::pair::Cw20HookMsg"),
    "stableswap_3pool": ("stableswap_3pool::commands::receive_cw20", "pool_network::trio::Cw20HookMsg"),
}
POOL_OPS = {"ProvideLiquidity": "deposits_enabled", "WithdrawLiquidity": "withdrawals_enabled", "Swap": "swaps_enabled"}
POOL_HOOKS = {"Swap": "swaps_enabled", "WithdrawLiquidity": "withdrawals_enabled"}
VAULT_OPS = {"Deposit": "deposit_enabled", "Withdraw": "withdraw_enabled", "FlashLoan": "flash_loan_enabled"}
VAULT_HOOKS = {"Withdraw": "withdraw_enabled"}


def flag_of(os_, crate, flagset):
    """If all origins are load(<crate>::state::CONFIG)...<flag>, return the flag name."""
    names = set()
    for o in os_:
        if o.kind != "load" or not o.a.endswith("%s::state::CONFIG" % crate) or not o.proj:
            return None
        if o.proj[-1] not in flagset:
            return None
        names.add(o.proj[-1])
    return names.pop() if len(names) == 1 else None


def flag_guard(crate, flag, flagset):
    return FlagGuard("CONFIG.%s" % flag, lambda os_: bool(os_) and flag_of(os_, crate, flagset) == flag)


def check_path(ctx, model, crate, label, root, start_blocks, prefix, flag, flagset, pre_blocks_by_fn):
    """P1 + P2 for one entry path."""
    spec = flag_guard(crate, flag, flagset)
    effects = collect_effects(model, root, start_blocks, prefix=prefix)
    n = 0
    by_key = {}
    for ch, e, it in effects:
        ctx.fn_seen.add(e.fn)
        ok, why = site_guarded(model, ch, e.fn, e.block, spec)
        key = "%s|%s|%s|%s" % (crate, label, e.fn, it)
        prev = by_key.get(key)
        if prev is None or (prev[0] and not ok):
            by_key[key] = (ok, why, e)
    for key, (ok, why, e) in sorted(by_key.items()):
        n += 1
        ctx.ob("C17-P1", key, ok,
               why or "effect %s is reachable on entry path %s without passing the %s test" % (e, label, flag),
               model.view(e.fn).where(e.block))
    if not effects:
        ctx.ob("C17-P1", "%s|%s|no-effects" % (crate, label), False,
               "entry path %s has no reachable effect (dispatch anchor broken?)" % label, kind="anchor-missing")
    # P2: flags tested on this path
    tested = {}
    frames = [(root, prefix, start_blocks)]
    for ch, f in enumerate_chains(model, root, start_blocks=start_blocks, prefix=prefix):
        if f != root:
            frames.append((f, ch, None))
    for f, ch, blocks in frames:
        v = model.view(f)
        for b, os_, neg in flag_tests(model, ch, v, blocks):
            fl = flag_of(os_, crate, flagset)
            if fl:
                tested.setdefault(fl, []).append("%s:bb%d" % (f, b))
    # tests located before the dispatch (in the prefix frames) count too
    for f, blocks in pre_blocks_by_fn:
        v = model.view(f)
        for b, os_, neg in flag_tests(model, (), v, blocks):
            fl = flag_of(os_, crate, flagset)
            if fl:
                tested.setdefault(fl, []).append("%s:bb%d" % (f, b))
    foreign = sorted(set(tested) - {flag})
    ctx.ob("C17-P2", "%s|%s|own-flag-only" % (crate, label), not foreign,
           "flags tested on the path: %s; expected exactly {%s}" % (sorted(tested), flag)
           + ("; foreign flag(s) %s tested at %s" % (foreign, [tested[f] for f in foreign]) if foreign else ""),
           model.view(root).where())
    return n


def run(ctx):
    model = ctx.model()
    # P5: a paused deposit is also rejected when it comes through the frontend helper: the helper's reply propagates the
    # pool's rejection (else only the sub-call reverts and the user's funds stay in the helper) -- C11-K5's rule
    from .C11 import check_frontend
    check_frontend(ctx.renamed({"C11-K5": "C17-P5"}), model)
    paths = 0
    for crate, (recv, hook_enum) in sorted(POOLS.items()):
        root = "%s::contract::execute" % crate
        v = ctx.view(root, "C17-dispatch")
        rv = ctx.view(recv, "C17-dispatch")
        if v is None or rv is None:
            continue
        dt = dispatch_table(v, param=v.argc)
        if not dt:
            ctx.missing("C17-dispatch", "dispatch of %s" % root)
            continue
        sb, enum, table, _ = dt
        pre = v.live_blocks() - set().union(*[arm_blocks(v, t, sb) for t in set(table.values())])
        for var, flag in sorted(POOL_OPS.items()):
            if var not in table:
                ctx.missing("C17-dispatch", "%s::ExecuteMsg::%s" % (crate, var))
                continue
            ab = arm_blocks(v, table[var], sb)
            check_path(ctx, model, crate, "ExecuteMsg::%s" % var, root, ab, (), flag, POOL_FLAGS, [(root, pre)])
            paths += 1
        # cw20 hook paths
        if "Receive" not in table:
            ctx.missing("C17-dispatch", "%s::ExecuteMsg::Receive" % crate)
            continue
        rab = arm_blocks(v, table["Receive"], sb)
        call_blocks = [b for b, c, k in model.callees(root) if b in rab and c == recv]
        if not call_blocks:
            ctx.missing("C17-dispatch", "call of %s from the Receive arm" % recv)
            continue
        hd = dispatch_on_enum(rv, hook_enum)
        if not hd:
            ctx.missing("C17-dispatch", "Cw20HookMsg dispatch in %s" % recv)
            continue
        hsb, _, htable = hd
        hpre = rv.live_blocks() - set().union(*[arm_blocks(rv, t, hsb) for t in set(htable.values())])
        for var, flag in sorted(POOL_HOOKS.items()):
            if var not in htable:
                ctx.missing("C17-dispatch", "%s Cw20HookMsg::%s" % (crate, var))
                continue
            hab = arm_blocks(rv, htable[var], hsb)
            prefix = ((root, call_blocks[0], "call"),)
            check_path(ctx, model, crate, "Receive/Cw20HookMsg::%s" % var, recv, hab, prefix, flag, POOL_FLAGS,
                       [(root, pre | rab), (recv, hpre)])
            paths += 1
        check_defaults(ctx, model, crate, "%s::contract::instantiate" % crate, POOL_FLAGS,
                       r"pool_network::(pair|trio)::FeatureToggle$")
    # vault
    crate = "vault"
    root = "vault::contract::execute"
    v = ctx.view(root, "C17-dispatch")
    if v is not None:
        dt = dispatch_table(v, param=v.argc)
        if not dt:
            ctx.missing("C17-dispatch", "dispatch of %s" % root)
        else:
            sb, enum, table, _ = dt
            pre = v.live_blocks() - set().union(*[arm_blocks(v, t, sb) for t in set(table.values())])
            for var, flag in sorted(VAULT_OPS.items()):
                if var not in table:
                    ctx.missing("C17-dispatch", "vault::ExecuteMsg::%s" % var)
                    continue
                ab = arm_blocks(v, table[var], sb)
                check_path(ctx, model, crate, "ExecuteMsg::%s" % var, root, ab, (), flag, VAULT_FLAGS, [(root, pre)])
                paths += 1
            recv = "vault::execute::receive::receive"
            rv = ctx.view(recv, "C17-dispatch")
            if rv is not None and "Receive" in table:
                rab = arm_blocks(v, table["Receive"], sb)
                call_blocks = [b for b, c, k in model.callees(root) if b in rab and c == recv]
                hd = dispatch_on_enum(rv, "vault_network::vault::Cw20HookMsg")
                if not call_blocks or not hd:
                    # a single-variant enum is matched irrefutably: no switch; take the whole function after decoding
                    if call_blocks:
                        prefix = ((root, call_blocks[0], "call"),)
                        check_path(ctx, model, crate, "Receive/Cw20HookMsg::Withdraw", recv, None, prefix,
                                   "withdraw_enabled", VAULT_FLAGS, [(root, pre | rab)])
                        paths += 1
                    else:
                        ctx.missing("C17-dispatch", "vault receive hook")
                else:
                    hsb, _, htable = hd
                    hpre = rv.live_blocks() - set().union(*[arm_blocks(rv, t, hsb) for t in set(htable.values())])
                    for var, flag in sorted(VAULT_HOOKS.items()):
                        hab = arm_blocks(rv, htable[var], hsb)
                        prefix = ((root, call_blocks[0], "call"),)
                        check_path(ctx, model, crate, "Receive/Cw20HookMsg::%s" % var, recv, hab, prefix, flag,
                                   VAULT_FLAGS, [(root, pre | rab), (recv, hpre)])
                        paths += 1
        check_defaults(ctx, model, crate, "vault::contract::instantiate", VAULT_FLAGS, r"vault_network::vault::Config$")
    ctx.floor("C17-dispatch", "pausable entry paths", paths, 14)
    check_flag_writes(ctx, model)


def check_flag_writes(ctx, model):
    """P4: each pause flag stored by update_config is either the value already stored or the same-named field of
    the request (vault), respectively the request's whole feature_toggle (pools)."""
    from ..dataflow import field_sources
    from .C18 import saves_of
    p = "vault::execute::update_config::update_config"
    v = ctx.view(p, "C17-P4")
    if v is not None:
        for sb, t in saves_of(v, "vault::state::CONFIG"):
            for flag in sorted(VAULT_FLAGS):
                srcs = [s for s in field_sources(v, t["args"][2], (flag,), v.at_term(sb)) if s.kind in ("assign", "agg", "partial")]
                ok = bool(srcs)
                det = []
                for s_ in srcs:
                    os_ = v.origins_of_operand(s_.operand, at=(s_.block, s_.idx)) if s_.operand else set()
                    det.append(sorted(map(repr, os_)))
                    # the request's same-named field, or (`opt.unwrap_or(config.flag)`) the value already stored
                    ok = ok and bool(os_) and all((o.kind == "param" and o.proj and o.proj[-1] == flag) or
                                                  (o.kind == "load" and o.a.endswith("vault::state::CONFIG") and tuple(o.proj) == (flag,)) for o in os_) \
                        and any(o.kind == "param" for o in os_)
                ctx.ob("C17-P4", "vault|update_config|%s" % flag, ok, "CONFIG.%s assigned from %s (must be the request's %s)" % (flag, det, flag), v.where(sb))
                # ... and only when the request names it: with the field absent (None) the assignment is unreachable, so an
                # update that names one switch leaves the others as stored (None is "leave unchanged", not "false")
                from ..dataflow import variant_excluded_edges
                pred = lambda os_, flag=flag: bool(os_) and all(o.kind == "param" and o.proj and o.proj[-1] == flag for o in os_)
                cut_none = variant_excluded_edges(v, "option::Option", pred, "None")
                reach_none = v.reachable(0, cut_edges=cut_none)
                def keeps_stored_when_absent(s_, flag=flag):
                    """`config.flag = request.flag.unwrap_or(config.flag)`: with the field absent the stored value is re-assigned"""
                    if s_.operand is None:
                        return False
                    with v.opaque(r"^std::option::Option::(unwrap_or|unwrap_or_else)$"):
                        os2 = v.origins_of_operand(s_.operand, at=(s_.block, s_.idx))
                    if not os2:
                        return False
                    for o in os2:
                        c = call_of(v, o)
                        if not c or not re.search(r"^std::option::Option::unwrap_or$", mname(c[1])):
                            return False
                        a0 = v.origins_of_operand(c[1]["args"][0], at=v.at_term(c[0]))
                        a1 = v.origins_of_operand(c[1]["args"][1], at=v.at_term(c[0]))
                        if not (a0 and all(x.kind == "param" and x.proj and x.proj[-1] == flag for x in a0)):
                            return False
                        if not (a1 and all(x.kind == "load" and x.a.endswith("vault::state::CONFIG") and tuple(x.proj) == (flag,) for x in a1)):
                            return False
                    return True
                leaked = [s_.block for s_ in srcs if s_.block is not None and s_.block in reach_none and not keeps_stored_when_absent(s_)]
                if not cut_none and srcs and all(keeps_stored_when_absent(s_) for s_ in srcs):
                    cut_none = {("unwrap_or", 0)}      # no branch on the option at all: decided by unwrap_or itself
                ctx.ob("C17-P4", "vault|update_config|%s|only-when-named" % flag, bool(cut_none) and not leaked,
                       "with the request's %s absent the flag assignment is %s" % (flag, "reachable (bb%s)" % leaked if leaked or not cut_none else "unreachable"), v.where(sb))
    for crate in sorted(POOLS):
        p = "%s::commands::update_config" % crate
        v = ctx.view(p, "C17-P4")
        if v is None:
            continue
        for sb, t in saves_of(v, "%s::state::CONFIG" % crate):
            srcs = [s for s in field_sources(v, t["args"][2], ("feature_toggle",), v.at_term(sb)) if s.kind in ("assign", "agg", "partial")]
            ok = bool(srcs) and all(s_.kind == "assign" for s_ in srcs)
            det = []
            for s_ in srcs:
                os_ = v.origins_of_operand(s_.operand, at=(s_.block, s_.idx)) if s_.operand else set()
                det.append(sorted(map(repr, os_)))
                ok = ok and bool(os_) and all(o.kind == "param" and "FeatureToggle" in v.local_ty(o.a) and not o.proj for o in os_)
            ctx.ob("C17-P4", "%s|update_config|feature_toggle" % crate, ok, "CONFIG.feature_toggle assigned from %s (must be the request's whole feature_toggle)" % det, v.where(sb))
            from ..dataflow import variant_excluded_edges
            pred = lambda os_: bool(os_) and all(o.kind == "param" and "FeatureToggle" in v.local_ty(o.a) for o in os_)
            cut_none = variant_excluded_edges(v, "option::Option", pred, "None")
            reach_none = v.reachable(0, cut_edges=cut_none)
            leaked = [s_.block for s_ in srcs if s_.block is not None and s_.block in reach_none]
            ctx.ob("C17-P4", "%s|update_config|feature_toggle|only-when-named" % crate, bool(cut_none) and not leaked,
                   "with the request's feature_toggle absent the assignment is %s" % ("reachable" if leaked or not cut_none else "unreachable"), v.where(sb))
            # ... and ALWAYS when named, whatever else the same request carries: with feature_toggle = Some(..) no path
            # reaches the CONFIG.save without passing an assignment of the flag set (a toggle chained as `else if` behind
            # another optional field is silently dropped when both are given, and the pause never takes effect)
            cut_some = variant_excluded_edges(v, "option::Option", pred, "Some")
            ablocks = [s_.block for s_ in srcs if s_.block is not None]
            if cut_some and ablocks:
                skipped = sb in v.reachable(0, cut_edges=cut_some, cut_blocks=ablocks)
                ctx.ob("C17-P4", "%s|update_config|feature_toggle|always-when-named" % crate, not skipped,
                       "with the request's feature_toggle present the CONFIG.save is %s without the assignment" % ("reachable" if skipped else "unreachable"), v.where(sb))


def check_defaults(ctx, model, crate, inst, flagset, adt_rx):
    """P3: the aggregate stored at instantiate has every pause flag = const true."""
    v = ctx.view(inst, "C17-P3")
    if v is None:
        return
    found = 0
    for b, i, s in v.iter_stmts():
        rv = s["rv"]
        if rv["r"] == "agg" and "adt" in rv and re.search(adt_rx, rv["adt"]):
            for n, o in zip(rv["fields"], rv["ops"]):
                if n in flagset:
                    found += 1
                    os_ = v.origins_of_operand(o, at=(b, i))
                    ok = bool(os_) and all(x.kind == "const" and str(x.a) == "1" for x in os_)
                    ctx.ob("C17-P3", "%s|default|%s" % (crate, n), ok,
                           "flag %s initialised from %s (must be the constant true)" % (n, sorted(map(repr, os_))),
                           v.where(b))
    if found < len(flagset):
        ctx.ob("C17-P3", "%s|default|flags-found" % crate, False,
               "only %d of %d pause flags are initialised in %s" % (found, len(flagset), inst), v.where(), kind="anchor-missing")
