"""C18 -- stored configuration is always within its documented bounds."""
import re
from fractions import Fraction
from ..facts import mname
from ..mir import storage_call, switch_conds, cmp_true_false_edges, try_edges
from ..dataflow import (field_sources, single_var_guard, single_var_regions, single_var_walk, cut_path_exists,
                        const_of, truth_table, region_walk, cmp_truth, FLIP, cond_at)
from ..guards import ok_return_blocks
from .common import nonzero_edges
from ..effects import site_term

EXPLANATION = """
Two families of obligations. (1) Validator semantics, decided over the ordering domain: for every validator
(Fee::is_valid, PoolFee::is_valid for pair and trio, VaultFee::is_valid, validate_grace_period,
validate_epoch_config, validate_growth_rate, the inline amplification test of the 3-pool instantiate, the inline
take-rate test, the bonding-asset limit and the 'grace period never decreases' comparison) the comparisons on
the validated quantity are located by operand provenance, the real line is cut at the documented bounds and at
every constant the code actually compares with, and for one representative value per region the CFG is walked
with those comparisons decided; the accepting exit (Ok return / CONFIG.save) must be reachable exactly in the
documented accept set. This is insensitive to how the test is spelled and catches >= vs >, inverted tests,
dropped conjuncts and changed constants. Composite validators must call the per-fee validator on each of the
three fees with the error propagated, and the sum compared must depend on all three shares. (2) Validate-before-
store: for every CONFIG.save in the instantiate/update paths the sources of the bounded field are traced
(assignments, aggregate fields, partial sub-field assignments); every new (non-loaded) source must be unable to
reach the save without crossing the pass edge of the validator applied to that same value. The vault's
burn-fee/token-factory test must be applied to the vault asset at both sites. std-level validators are decided
on the workspace copy and, in the thorough tier, on the registry copy the contracts actually link.
vault-burn also requires that every new value of CONFIG.fees can reach the save only across `!has_factory_token(asset)`
or `burn_fee.share == 0` evaluated on those fees (instantiate and update_config).
"""
ASSUMPTIONS = [
    "Decimal/Uint comparison operators implement the numeric order (cosmwasm-std)",
    "a loaded CONFIG field already satisfies its bound (inductive hypothesis; base case = instantiate rows)",
]

ONE = Fraction(1)


def origin_pred_param_field(param, proj):
    proj = tuple(proj)
    return lambda os_: bool(os_) and all(o.kind == "param" and o.a == param and tuple(o.proj) == proj for o in os_)


def origins_has(os_, pred):
    return any(pred(o) for o in os_)


def table_check(ctx, rule, key, view, is_x, spec_thresholds, expected, targets, from_block=None, what=""):
    """Single-variable ordering-domain check. `targets` = accepting blocks."""
    tracked, ths = single_var_guard(view, is_x, spec_thresholds)
    if not tracked:
        ctx.ob(rule, key, False, "no comparison of %s with a constant found in %s (validator missing)" % (what, view.path),
               view.where())
        return
    bad = []
    rows = []
    for x in single_var_regions(ths):
        reach = single_var_walk(view, tracked, x)
        if from_block is not None:
            if from_block in reach:
                reach2 = single_var_walk(view, tracked, x, start=from_block)
                acc = bool(reach2 & set(targets))
            else:
                acc = False
        else:
            acc = bool(reach & set(targets))
        exp = expected(x)
        rows.append("%s:%s" % (x, "accept" if acc else "reject"))
        if acc != exp:
            bad.append("%s=%s: code %s, documented %s" % (what, x, "accepts" if acc else "rejects", "accept" if exp else "reject"))
    consts = sorted({str(t[2]) for t in tracked.values()})
    ctx.ob(rule, key, not bad,
           ("MISMATCH " + "; ".join(bad) + " | " if bad else "") + "regions %s; constants compared in code: %s" % (rows, consts),
           view.where(min(tracked)))


def ok_blocks(view):
    """Blocks assigning `_0 = Ok(..)`."""
    out = []
    for b, i, s in view.iter_stmts():
        if s["lhs"]["l"] == 0 and not s["lhs"]["p"] and s["rv"]["r"] == "agg" and s["rv"].get("variant") == "Ok":
            out.append(b)
    return out


def helper_pass_edges(view, callee_rx, arg_pred=None):
    """Edges on which `helper(arg)` returned Ok, tested by `?`, match, if-let or is_err (arg_pred filters on the origins of arg0)."""
    from ..guards import result_ok_edges
    rx = re.compile(callee_rx)
    edges = []
    sites = []
    for ok_e, hb, t in result_ok_edges(view, rx):
        a0 = view.origins_of_operand(t["args"][0], at=view.at_term(hb))
        if arg_pred is None or arg_pred(a0):
            edges += ok_e
            sites.append((hb, a0))
    return edges, sites


def saves_of(view, item_suffix):
    out = []
    for b, t in view.iter_calls():
        sc = storage_call(t)
        if sc and sc[1] == "save":
            if any(o.kind == "item" and o.a.endswith(item_suffix) for o in view.storage_item_of_call(t, view.at_term(b))):
                out.append((b, t))
    return out


def _fields_read_by(model, validator_rx):
    """First-level fields of `self` (parameter 1) read by the validator function(s) matching validator_rx."""
    rx = re.compile(validator_rx)
    out = set()
    for p in model.fnsrc:
        if not rx.search(p):
            continue
        v = model.view(p)

        def visit(op):
            if isinstance(op, dict) and op.get("k") in ("copy", "move"):
                pl = op["pl"]
                if pl["l"] == 1 or 1 in v.alias_roots(pl["l"]):
                    F = v._named_fields(pl["p"])
                    if F and not F[0].startswith("[") and not F[0].isdigit():
                        out.add(F[0])
        for b, i, s_ in v.iter_stmts():
            rv = s_["rv"]
            for k in ("op", "a", "b"):
                if k in rv:
                    visit(rv[k])
            if "pl" in rv:
                visit({"k": "copy", "pl": rv["pl"]})
            for o in rv.get("ops", []):
                visit(o)
        for b, t in v.iter_calls():
            for a in t["args"]:
                visit(a)
    return out


def validated_store(ctx, rule, view, item_suffix, field, validator_rx, label, arg_proj=()):
    """Every new source of CONFIG.<field> must be unable to reach the save without crossing the Continue
    edge of `validator(value)?` where value shares provenance with the source."""
    saves = saves_of(view, item_suffix)
    if not saves:
        ctx.missing(rule, "%s.save in %s" % (item_suffix, view.path))
        return 0
    n = 0
    for sb, t in saves:
        srcs = field_sources(view, t["args"][2], field, view.at_term(sb))
        news = [s for s in srcs if s.kind not in ("load",)]
        # a struct validated as a whole but stored field by field: every field the validator reads must be assigned,
        # otherwise the stored combination (new fields + a stale one) is something the validator never saw
        parts = [s for s in news if s.kind == "partial"]
        if parts:
            prefix = ".".join(field) + "."
            assigned = set()
            for s in parts:
                m = re.search(re.escape(prefix) + r"(\w+)", s.detail or repr(s))
                if m:
                    assigned.add(m.group(1))
            read = _fields_read_by(view.model, validator_rx)
            missing = sorted(read - assigned) if read else ["<validator body not available>"]
            ctx.ob(rule, "%s|%s|%s|stored-as-validated" % (view.path, ".".join(field), label), not missing,
                   "fields assigned one by one: %s; fields the validator reads: %s; never assigned: %s" % (sorted(assigned), sorted(read), missing), view.where(parts[0].block))
        for s in srcs:
            if s.kind == "load" and item_suffix.split("::")[-1] not in (s.detail or ""):
                news.append(s)
        for s in news:
            n += 1
            key = "%s|%s|%s|%s" % (view.path, ".".join(field), label, s.kind)
            if s.block is None:
                ctx.ob(rule, key, False, "unrecognised source %r of stored field %s" % (s, ".".join(field)), view.where(sb),
                       kind="unrecognised")
                continue
            if s.operand is not None:
                so = view.origins_of_operand(s.operand, at=(s.block, s.idx))
            else:
                so = set()

            def same_value(a0, so=so):
                # validator argument and stored value share an origin (validator arg may be the field or
                # the struct containing it)
                if not so:
                    return True
                for x in a0:
                    for y in so:
                        if x.kind == y.kind and x.a == y.a and (x.proj == y.proj or x.proj == y.proj[:len(x.proj)] or y.proj == x.proj[:len(y.proj)]):
                            return True
                return False
            edges, sites = helper_pass_edges(view, validator_rx, same_value)
            ok = bool(edges) and not cut_path_exists(view, edges, s.block, sb)
            ctx.ob(rule, key, ok,
                   ("validator %s on the stored value guards every path from %r to the save" % (label, s)) if ok else
                   ("new value %r reaches %s.save (bb%d) without passing %s on that value" % (s, item_suffix.split("::")[-1], sb, label)),
                   view.where(s.block))
    return n


def inline_store(ctx, rule, view, item_suffix, field, spec_thresholds, expected, what):
    """Same as validated_store, for validators written inline as comparisons."""
    saves = saves_of(view, item_suffix)
    if not saves:
        ctx.missing(rule, "%s.save in %s" % (item_suffix, view.path))
        return
    for sb, t in saves:
        srcs = [s for s in field_sources(view, t["args"][2], field, view.at_term(sb)) if s.kind != "load"]
        if not srcs:
            ctx.ob(rule, "%s|%s|no-new-source" % (view.path, ".".join(field)), True, "field only re-saved from storage", view.where(sb), nontrivial=False)
        for s in srcs:
            if s.block is None or s.operand is None:
                ctx.ob(rule, "%s|%s|source" % (view.path, ".".join(field)), False, "unrecognised source %r" % (s,), view.where(sb), kind="unrecognised")
                continue
            so = view.origins_of_operand(s.operand, at=(s.block, s.idx))

            def is_x(os_, so=so):
                return bool(os_) and bool(set(os_) & set(so))
            table_check(ctx, rule, "%s|%s|%s" % (view.path, ".".join(field), s.kind), view, is_x, spec_thresholds, expected,
                        [sb], from_block=s.block, what=what)


def check_fee_validators(ctx, model, tag):
    # Fee::is_valid
    p = "white_whale_std::fee::Fee::is_valid"
    if not model.has(p):
        ctx.missing("C18-validator", p)
    else:
        v = model.view(p)
        ctx.fn_seen.add(p)
        table_check(ctx, "C18-validator", "%s|%s" % (p, tag), v, origin_pred_param_field(1, ("share",)), [ONE],
                    lambda x: x < 1, ok_blocks(v), what="fee share")
    for p, parts in [("white_whale_std::pool_network::pair::PoolFee::is_valid", ("protocol_fee", "swap_fee", "burn_fee")),
                     ("white_whale_std::pool_network::trio::PoolFee::is_valid", ("protocol_fee", "swap_fee", "burn_fee")),
                     ("white_whale_std::fee::VaultFee::is_valid", ("protocol_fee", "flash_loan_fee", "burn_fee"))]:
        if not model.has(p):
            ctx.missing("C18-validator", p)
            continue
        v = model.view(p)
        ctx.fn_seen.add(p)
        oks = ok_blocks(v)
        for part in parts:
            edges, sites = helper_pass_edges(v, r"^white_whale_std::fee::Fee::is_valid$",
                                             lambda a0, part=part: bool(a0) and all(o.kind == "param" and o.a == 1 and tuple(o.proj) == (part,) for o in a0))
            ok = bool(edges) and all(v.edge_dominated(b, edges) for b in oks) and bool(oks)
            ctx.ob("C18-validator", "%s|%s|each-fee|%s" % (p, tag, part), ok,
                   "Fee::is_valid(self.%s)? %s every Ok return" % (part, "dominates" if ok else "does NOT dominate"), v.where())
        # the sum
        def is_sum(os_, v=v, parts=parts, model=model):
            # X = value whose (tainted) provenance includes all three shares
            return False
        tracked = {}
        for b, c, _ in switch_conds(v):
            if c.kind != "cmp":
                continue
            at = v.at_term(c.site[1]) if c.site[0] == "c" else (c.site[1], c.site[2])
            for side, other, orient in ((c.a, c.b, "fwd"), (c.b, c.a, "rev")):
                k = const_of(v, other, at)
                if k is None:
                    continue
                deps = v.origins_of_operand(side, at=at, taint=True)
                # follow one helper level (aggregate())
                shares = set()
                for o in deps:
                    if o.kind == "param" and o.a == 1 and len(o.proj) == 2 and o.proj[1] == "share":
                        shares.add(o.proj[0])
                    if o.kind == "param" and o.a == 1 and not o.proj:
                        # whole self passed to a helper: look into the helper's return taint
                        for o2 in deps:
                            if o2.kind == "call":
                                _, hb, ht = site_term(model, o2)
                                from ..facts import term_callee
                                cal = term_callee(ht)
                                if cal in model.fnsrc:
                                    hv = model.view(cal)
                                    for o3 in hv.origins_of_place({"l": 0, "p": []}, taint=True):
                                        if o3.kind == "param" and o3.a == 1 and len(o3.proj) == 2 and o3.proj[1] == "share":
                                            shares.add(o3.proj[0])
                if shares:
                    tracked[b] = (c, orient, k, shares)
        if not tracked:
            ctx.ob("C18-validator", "%s|%s|sum" % (p, tag), False, "no comparison of the fee sum with a constant found", v.where())
            continue
        allshares = set().union(*[t[3] for t in tracked.values()])
        ctx.ob("C18-validator", "%s|%s|sum-covers-all" % (p, tag), set(parts) <= allshares,
               "sum compared depends on shares %s (required %s)" % (sorted(allshares), list(parts)), v.where(min(tracked)))
        tr = {b: (t[0], t[1], t[2]) for b, t in tracked.items()}
        bad = []
        rows = []
        ths = {ONE} | {t[2] for t in tracked.values()}
        for x in single_var_regions(ths):
            acc = bool(single_var_walk(v, tr, x) & set(oks))
            rows.append("%s:%s" % (x, "accept" if acc else "reject"))
            if acc != (x < 1):
                bad.append("sum=%s: code %s" % (x, "accepts" if acc else "rejects"))
        ctx.ob("C18-validator", "%s|%s|sum-bound" % (p, tag), not bad,
               ("MISMATCH " + "; ".join(bad) + " | " if bad else "") + "regions %s (documented: accept iff sum < 1)" % rows, v.where(min(tracked)))


def run(ctx):
    model = ctx.model()
    # the value update_config stores as initial_amp is compute_amp_factor(): it stays between the ramp's endpoints only if
    # the interpolation adds on the way up and subtracts on the way down (C04-A4's operator-tree rule)
    from .C04 import check_interpolation_wiring
    check_interpolation_wiring(ctx.renamed({"C04-A4": "C18-amp"}), model)
    check_fee_validators(ctx, model, "workspace")
    n_store = 0
    # ---- pool fees -------------------------------------------------------------------
    for crate, vrx in [("terraswap_pair", r"^white_whale_std::pool_network::pair::PoolFee::is_valid$"),
                       ("stableswap_3pool", r"^white_whale_std::pool_network::trio::PoolFee::is_valid$")]:
        for fn in ["%s::contract::instantiate" % crate, "%s::commands::update_config" % crate]:
            v = ctx.view(fn, "C18-store")
            if v is not None:
                n_store += validated_store(ctx, "C18-store", v, "%s::state::CONFIG" % crate, ("pool_fees",), vrx, "PoolFee::is_valid")
    # ---- vault fees ------------------------------------------------------------------
    for fn in ["vault::contract::instantiate", "vault::execute::update_config::update_config"]:
        v = ctx.view(fn, "C18-store")
        if v is not None:
            n_store += validated_store(ctx, "C18-store", v, "vault::state::CONFIG", ("fees",),
                                       r"^white_whale_std::fee::VaultFee::is_valid$", "VaultFee::is_valid")
            check_vault_burn_fee(ctx, model, v)
    # ---- amp at instantiate ------------------------------------------------------------
    v = ctx.view("stableswap_3pool::contract::instantiate", "C18-store")
    if v is not None:
        for field in (("initial_amp",), ("future_amp",)):
            inline_store(ctx, "C18-amp", v, "stableswap_3pool::state::CONFIG", field, [Fraction(1), Fraction(1000000)],
                         lambda x: 1 <= x <= 1000000, "amp")
    v = ctx.view("stableswap_3pool::commands::update_config", "C18-store")
    if v is not None:
        inline_store(ctx, "C18-amp", v, "stableswap_3pool::state::CONFIG", ("future_amp",), [Fraction(1), Fraction(1000000)],
                     lambda x: 1 <= x <= 1000000, "target amp of a ramp")
    # ---- distributor -----------------------------------------------------------------
    for p, is_x, ths, exp, what in [
        ("fee_distributor::helpers::validate_grace_period", origin_pred_param_field(1, ()), [Fraction(1), Fraction(30)],
         lambda x: 1 <= x <= 30, "grace period"),
        ("fee_distributor::helpers::validate_epoch_config", origin_pred_param_field(1, ("duration",)),
         [Fraction(86400 * 10**9)], lambda x: x >= 86400 * 10**9, "epoch duration"),
        ("whale_lair::helpers::validate_growth_rate", origin_pred_param_field(1, ()), [ONE], lambda x: x <= 1, "growth rate"),
    ]:
        v = ctx.view(p, "C18-validator")
        if v is not None:
            table_check(ctx, "C18-validator", p, v, is_x, ths, exp, ok_blocks(v), what=what)
    for fn in ["fee_distributor::contract::instantiate", "fee_distributor::commands::update_config"]:
        v = ctx.view(fn, "C18-store")
        if v is not None:
            n_store += validated_store(ctx, "C18-store", v, "fee_distributor::state::CONFIG", ("grace_period",),
                                       r"^fee_distributor::helpers::validate_grace_period$", "validate_grace_period")
            n_store += validated_store(ctx, "C18-store", v, "fee_distributor::state::CONFIG", ("epoch_config",),
                                       r"^fee_distributor::helpers::validate_epoch_config$", "validate_epoch_config")
    v = ctx.view("fee_distributor::commands::update_config", "C18-grace")
    if v is not None:
        check_grace_monotone(ctx, v)
    # ---- whale lair --------------------------------------------------------------------
    for fn in ["whale_lair::contract::instantiate", "whale_lair::commands::update_config"]:
        v = ctx.view(fn, "C18-store")
        if v is not None:
            n_store += validated_store(ctx, "C18-store", v, "whale_lair::state::CONFIG", ("growth_rate",),
                                       r"^whale_lair::helpers::validate_growth_rate$", "validate_growth_rate")
    v = ctx.view("whale_lair::contract::instantiate", "C18-bonding")
    if v is not None:
        check_bonding_assets(ctx, model, v)
    v = ctx.view("whale_lair::commands::update_config", "C18-bonding")
    if v is not None:
        for sb, t in saves_of(v, "whale_lair::state::CONFIG"):
            srcs = [s for s in field_sources(v, t["args"][2], ("bonding_assets",), v.at_term(sb)) if s.kind != "load"]
            ctx.ob("C18-bonding", "whale_lair::commands::update_config|bonding_assets|no-writer", not srcs,
                   "bonding_assets sources in update_config: %s (must only be re-saved from storage)" % srcs, v.where(sb))
    # ---- collector take rate -----------------------------------------------------------
    v = ctx.view("fee_collector::commands::update_config", "C18-take-rate")
    if v is not None:
        inline_store(ctx, "C18-take-rate", v, "fee_collector::state::CONFIG", ("take_rate",), [ONE], lambda x: x < 1, "take rate")
    v = ctx.view("fee_collector::contract::instantiate", "C18-take-rate")
    if v is not None:
        for sb, t in saves_of(v, "fee_collector::state::CONFIG"):
            for s in field_sources(v, t["args"][2], ("take_rate",), v.at_term(sb)):
                k = None
                if s.operand is not None:
                    k = const_of(v, s.operand, (s.block, s.idx))
                ctx.ob("C18-take-rate", "fee_collector::contract::instantiate|take_rate|initial", k is not None and k < 1,
                       "initial take rate source %r = %s (must be a constant below 1)" % (s, k), v.where(sb))
    ctx.floor("C18-store", "validate-before-store obligations", n_store, 12)
    # other writers of CONFIG fields anywhere else in these crates (who-may-write)
    check_config_writers(ctx, model)
    check_no_save_before_rejection(ctx, model)


def run_thorough(ctx):
    # the registry copy of white-whale-std is what the contracts link
    m = ctx.model("default", registry_std=True)
    check_fee_validators(ctx, m, "registry")


def check_grace_monotone(ctx, v):
    """update_config: reject iff new grace_period < stored grace_period."""
    def classify(c):
        at = v.at_term(c.site[1]) if c.site[0] == "c" else (c.site[1], c.site[2])
        oa = v.origins_of_operand(c.a, at=at)
        ob = v.origins_of_operand(c.b, at=at)
        new = lambda os_: bool(os_) and all(o.kind == "param" for o in os_)
        old = lambda os_: bool(os_) and all(o.kind == "load" and o.a.endswith("::state::CONFIG") and tuple(o.proj) == ("grace_period",) for o in os_)
        if new(oa) and old(ob):
            return ("grace", "fwd")
        if new(ob) and old(oa):
            return ("grace", "rev")
        return None
    saves = saves_of(v, "fee_distributor::state::CONFIG")
    assigns = []
    for sb, t in saves:
        for s in field_sources(v, t["args"][2], ("grace_period",), v.at_term(sb)):
            if s.kind == "assign":
                assigns.append(s.block)
    table, n = truth_table(v, classify, set(assigns))
    if not n or not assigns:
        ctx.ob("C18-grace", "fee_distributor::commands::update_config|never-decreases", False,
               "no comparison between the new and the stored grace period found", v.where())
        return
    got = {dict(k)["grace"]: acc for k, acc in table.items()}
    exp = {"<": False, "=": True, ">": True}
    ctx.ob("C18-grace", "fee_distributor::commands::update_config|never-decreases", got == exp,
           "new vs stored grace period: assignment reachable in regions %s; documented %s" % (got, exp), v.where())


def check_bonding_assets(ctx, model, v):
    """instantiate: reject iff len(bonding_assets) > 2; every element native."""
    def is_len(os_):
        # `v.len()` on the vector, or the length of the slice it was passed as (`fn check(assets: &[AssetInfo])`)
        return bool(os_) and all((o.kind == "call" and o.a in ("std::vec::Vec::len", "std::slice::len")) or
                                 (o.kind == "arith" and o.a == "PtrMetadata") for o in os_)
    saves = saves_of(v, "whale_lair::state::CONFIG")
    table_check(ctx, "C18-bonding", "whale_lair::contract::instantiate|bonding_assets|limit", v, is_len, [Fraction(2)],
                lambda x: x <= 2, [b for b, _ in saves], what="number of bonding assets")
    # every element native: a switch on AssetInfo discriminant inside a loop over msg.bonding_assets whose Token
    # edge cannot reach the save
    found = False
    for b, c, edges in switch_conds(v):
        if c.kind == "discr" and (c.enum or "").endswith("pool_network::asset::AssetInfo"):
            inv = {name: val for val, name in c.variants.items()}
            tok = inv.get("Token")
            t = v.blocks[b]["t"]
            tok_targets = [tgt for val, tgt in t["targets"] if val == tok]
            if not tok_targets:
                tok_targets = [t["otherwise"]]
            others = [(b, tgt) for val, tgt in v.edges_from(b) if tgt not in tok_targets]
            reach = set()
            for tt in tok_targets:
                reach |= v.reachable(tt, cut_edges=others)
            ok = not any(sb in reach for sb, _ in saves)
            found = True
            ctx.ob("C18-bonding", "whale_lair::contract::instantiate|bonding_assets|native-only", ok,
                   "a Token element %s reach CONFIG.save" % ("cannot" if ok else "CAN"), v.where(b))
    if not found:
        # the same rejection as a predicate: `if assets.iter().any(|a| matches!(a, Token{..})) { return Err }` (or all(native))
        for b, c, edges in switch_conds(v):
            if c.kind != "call" or not re.search(r"as std::iter::Iterator>::(any|all)$", c.callee) or len(c.term["args"]) != 2:
                continue
            which = "any" if c.callee.endswith("::any") else "all"
            for o in v.origins_of_operand(c.term["args"][1], at=v.at_term(c.block)):
                if o.kind != "closure" or o.a not in model.fnsrc:
                    continue
                cv = model.view(o.a)
                for cb_, cc, _e in switch_conds(cv):
                    if cc.kind != "discr" or not (cc.enum or "").endswith("pool_network::asset::AssetInfo"):
                        continue
                    inv = {name: val for val, name in cc.variants.items()}
                    t = cv.blocks[cb_]["t"]
                    tok_t = [tgt for val, tgt in t["targets"] if val == inv.get("Token")] or [t["otherwise"]]
                    oth = [(cb_, tgt) for val, tgt in cv.edges_from(cb_) if tgt not in tok_t]
                    reach = set()
                    for tt in tok_t:
                        reach |= cv.reachable(tt, cut_edges=oth)
                    vals = {str(s_["rv"]["op"].get("val")) for bb_, i_, s_ in cv.iter_stmts()
                            if bb_ in reach and s_["lhs"]["l"] == 0 and s_["rv"]["r"] == "use" and s_["rv"]["op"]["k"] == "const"}
                    token_gives = None if len(vals) != 1 else (next(iter(vals)) in ("1", "true"))
                    if token_gives is None:
                        continue
                    # any(is token) true, or all(is native) false, means a Token element exists: that edge must not reach the save
                    te, fe = cmp_true_false_edges(v, b, c)
                    if which == "any" and token_gives:
                        bad_edges = te
                    elif which == "all" and not token_gives:
                        bad_edges = fe
                    else:
                        continue
                    reach2 = set()
                    for (_, tgt) in bad_edges:
                        reach2 |= v.reachable(tgt)
                    ok = bool(bad_edges) and not any(sb in reach2 for sb, _ in saves)
                    found = True
                    ctx.ob("C18-bonding", "whale_lair::contract::instantiate|bonding_assets|native-only", ok,
                           "a Token element %s reach CONFIG.save" % ("cannot" if ok else "CAN"), v.where(b))
    if not found:
        ctx.ob("C18-bonding", "whale_lair::contract::instantiate|bonding_assets|native-only", False,
               "no test of the bonding assets' kind found", v.where())


def check_vault_burn_fee(ctx, model, v):
    """`has_factory_token([X]) && burn_fee.share > 0 -> Err` with X the vault asset (asset_info), at
    instantiate and update_config alike."""
    sites = []
    for b, c, _ in switch_conds(v):
        if c.kind == "call" and c.callee == "white_whale_std::pool_network::asset::has_factory_token":
            os_ = v.origins_of_operand(c.term["args"][0], at=v.at_term(c.block))
            sites.append((b, os_))
    if not sites:
        ctx.ob("C18-vault-burn", "%s|has_factory_token" % v.path, False, "no has_factory_token test found", v.where())
        return
    for b, os_ in sites:
        ok = bool(os_) and all(o.proj and o.proj[-1] == "asset_info" for o in os_)
        ctx.ob("C18-vault-burn", "%s|has_factory_token|operand" % v.path, ok,
               "has_factory_token is applied to %s (must be the vault asset `asset_info`)" % sorted(map(repr, os_)), v.where(b))
    # ... and the test guards every new value of CONFIG.fees on its way to the save: a path from the new value to the
    # save must cross `!has_factory_token(asset)` or `!(burn_fee.share > 0)` evaluated on the stored fees
    for sb, t in saves_of(v, "vault::state::CONFIG"):
        news = [s_ for s_ in field_sources(v, t["args"][2], ("fees",), v.at_term(sb)) if s_.kind != "load"]
        for s_ in news:
            if s_.block is None:
                ctx.ob("C18-vault-burn", "%s|fees|guarded" % v.path, False, "unrecognised source %r of CONFIG.fees" % (s_,), v.where(sb), kind="unrecognised")
                continue
            so = v.origins_of_operand(s_.operand, at=(s_.block, s_.idx)) if s_.operand is not None else set()
            roots = {(o.kind, o.a) for o in so}
            pass_edges = []
            for b, c, _ in switch_conds(v):
                te, fe = cmp_true_false_edges(v, b, c)
                if c.kind == "call" and c.callee == "white_whale_std::pool_network::asset::has_factory_token":
                    pass_edges += te if c.neg else fe
                elif nonzero_edges(v, b, c) is not None:
                    # `share > 0`, `!share.is_zero()`, `share != zero`: the fees pass on the edge where the burn share is zero
                    x_, at_, nz_e, z_e = nonzero_edges(v, b, c)
                    xs = v.origins_of_operand(x_, at=at_)
                    if bool(xs) and all(tuple(o.proj[-2:]) == ("burn_fee", "share") and (not roots or (o.kind, o.a) in roots) for o in xs):
                        pass_edges += z_e
                elif c.kind == "cmp" and c.op in (">", "<", "!=", "==", ">=", "<="):
                    at = cond_at(v, c)
                    oa, ob = v.origins_of_operand(c.a, at=at), v.origins_of_operand(c.b, at=at)
                    for x, y, op in ((oa, c.b, c.op), (ob, c.a, {">": "<", "<": ">", ">=": "<=", "<=": ">="}.get(c.op, c.op))):
                        is_share = bool(x) and all(tuple(o.proj[-2:]) == ("burn_fee", "share") and (not roots or (o.kind, o.a) in roots) for o in x)
                        if is_share and const_of(v, y, at) == 0:
                            # share > 0 -> pass on false; share == 0 / share <= 0 -> pass on true; share != 0 like > 0
                            if op in (">", "!="):
                                pass_edges += fe
                            elif op in ("==", "<="):
                                pass_edges += te
            ok = bool(pass_edges) and not cut_path_exists(v, pass_edges, s_.block, sb)
            ctx.ob("C18-vault-burn", "%s|fees|guarded" % v.path, ok,
                   "new fees %r %s reach CONFIG.save without passing `not a token-factory asset` or `burn share == 0`" % (s_, "cannot" if ok else "CAN"), v.where(s_.block))


def check_config_writers(ctx, model):
    """Only the listed functions may write the CONFIG items that hold bounded parameters."""
    allowed = {
        "terraswap_pair::state::CONFIG": {"terraswap_pair::contract::instantiate", "terraswap_pair::commands::update_config"},
        "stableswap_3pool::state::CONFIG": {"stableswap_3pool::contract::instantiate", "stableswap_3pool::commands::update_config"},
        "vault::state::CONFIG": {"vault::contract::instantiate", "vault::execute::update_config::update_config",
                                 "vault::reply::lp_instantiate::lp_instantiate"},
        "fee_distributor::state::CONFIG": {"fee_distributor::contract::instantiate", "fee_distributor::commands::update_config"},
        "whale_lair::state::CONFIG": {"whale_lair::contract::instantiate", "whale_lair::commands::update_config"},
        "fee_collector::state::CONFIG": {"fee_collector::contract::instantiate", "fee_collector::commands::update_config"},
    }
    from ..effects import fn_effects
    n = 0
    for p in list(model.all_paths()):
        f = model.fnsrc[p]
        if f["crate"] not in {k.split("::")[0] for k in allowed}:
            continue
        for e in fn_effects(model, p):
            if e.kind == "write" and e.what in allowed:
                n += 1
                base = p.split("::{closure")[0]
                is_mig = "::migrations::" in p or p.endswith("::contract::migrate")
                ctx.ob("C18-writers", "%s|%s" % (e.what, base), base in allowed[e.what] or is_mig,
                       "%s written by %s (%s)" % (e.what, p, "listed writer" if base in allowed[e.what] else
                                                  ("migration" if is_mig else "UNLISTED writer: its stored values bypass the validators")),
                       model.view(p).where(e.block), nontrivial=not is_mig)
    ctx.floor("C18-writers", "CONFIG write sites", n, 12)


def check_no_save_before_rejection(ctx, model):
    """A rejected update changes nothing: in the handlers that validate bounded settings no CONFIG.save precedes a point where
    the handler can still reject (other than the failure of that save itself). On chain a failing execute is rolled back, but
    the entry point itself must not rely on that: the same function serves sub-messages with reply_on error handling and
    non-transactional callers."""
    handlers = [("fee_collector::commands::update_config", "fee_collector::state::CONFIG"),
                ("fee_distributor::commands::update_config", "fee_distributor::state::CONFIG"),
                ("whale_lair::commands::update_config", "whale_lair::state::CONFIG"),
                ("terraswap_pair::commands::update_config", "terraswap_pair::state::CONFIG"),
                ("stableswap_3pool::commands::update_config", "stableswap_3pool::state::CONFIG"),
                ("vault::execute::update_config::update_config", "vault::state::CONFIG")]
    for p, item in handlers:
        v = ctx.view(p, "C18-store")
        if v is None:
            continue
        saves = saves_of(v, item)
        err_blocks = set()
        for b in v.live_blocks():
            bb = v.blocks[b]
            for s_ in bb["s"]:
                if s_["lhs"]["l"] == 0 and not s_["lhs"]["p"] and s_["rv"]["r"] == "agg" and s_["rv"].get("variant") == "Err":
                    err_blocks.add(b)
            t = bb["t"]
            if t["k"] == "call" and mname(t).endswith("::from_residual") and t["dest"]["l"] == 0:
                err_blocks.add(b)
        bad = []
        for sb, t in saves:
            own = []
            for b in sorted(v.live_blocks()):
                te = try_edges(v, b)
                if not te:
                    continue
                cont, brk, bblock, inner = te
                if any(o.kind == "call" and o.b == "%s:bb%d" % (v.path, sb) for o in v.origins_of_operand(inner, at=v.at_term(bblock))):
                    own += brk
            later = (v.reachable(sb, cut_edges=own) - {sb}) & err_blocks
            if later:
                bad.append("after the save at line %s the handler can still reject (lines %s)" % (v.line_of_block(sb), sorted({v.line_of_block(b) for b in later})[:4]))
        ctx.ob("C18-store", "%s|no-rejection-after-the-config-was-written" % p, bool(saves) and not bad,
               "; ".join(bad) if bad else "%d CONFIG.save site(s), no rejection reachable afterwards" % len(saves), v.where(saves[0][0]) if saves else v.where())
