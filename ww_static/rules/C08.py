"""C08 -- bonding: every bonded token is bonded, unbonding, or back with its owner."""
import re
from fractions import Fraction
from ..facts import mname, term_callee
from ..mir import switch_conds, cmp_true_false_edges, storage_call
from ..dataflow import (field_sources, two_var_table, call_of, call_shape, cond_at, forward_flow, const_of,
                        variant_excluded_edges)
from ..guards import HelperGuard, site_guarded
from ..effects import dispatch_table, arm_blocks
from .common import storage_calls, arg_origins, ok_value_blocks, must_pass_through, membership_test, nonzero_edges

EXPLANATION = """
B1: in `bond` the success edge of validate_funds(..)? dominates BOND.save and GLOBAL.save; inside validate_funds each of
the five rejection atoms (number of coins != 1, zero amount, amount != declared, denom != declared, denom not
whitelisted) is located by operand provenance and its rejecting edge cannot reach the Ok return; cw20 assets are
rejected in bond and unbond. B2: the same declared amount feeds the user's bond, the global bonded amount and the
global asset list (checked_add / aggregate_assets in bond; checked_sub / deduct_assets and the UNBOND record in
unbond); unbond's UNBOND.save is reachable exactly when bonded >= amount. B3: UNBOND is keyed by block time, which
is not unique per call, so a save at such a key must merge: the saved amount must depend on a may_load/load of
UNBOND (or the write is an update). B4: in `withdraw` the refund accumulation and UNBOND.remove are executed
together, only for records with now - period >= record time (ordering-domain walk), the BankMsg::Send carries the
accumulated amount to the same address that prefixes the UNBOND keys, and that address is the caller
(execute passes info.sender). B2 also covers the two weight helpers: they return and save the record they were
given. B5: the Unbonding query's start_after cursor is an exclusive lower bound.
"""
ASSUMPTIONS = [
    "asset::aggregate_assets / deduct_assets add / subtract per-asset amounts (white-whale-std helpers, not re-verified here)",
    "contract balance = bonded + unbonding over histories is the inductive consequence of B1-B4, not a tool result",
]

BOND = "whale_lair::commands::bond"
UNBOND = "whale_lair::commands::unbond"
WITHDRAW = "whale_lair::commands::withdraw"
VF = "whale_lair::helpers::validate_funds"


def param_idx(v, ty_suffix):
    for i in range(1, v.argc + 1):
        if v.local_ty(i).replace("&", "").replace("mut ", "").strip().endswith(ty_suffix):
            return i
    return None


def noidx(proj):
    """Projection without index elements (`funds[0].amount`, `funds.first().amount` and `[fund] = funds` all read funds.amount)."""
    return tuple(x for x in proj if not (isinstance(x, str) and x.startswith("[")))


def is_param_field(pidx, *proj):
    return lambda os_: bool(os_) and all(o.kind == "param" and o.a == pidx and tuple(o.proj) == tuple(proj) for o in os_)


def check_validate_funds(ctx, model):
    v = ctx.view(VF, "C08-B1")
    if v is None:
        return
    oks = ok_value_blocks(v)
    info = param_idx(v, "cosmwasm_std::MessageInfo")
    asset = param_idx(v, "pool_network::asset::Asset")
    atoms = {"one-coin": None, "non-zero": None, "amount-equal": None, "denom-equal": None, "whitelisted": None}
    for b, c, _ in switch_conds(v):
        te, fe = cmp_true_false_edges(v, b, c) if c.kind in ("cmp", "call", "place") else ([], [])
        nz = nonzero_edges(v, b, c)
        if nz is not None and c.kind == "cmp":
            ox = v.origins_of_operand(nz[0], at=nz[1])
            if ox and all(o.kind == "param" and o.a == info and noidx(o.proj) == ("funds", "amount") for o in ox):
                atoms["non-zero"] = (b, nz[3])
                continue
        if c.kind == "cmp":
            at = cond_at(v, c)
            oa = v.origins_of_operand(c.a, at=at)
            ob = v.origins_of_operand(c.b, at=at)
            ka, kb = const_of(v, c.a, at), const_of(v, c.b, at)
            # the number of coins sent: `funds.len()` or the length a slice pattern `let [fund] = funds.as_slice()` tests
            def funds_len(os_, op):
                if not os_ or not all((o.kind == "call" and o.a in ("std::vec::Vec::len", "std::slice::len")) or
                                      (o.kind == "arith" and o.a == "PtrMetadata") for o in os_):
                    return False
                return any(x.kind == "param" and x.a == info and noidx(x.proj)[:1] == ("funds",) for x in v.origins_of_operand(op, at=at, taint=True))
            f_amt = lambda os_: bool(os_) and all(o.kind == "param" and o.a == info and noidx(o.proj) == ("funds", "amount") for o in os_)
            f_den = lambda os_: bool(os_) and all(o.kind == "param" and o.a == info and noidx(o.proj) == ("funds", "denom") for o in os_)
            d_amt = lambda os_: bool(os_) and all(o.kind == "param" and o.a == asset and tuple(o.proj) == ("amount",) for o in os_)
            d_den = lambda os_: bool(os_) and all(o.kind == "param" and "String" in v.local_ty(o.a) and not o.proj for o in os_)
            if c.op in ("!=", "==") and ((funds_len(oa, c.a) and kb == 1) or (funds_len(ob, c.b) and ka == 1)):
                atoms["one-coin"] = (b, te if c.op == "!=" else fe)
            elif c.op in ("!=", "==") and ((f_amt(oa) and d_amt(ob)) or (f_amt(ob) and d_amt(oa))):
                atoms["amount-equal"] = (b, te if c.op == "!=" else fe)
            elif c.op in ("!=", "==") and ((f_den(oa) and d_den(ob)) or (f_den(ob) and d_den(oa))):
                atoms["denom-equal"] = (b, te if c.op == "!=" else fe)
        elif c.kind == "call":
            a0 = v.origins_of_operand(c.term["args"][0], at=v.at_term(c.block)) if c.term["args"] else set()
            if c.callee.endswith("Uint128::is_zero") and a0 and all(o.kind == "param" and o.a == info and noidx(o.proj) == ("funds", "amount") for o in a0):
                atoms["non-zero"] = (b, fe if c.neg else te)
            elif c.callee.endswith("Uint128::is_zero"):
                pass
            else:
                mt = membership_test(model, v, c)
                if mt and mt[0] and all(o.kind == "load" and tuple(o.proj) == ("bonding_assets",) for o in mt[0]):
                    # the edge on which the denom is NOT among the whitelisted ones rejects
                    member_true = mt[1] != bool(c.neg)
                    atoms["whitelisted"] = (b, fe if member_true else te)
    # the whitelist: written as `any(..)`, as its De Morgan dual, or as a search loop that returns Ok on the first match --
    # in every form a successful return lies behind "some whitelisted denom equals the declared denom"
    wl_pass = []
    for b, c, _ in switch_conds(v):
        te, fe = cmp_true_false_edges(v, b, c) if c.kind in ("cmp", "call", "place") else ([], [])
        mt = membership_test(model, v, c)
        if mt and mt[0] and all(o.kind == "load" and tuple(o.proj) == ("bonding_assets",) for o in mt[0]):
            wl_pass += te if (mt[1] != bool(c.neg)) else fe
        elif c.kind == "cmp" and c.op in ("==", "!="):
            at = cond_at(v, c)
            oa, ob = v.origins_of_operand(c.a, at=at), v.origins_of_operand(c.b, at=at)
            wl = lambda os_: bool(os_) and any(o.kind == "load" and "bonding_assets" in o.proj and "denom" in o.proj for o in os_) and all(
                (o.kind == "load" and "bonding_assets" in o.proj) or (o.kind == "call" and o.a.endswith("String::new")) or (o.kind == "const" and str(o.a) in ("", "''")) for o in os_)
            dd = lambda os_: bool(os_) and all(o.kind == "param" and "String" in v.local_ty(o.a) and not o.proj for o in os_)
            if (wl(oa) and dd(ob)) or (wl(ob) and dd(oa)):
                wl_pass += te if c.op == "==" else fe
    # a flag set in the search loop and tested afterwards (`let mut found = false; .. found = true; break; .. if !found`)
    if wl_pass:
        for b, c, _ in switch_conds(v):
            if c.kind not in ("place", "const") or getattr(c, "pl", None) is None or c.pl["p"]:
                continue
            ds = v.defs().get(c.pl["l"], [])
            if not ds or not all(d[0] == "s" and d[3]["rv"]["r"] == "use" and d[3]["rv"]["op"]["k"] == "const" for d in ds):
                continue
            trues = [d for d in ds if str(d[3]["rv"]["op"].get("val")) in ("1", "true")]
            if trues and len(trues) < len(ds) and all(v.edge_dominated(d[1], wl_pass) for d in trues):
                t_ = v.blocks[b]["t"]
                false_t = [tgt for val, tgt in t_["targets"] if str(val) == "0"]
                wl_pass = wl_pass + [(b, tgt) for (_, tgt) in v.edges_from(b) if tgt not in false_t]
    if atoms["whitelisted"] is None and wl_pass and oks:
        okw = all(v.edge_dominated(ob_, wl_pass) for ob_ in oks)
        ctx.ob("C08-B1", "%s|atom|whitelisted" % VF, okw,
               "every successful return lies behind `a whitelisted denom == the declared denom`: %s" % okw, v.where())
        atoms.pop("whitelisted")
    for name, val in sorted(atoms.items()):
        if val is None:
            ctx.ob("C08-B1", "%s|atom|%s" % (VF, name), False, "rejection atom '%s' not found in validate_funds" % name, v.where())
            continue
        b, bad_edges = val
        reach = set()
        for (src, tgt) in bad_edges:
            reach |= v.reachable(tgt)
        ok = bool(bad_edges) and not (reach & set(oks))
        ctx.ob("C08-B1", "%s|atom|%s" % (VF, name), ok,
               "rejecting edge of '%s' (bb%d) %s reach the Ok return" % (name, b, "cannot" if ok else "CAN"), v.where(b))
    # whitelist closure compares the whitelisted denom with the declared denom
    for q in model.closures_of(VF):
        cv = model.view(q)
        eqs = [t for b, t in cv.iter_calls() if re.search(r"<std::string::String as std::cmp::PartialEq>::(eq|ne)$", mname(t))]
        ctx.ob("C08-B1", "%s|whitelist-closure-compares-denoms" % VF, bool(eqs), "string comparisons in %s: %d" % (q, len(eqs)), cv.where())


def check_bond(ctx, model):
    v = ctx.view(BOND, "C08-B1")
    if v is None:
        return
    asset = param_idx(v, "pool_network::asset::Asset")
    spec = HelperGuard("validate_funds(..)?", r"^whale_lair::helpers::validate_funds$")
    for item in ("whale_lair::state::BOND", "whale_lair::state::GLOBAL"):
        saves = storage_calls(v, item, ("save",))
        if not saves:
            ctx.missing("C08-B1", "%s.save in bond" % item)
        for sb, st in saves:
            ok, why = site_guarded(model, (), BOND, sb, spec)
            ctx.ob("C08-B1", "%s|validated|%s" % (BOND, item.split("::")[-1]), ok,
                   why or "%s.save reachable without validate_funds succeeding" % item.split("::")[-1], v.where(sb))
    # validate_funds is applied to (info, asset, denom of asset)
    for b, t in v.calls_to(r"^whale_lair::helpers::validate_funds$"):
        a2 = arg_origins(v, b, t, 2)
        ctx.ob("C08-B1", "%s|validate_funds-args" % BOND, bool(a2) and all(o.kind == "param" and o.a == asset and not o.proj for o in a2),
               "validate_funds is applied to %s (must be the declared asset)" % sorted(map(repr, a2)), v.where(b))
    check_token_rejected(ctx, v, BOND, asset)
    # B2 pairing
    amt = is_param_field(asset, "amount")
    for item, field, vidx in (("whale_lair::state::BOND", ("asset", "amount"), 3), ("whale_lair::state::GLOBAL", ("bonded_amount",), 2)):
        for sb, st in storage_calls(v, item, ("save",)):
            check_arith_source(ctx, v, st["args"][vidx], sb, field, r"cosmwasm_std::Uint128::checked_add$", amt,
                               "%s|pairing|%s.%s" % (BOND, item.split("::")[-1], ".".join(field)), "checked_add(previous, declared amount)")
    for sb, st in storage_calls(v, "whale_lair::state::GLOBAL", ("save",)):
        check_assets_helper(ctx, v, st["args"][2], sb, r"asset::aggregate_assets$", asset, "%s|pairing|GLOBAL.bonded_assets" % BOND)


def check_token_rejected(ctx, v, p, asset):
    """`match asset.info { Token => Err }`: with the declared asset being a cw20 token no storage write is reachable."""
    writes = [b for b, t in v.iter_calls() if storage_call(t) and storage_call(t)[1] in ("save", "update", "remove")]
    pred = lambda os_: bool(os_) and all(o.kind == "param" and o.a == asset and tuple(o.proj) == ("info",) for o in os_)
    excl = variant_excluded_edges(v, "pool_network::asset::AssetInfo", pred, "Token")
    if not excl:
        ctx.ob("C08-B1", "%s|token-rejected" % p, False, "no test of the asset kind found", v.where())
        return
    reach = v.reachable(0, cut_edges=excl)
    bad = sorted(reach & set(writes))
    ctx.ob("C08-B1", "%s|token-rejected" % p, not bad,
           "with a cw20 asset, storage writes reachable: %s" % (["bb%d" % b for b in bad] or "none"), v.where())


def check_arith_source(ctx, v, value_op, sb, field, callee_rx, arg1_pred, key, want):
    srcs = [s for s in field_sources(v, value_op, field, v.at_term(sb)) if s.kind in ("assign", "agg", "partial")]
    if not srcs:
        ctx.ob("C08-B2", key, False, "no assignment to %s found before the save" % ".".join(field), v.where(sb))
        return
    det = []
    ok = True
    for s in srcs:
        os_ = v.origins_of_operand(s.operand, at=(s.block, s.idx)) if s.operand else set()
        good = bool(os_)
        for o in os_:
            c = call_of(v, o)
            if not c or not re.search(callee_rx, mname(c[1])):
                good = False
                continue
            a1 = v.origins_of_operand(c[1]["args"][1], at=v.at_term(c[0]))
            if not arg1_pred(a1):
                good = False
        det.append("%r <- %s [%s]" % (s, sorted(map(repr, os_)), "ok" if good else "BAD"))
        ok = ok and good
    ctx.ob("C08-B2", key, ok, "%s sources: %s (must be %s)" % (".".join(field), det, want), v.where(sb))


def check_assets_helper(ctx, v, value_op, sb, callee_rx, asset, key):
    from ..effects import expand_passthrough
    start = v.origins_of_operand(value_op, proj=("bonded_assets",), at=v.at_term(sb))
    ok = bool(start)
    seen = []
    work = list(start)
    steps = 0
    while work and steps < 20:
        steps += 1
        o = work.pop()
        c = call_of(v, o)
        if c and re.search(callee_rx, mname(c[1])):
            # the list handed to the helper holds the declared asset itself and nothing else (the user's stored bond,
            # for instance, is derived from it too but is the cumulative amount)
            a1 = v.origins_of_operand(c[1]["args"][1], at=v.at_term(c[0]))
            seen.append("%r(.., %s)" % (o, sorted(map(repr, a1))))
            if not (a1 and all(x.kind == "param" and x.a == asset and not [e for e in x.proj if not e.startswith("[")] for x in a1)):
                ok = False
            continue
        ex = expand_passthrough(v.model, v, {o})
        if ex == {o}:
            seen.append(repr(o))
            ok = False
            continue
        work.extend(ex)
    ctx.ob("C08-B2", key, ok, "bonded_assets from %s (must be %s(previous, [declared asset]))" % (sorted(seen), callee_rx), v.where(sb))


def check_unbond(ctx, model):
    v = ctx.view(UNBOND, "C08-B2")
    if v is None:
        return
    asset = param_idx(v, "pool_network::asset::Asset")
    amt = is_param_field(asset, "amount")
    check_token_rejected(ctx, v, UNBOND, asset)
    for item, field, vidx in (("whale_lair::state::BOND", ("asset", "amount"), 3), ("whale_lair::state::GLOBAL", ("bonded_amount",), 2)):
        for sb, st in storage_calls(v, item, ("save",)):
            check_arith_source(ctx, v, st["args"][vidx], sb, field, r"cosmwasm_std::Uint128::checked_sub$", amt,
                               "%s|pairing|%s.%s" % (UNBOND, item.split("::")[-1], ".".join(field)), "checked_sub(previous, declared amount)")
    for sb, st in storage_calls(v, "whale_lair::state::GLOBAL", ("save",)):
        check_assets_helper(ctx, v, st["args"][2], sb, r"asset::deduct_assets$", asset, "%s|pairing|GLOBAL.bonded_assets" % UNBOND)
    usaves = storage_calls(v, "whale_lair::state::UNBOND", ("save", "update"))
    if not usaves:
        ctx.missing("C08-B2", "UNBOND write in unbond")
        return
    # insufficient bond rejected: UNBOND.save reachable iff bonded >= amount
    bonded = lambda os_: bool(os_) and all(o.kind == "load" and o.a.endswith("::state::BOND") and tuple(o.proj) == ("asset", "amount") for o in os_)
    tab, n, blocks = two_var_table(v, bonded, amt, [b for b, _ in usaves])
    exp = {"<": False, "=": True, ">": True}
    ctx.ob("C08-B2", "%s|enough-bond" % UNBOND, n > 0 and tab == exp,
           "UNBOND record reachable for bonded vs amount: %s; documented %s" % (tab, exp), v.where())
    for sb, st in usaves:
        sc = storage_call(st)
        # record carries the declared asset
        rec = v.origins_of_operand(st["args"][3] if sc[1] == "save" else st["args"][2], proj=("asset", "amount"), at=v.at_term(sb), taint=True)
        ctx.ob("C08-B2", "%s|record-amount" % UNBOND, any(o.kind == "param" and o.a == asset and tuple(o.proj) == ("amount",) for o in rec),
               "UNBOND record amount derives from %s (must include the declared amount)" % sorted(map(repr, rec))[:5], v.where(sb))
        # B3 time-keyed key -> must merge
        key_os = v.origins_of_operand(st["args"][2], at=v.at_term(sb), taint=True)
        time_keyed = any(o.kind == "param" and "Timestamp" in v.local_ty(o.a) for o in key_os) or any(
            o.kind == "param" and tuple(o.proj[:2]) == ("block", "time") for o in key_os)
        if sc[1] == "update":
            merges = True
        else:
            merges = any(o.kind == "load" and o.a.endswith("::state::UNBOND") for o in rec)
        # ... and the record it merges is the one stored under the very key it saves to
        from ..dataflow import expr_shape, norm_shape
        with v.opaque(r"Timestamp::(nanos|seconds)$"):
            save_key = norm_shape(expr_shape(v, st["args"][2], v.at_term(sb), depth=3))
            load_keys = [norm_shape(expr_shape(v, lt["args"][2], v.at_term(lb), depth=3))
                         for lb, lt in storage_calls(v, "whale_lair::state::UNBOND", ("may_load", "load"))]
        if sc[1] != "update" and time_keyed:
            ctx.ob("C08-B3", "%s|merge-reads-the-key-it-writes" % UNBOND, bool(load_keys) and all(k == save_key for k in load_keys),
                   "UNBOND is read under %s and saved under %s" % (load_keys, save_key), v.where(sb))
        if sc[1] != "update" and time_keyed:
            # ... on EVERY path to the write: a path that reaches the save without having read the record already stored
            # under that key (e.g. the merge done only in the partial-unbond branch) overwrites it
            lblocks = [lb for lb, _ in storage_calls(v, "whale_lair::state::UNBOND", ("may_load", "load"))]
            ctx.ob("C08-B3", "%s|merge-on-every-path-to-the-write" % UNBOND, any(must_pass_through(v, lb, [sb]) for lb in lblocks),
                   "every path entry -> UNBOND.save passes through an UNBOND read (%d read site(s))" % len(lblocks), v.where(sb))
        ctx.ob("C08-B3", "%s|time-keyed-write-merges" % UNBOND, (not time_keyed) or merges,
               "UNBOND key depends on the block time: %s; the saved amount merges an existing record at that key: %s" % (time_keyed, merges),
               v.where(sb))


def check_withdraw(ctx, model):
    v = ctx.view(WITHDRAW, "C08-B4")
    if v is None:
        return
    # the body that releases a record: the `for` loop of the handler, or the closure of a fold over the records
    from .common import scope_views, scope_origins
    from ..guards import resolve as _resolve
    body = None
    for sv_, ch_ in scope_views(model, WITHDRAW):
        if storage_calls(sv_, "whale_lair::state::UNBOND", ("remove",)):
            body = (sv_, ch_)
            break
    if body is None:
        ctx.missing("C08-B4", "UNBOND.remove / refund accumulation in withdraw")
        return
    sv, chain = body
    res = lambda os_: _resolve(model, chain, sv, os_, elems=True)
    removes = storage_calls(sv, "whale_lair::state::UNBOND", ("remove",))
    adds = [(b, t) for b, t in sv.calls_to(r"cosmwasm_std::Uint128::checked_add$")
            if any(o.proj and noidx(o.proj)[-2:] == ("asset", "amount") for o in res(arg_origins(sv, b, t, 1)))]
    if not removes or not adds:
        ctx.missing("C08-B4", "UNBOND.remove / refund accumulation in withdraw")
        return
    for rb, rt in removes:
        for ab, at_ in adds:
            together = must_pass_through(sv, ab, [rb]) and (rb in sv.reach_strict(ab))
            # and once the add happened the remove cannot be skipped on the way to the next iteration / exit
            skip = sv.reachable(ab, cut_blocks=[rb])
            # paths from the add that avoid the remove must be error paths only (do not reach the Ok value)
            okb = set(ok_value_blocks(sv))
            ctx.ob("C08-B4", "%s|refund-and-remove-together" % WITHDRAW, together and not (skip & okb),
                   "refund += amount (bb%d) and UNBOND.remove (bb%d): remove only after add: %s; add without remove reaching success: %s"
                   % (ab, rb, together, bool(skip & okb)), sv.where(rb))
    # the record removed is the record paid: its time key is the key the range iteration yielded for it (element .0 of the
    # (key, record) pair), not something rebuilt from the record's fields in another unit
    for rb, rt in removes:
        ko = scope_origins(model, chain, sv, rt["args"][2], sv.at_term(rb), proj=("2",))
        ok_key = bool(ko) and all(o.kind in ("load", "call") and o.proj and noidx(o.proj)[-1:] == ("0",) and "timestamp" not in o.proj for o in ko)
        ctx.ob("C08-B4", "%s|removes-under-the-iterated-key" % WITHDRAW, ok_key,
               "UNBOND.remove time key from %s (must be the key yielded by the range iteration)" % sorted(map(repr, ko)), sv.where(rb))
    # maturity
    ts = param_idx(v, "cosmwasm_std::Timestamp")

    def x_in(w, wres):
        return lambda os_: call_shape(w, os_, r"^cosmwasm_std::Timestamp::minus_nanos$",
                                      [lambda a: bool(a) and all(o.kind == "param" and o.b == WITHDRAW and o.a == ts for o in wres(a)),
                                       lambda a: bool(a) and all(o.kind == "load" and tuple(o.proj) == ("unbonding_period",) for o in wres(a))])
    y = lambda os_: bool(os_) and all(o.proj and o.proj[-1] == "timestamp" for o in os_)
    tab, n, blocks = two_var_table(sv, x_in(sv, res), lambda os_: y(res(os_)), [b for b, _ in removes])
    exp = {"<": False, "=": True, ">": True}
    if n == 0:
        # the maturity test as the predicate of a `.filter(..)` in front of the fold: an element reaches the body iff the
        # closure returns true, and the closure returns the comparison
        from ..mir import resolve_bool
        from ..dataflow import cmp_truth, REGIONS, FLIP
        for fv, fch in scope_views(model, WITHDRAW):
            if fv is sv or not fch:
                continue
            fres = lambda os_, fv=fv, fch=fch: _resolve(model, fch, fv, os_, elems=True)
            for rb_ in fv.return_blocks():
                c = resolve_bool(fv, {"k": "copy", "pl": {"l": 0, "p": []}}, at=fv.at_term(rb_))
                if c.kind != "cmp" or c.b is None:
                    continue
                at = cond_at(fv, c)
                oa, ob = fv.origins_of_operand(c.a, at=at), fv.origins_of_operand(c.b, at=at)
                if x_in(fv, fres)(oa) and y(fres(ob)):
                    op = c.op
                elif x_in(fv, fres)(ob) and y(fres(oa)):
                    op = FLIP[c.op]
                else:
                    continue
                tab = {r: cmp_truth(op, r) for r in REGIONS}
                n = 1
    ctx.ob("C08-B4", "%s|maturity" % WITHDRAW, n > 0 and tab == exp,
           "record released for (now - period) vs record time: %s; documented %s" % (tab, exp), sv.where())
    # the payout
    addr = param_idx(v, "cosmwasm_std::Addr")
    sends = [(b, i, s) for b, i, s in v.iter_stmts() if s["rv"]["r"] == "agg" and s["rv"].get("adt") == "cosmwasm_std::BankMsg" and s["rv"].get("variant") == "Send"]
    if not sends:
        ctx.missing("C08-B4", "BankMsg::Send in withdraw")
    for b, i, s in sends:
        f = dict(zip(s["rv"]["fields"], s["rv"]["ops"]))
        to = v.origins_of_operand(f["to_address"], at=(b, i))
        amt = v.origins_of_operand(f["amount"], at=(b, i), taint=True)
        ok_to = bool(to) and all(o.kind == "param" and o.a == addr and not o.proj for o in to)
        ok_amt = any(o.kind == "call" and o.a.endswith("Uint128::checked_add") for o in amt) or (
            bool(chain) and any(o.kind == "call" and re.search(r"Iterator>::(try_)?fold$", o.a) for o in amt))
        tainted, sinks, ret = forward_flow(v, [s["lhs"]["l"]])
        ctx.ob("C08-B4", "%s|payout" % WITHDRAW, ok_to and ok_amt and bool(sinks),
               "refund goes to %s (must be the address parameter), amount accumulated by checked_add: %s, attached: %s"
               % (sorted(map(repr, to)), ok_amt, bool(sinks)), v.where(b))
    # key prefix and removal use the same address
    for b, t in v.calls_to(r"^cw_storage_plus::Map::prefix$"):
        k = arg_origins(v, b, t, 1, taint=True)
        ctx.ob("C08-B4", "%s|prefix-is-address" % WITHDRAW, any(o.kind == "param" and o.a == addr for o in k),
               "UNBOND records are looked up under %s" % sorted(map(repr, k))[:4], v.where(b))
    # execute passes info.sender
    ev = ctx.view("whale_lair::contract::execute", "C08-B4")
    if ev is not None:
        for b, t in ev.calls_to(r"^whale_lair::commands::withdraw$"):
            a = arg_origins(ev, b, t, 2)
            ctx.ob("C08-B4", "whale_lair::contract::execute|withdraw-for-sender", bool(a) and all(
                o.kind == "param" and "MessageInfo" in ev.local_ty(o.a) and tuple(o.proj) == ("sender",) for o in a),
                "withdraw is called for %s (must be info.sender)" % sorted(map(repr, a)), ev.where(b))


def run(ctx):
    model = ctx.model()
    check_weight_helpers_pass_through(ctx, model)
    check_global_assets_only_via_helpers(ctx, model)
    check_unbonding_cursor(ctx, model)
    check_validate_funds(ctx, model)
    check_bond(ctx, model)
    check_unbond(ctx, model)
    check_withdraw(ctx, model)


def check_global_assets_only_via_helpers(ctx, model):
    """B2 (global list): GLOBAL.bonded_assets is changed only by assigning the result of aggregate_assets / deduct_assets of
    the declared asset; no in-place Vec edit (retain / remove / clear / push ...) touches it -- e.g. dropping a denom's entry
    because ONE user's bond reached zero loses the other users' bonded amount of that denom."""
    for p in (BOND, UNBOND, WITHDRAW):
        v = ctx.view(p, "C08-B2")
        if v is None:
            continue
        bad = []
        for b, t in v.calls_to(r"^std::vec::Vec::(retain|retain_mut|remove|swap_remove|clear|truncate|pop|push|insert|drain|dedup\w*)$"):
            os_ = v.origins_of_operand(t["args"][0], at=v.at_term(b), taint=True)
            if any(o.proj and "bonded_assets" in o.proj for o in os_):
                bad.append("%s at line %s" % (mname(t).split("::")[-1], t.get("ln")))
        ctx.ob("C08-B2", "%s|global-asset-list-only-via-helpers" % p, not bad,
               "in-place edits of GLOBAL.bonded_assets: %s" % (bad or "none"), v.where())


def check_weight_helpers_pass_through(ctx, model):
    """B2 (helpers): update_local_weight / update_global_weight are handed the record the caller has just modified and
    must return -- and save -- THAT record (only weight and timestamp refreshed): every successful return value and the
    saved value originate from the record parameter, never from storage (a stored copy does not contain the caller's
    pending change of the amount)."""
    for p, item, ty in (("whale_lair::state::update_local_weight", "whale_lair::state::BOND", "whale_lair::Bond"),
                        ("whale_lair::state::update_global_weight", "whale_lair::state::GLOBAL", "whale_lair::GlobalIndex")):
        v = ctx.view(p, "C08-B2")
        if v is None:
            continue
        rec = param_idx(v, ty)
        if rec is None:
            ctx.missing("C08-B2", "record parameter (%s) of %s" % (ty, p))
            continue
        ret = [o for o in v.origins_of_place({"l": 0, "p": []}) if o.kind != "err"]
        good = lambda os_: any(o.kind == "param" and o.a == rec and not o.proj for o in os_) and not any(o.kind == "load" for o in os_)
        ok_ret = good(ret)
        saves = storage_calls(v, item, ("save",))
        ok_save = bool(saves)
        sv = []
        for b, t in saves:
            so = v.origins_of_operand(t["args"][-1], at=v.at_term(b))
            sv.append(sorted(map(repr, so)))
            ok_save = ok_save and good(so)
        ctx.ob("C08-B2", "%s|returns-and-saves-the-record-it-was-given" % p, ok_ret and ok_save,
               "returns %s, saves %s (both must be the record parameter with refreshed fields, nothing loaded from storage)" % (sorted(map(repr, ret)), sv), v.where())


def check_unbonding_cursor(ctx, model):
    """B5: pending unbondings are reported through a paginated query; a record used as `start_after` must not be
    returned again (it would be counted twice): the lower bound built from the cursor is exclusive (Bound::exclusive, or
    Bound::ExclusiveRaw of the cursor's successor formed by appending one zero byte), never inclusive."""
    from ..dataflow import const_of
    p = "whale_lair::queries::query_unbonding"
    v = ctx.view(p, "C08-B5")
    if v is None:
        return
    names = [c for _, c, _ in model.callees(p)]
    for q in model.closures_of(p):
        names += [c for _, c, _ in model.callees(q)]
    excl = [c for c in names if re.search(r"Bound(<.*>)?::(ExclusiveRaw|exclusive)$", re.sub(r"::<[^>]*>", "", c))]
    incl = [c for c in names if re.search(r"Bound(<.*>)?::(InclusiveRaw|inclusive|Inclusive)$", re.sub(r"::<[^>]*>", "", c))]
    for b, i, s_ in v.iter_stmts():
        if s_["rv"]["r"] == "agg" and s_["rv"].get("adt", "").endswith("Bound"):
            (excl if "Exclusive" in s_["rv"].get("variant", "") else incl).append(s_["rv"]["variant"])
    ok = bool(excl) and not incl
    det = "exclusive constructors: %s; inclusive constructors: %s" % (sorted(set(excl)), sorted(set(incl)))
    raw = [c for c in excl if "ExclusiveRaw" in c]
    if ok and raw:
        # raw cursor: its successor is cursor || k with a constant k; keys are fixed-width big-endian u64, so any single
        # appended byte sorts after the cursor and before the next key -- but it must be appended (not replace the cursor)
        helpers = [c for c in names if c in model.fnsrc and c != p and "calc_range" in c]
        okh = False
        for hname in helpers:
            for q in model.closures_of(hname):
                cv = model.view(q)
                pushes = cv.calls_to(r"^std::vec::Vec::push$")
                ks = [const_of(cv, t["args"][1], cv.at_term(b)) for b, t in pushes]
                okh = okh or (len(pushes) == 1 and ks[0] is not None)
                det += "; successor appends %s" % [str(k) for k in ks]
        ok = ok and okh
    ctx.ob("C08-B5", "%s|cursor-is-exclusive" % p, ok, det, v.where())
