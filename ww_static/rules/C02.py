"""C02 -- constant-product swap: exact price, exact fee split, no free money (structural part)."""
import re
from ..facts import mname, term_callee
from ..mir import switch_conds
from ..dataflow import call_of, variant_excluded_edges
from .common import arg_origins, ok_value_blocks

EXPLANATION = """
T1 (totality): the constant-product arm of terraswap_pair::helpers::compute_swap is isolated by deciding the switch on
the pair type; every operation in it that can abort (panicking arithmetic operators of Uint256/Decimal256,
Decimal256::from_ratio, unwrap/expect, MIR overflow assertions) is enumerated and must match a discharge pattern --
a pattern is (operation, provenance of its operands, one-line arithmetic reason confirmed by reading). An abort site
that matches no pattern is a violation (this is how the `offer*exchange_rate - return_amount` underflow was
found). T2 (fee split): the three fees are Fee::compute of pool_fees.{swap,protocol,burn}_fee applied to the same gross
amount (the from_ratio product), all three are subtracted from that gross amount to give the proceeds, and each
field of the returned SwapComputation carries the correspondingly named value. Exact price identity, there-and-back
and the 128-bit range claims are numerical and are not decided here. T3: see check_swap_wiring (funds validated before
pricing in swap, per-asset pending-fee lookup, single consumer of the unreduced balance, one direction table).
"""
ASSUMPTIONS = [
    "discharge reasons are arithmetic arguments over u128-ranged inputs confirmed by reading (listed in the rule table); "
    "the tool checks that every abort site is covered by one, not the arithmetic itself",
    "the property's quantifier gives offer_pool, ask_pool, offer >= 1 (non-zero denominators)",
]

CS = "terraswap_pair::helpers::compute_swap"

ABORTING = re.compile(
    r"^<cosmwasm_std::(Uint128|Uint256|Uint512|Decimal|Decimal256) as std::ops::(Add|Sub|Mul|Div|Rem|Shl|Shr)(<.*>)?>::(add|sub|mul|div|rem|shl|shr)$"
    r"|^cosmwasm_std::(Decimal256|Decimal)::from_ratio$"
    r"|^std::(option::Option|result::Result)::(unwrap|expect)$"
    r"|^cosmwasm_std::(Uint128|Uint256)::(pow|multiply_ratio|mul_floor|mul_ceil)$"
    r"|^white_whale_std::fee::Fee::compute$")


def classify_operand(v, os_):
    """Coarse provenance class of an operand inside compute_swap."""
    cls = set()
    for o in os_:
        if o.kind == "param":
            cls.add("param%d" % o.a)
        elif o.kind == "call":
            if o.a.endswith("Decimal256::from_ratio"):
                cls.add("ratio")
            elif o.a.endswith("fee::Fee::compute"):
                cls.add("fee")
            elif re.search(r"as std::ops::Mul(<.*>)?>::mul$", o.a):
                cls.add("product")
            elif re.search(r"as std::ops::Add(<.*>)?>::add$", o.a):
                cls.add("sum")
            elif re.search(r"as std::ops::Sub(<.*>)?>::sub$", o.a):
                cls.add("difference")
            elif o.a.endswith("Uint256::one"):
                cls.add("one")
            elif o.a.endswith("Decimal256::to_uint_floor"):
                cls.add("product")      # floor(ratio) is what `Uint256::one() * ratio` computes (cannot abort)
            else:
                cls.add("call:" + o.a.split("::")[-1])
        elif o.kind == "const":
            cls.add("const")
        else:
            cls.add(o.kind)
    return cls


# (callee regex, lhs classes allowed, rhs classes allowed, reason)
DISCHARGE = [
    (r"Uint256 as std::ops::Mul>::mul$", {"param2"}, {"param3"}, "ask_pool * offer_amount: both < 2^128, product < 2^256"),
    (r"Uint256 as std::ops::Add>::add$", {"param1"}, {"param3"}, "offer_pool + offer_amount: both < 2^128, sum < 2^129"),
    (r"Decimal256::from_ratio$", {"product"}, {"sum"}, "ask*offer/(offer_pool+offer): denominator >= 1 (offer >= 1); quotient <= ask_pool < 2^128 so numerator*10^18 fits 512-bit intermediate and the result fits Decimal256"),
    (r"Decimal256::from_ratio$", {"param2"}, {"param1"}, "ask_pool/offer_pool: offer_pool >= 1; quotient < 2^128 fits Decimal256"),
    (r"Uint256 as std::ops::Mul<cosmwasm_std::Decimal256>>::mul$", {"one"}, {"ratio"}, "1 * ratio <= ask_pool"),
    (r"Uint256 as std::ops::Mul<cosmwasm_std::Decimal256>>::mul$", {"param3"}, {"ratio"}, "offer_amount * (ask/offer_pool) <= (2^128-1)^2 < 2^256"),
    (r"fee::Fee::compute$", {"param4"}, {"product"}, "gross * share with share < 1 (Fee::is_valid): result <= gross"),
    (r"Uint256 as std::ops::Sub>::sub$", {"product", "difference"}, {"fee"}, "gross - fees: PoolFee::is_valid gives sum of shares < 1 and each fee is floor(share*gross), so the running difference stays >= 0"),
]


def cp_arm_blocks(v):
    pred = lambda os_: bool(os_) and all(o.kind == "param" and "PairType" in v.local_ty(o.a) for o in os_)
    excl = variant_excluded_edges(v, "pool_network::asset::PairType", pred, "ConstantProduct")
    excl_other = variant_excluded_edges(v, "pool_network::asset::PairType", pred, "StableSwap")
    if not excl:
        return None
    cp = v.reachable(0, cut_edges=excl)
    ss = v.reachable(0, cut_edges=excl_other)
    return cp - ss


def check_result_fields(ctx, v, arm, rule, tag):
    """Every SwapComputation built in `arm` carries in swap_fee_amount / protocol_fee_amount / burn_fee_amount the value
    Fee::compute returned for the like-named pool_fees field, and return_amount is the gross amount minus all three."""
    want = {"swap_fee", "protocol_fee", "burn_fee"}
    sfx = "" if tag == "constant-product" else "|" + tag
    found = False
    for b in sorted(arm):
        for i, s in enumerate(v.blocks[b]["s"]):
            rv = s["rv"]
            if rv["r"] == "agg" and rv.get("adt", "").endswith("::SwapComputation"):
                found = True
                f = dict(zip(rv["fields"], rv["ops"]))
                for name, fee in (("swap_fee_amount", "swap_fee"), ("protocol_fee_amount", "protocol_fee"), ("burn_fee_amount", "burn_fee")):
                    os_ = v.origins_of_operand(f[name], at=(b, i))
                    okf = False
                    for o in os_:
                        c = call_of(v, o)
                        if c and mname(c[1]).endswith("fee::Fee::compute"):
                            r = v.origins_of_operand(c[1]["args"][0], at=v.at_term(c[0]))
                            okf = bool(r) and all(x.kind == "param" and tuple(x.proj) == (fee,) for x in r)
                    ctx.ob(rule, "%s|field|%s%s" % (CS, name, sfx), okf and len(os_) == 1, "SwapComputation.%s <- %s" % (name, sorted(map(repr, os_))), v.where(b))
                ra = v.origins_of_operand(f["return_amount"], at=(b, i), taint=True)
                subs = set()
                for o in ra:
                    c = call_of(v, o)
                    if c and mname(c[1]).endswith("fee::Fee::compute"):
                        r = v.origins_of_operand(c[1]["args"][0], at=v.at_term(c[0]))
                        subs |= {x.proj[0] for x in r if x.kind == "param" and len(x.proj) == 1}
                is_sub = all(o.kind == "call" and re.search(r"as std::ops::Sub>::sub$|checked_sub$", o.a) for o in v.origins_of_operand(f["return_amount"], at=(b, i)))
                ctx.ob(rule, "%s|proceeds=gross-all-fees%s" % (CS, sfx), subs == want and is_sub,
                       "return_amount is a subtraction chain: %s, subtracting fees %s" % (is_sub, sorted(subs)), v.where(b))
    if not found:
        ctx.missing(rule, "SwapComputation aggregate in the %s arm" % tag)


def check_swap_wiring(ctx, model):
    """T3 (no free money, structural part): the executed swap and its simulation hand compute_swap the reserves the
    property speaks of -- the native offer is validated against the attached coins before any balance is read, each
    pending protocol fee is looked up for the asset whose balance it reduces, the unreduced balance has no other
    consumer, and offer/ask reserves and decimals are selected by one direction table."""
    from .poolvalue import check_v2_v3_pool, check_fee_lookup_same_asset, check_raw_balance_single_consumer
    from .C14 import check_pair_directions
    from .poolvalue import check_v1_pools
    check_v1_pools(ctx, model, "terraswap_pair", "C02-T3")
    from .poolvalue import check_reserves_net_of_fees
    check_reserves_net_of_fees(ctx, model, "terraswap_pair", "C02-T3")
    check_v2_v3_pool(ctx, model, "terraswap_pair", "C02-T3", fns=("swap",))
    # T1's discharge reasons assume a fee triple summing below 100%: every path storing pool_fees validates the whole triple
    from .C18 import validated_store
    n = 0
    for fn in ("terraswap_pair::contract::instantiate", "terraswap_pair::commands::update_config"):
        w = ctx.view(fn, "C02-T3")
        if w is not None:
            n += validated_store(ctx, "C02-T3", w, "terraswap_pair::state::CONFIG", ("pool_fees",),
                                 r"^white_whale_std::pool_network::pair::PoolFee::is_valid$", "PoolFee::is_valid")
    ctx.floor("C02-T3", "paths storing pool_fees", n, 2)
    check_fee_lookup_same_asset(ctx, model, "terraswap_pair", "C02-T3")
    check_raw_balance_single_consumer(ctx, model, "terraswap_pair", "C02-T3")
    check_pair_directions(ctx, model, rule="C02-T3")


def run(ctx):
    model = ctx.model()
    check_swap_wiring(ctx, model)
    v = ctx.view(CS, "C02-T1")
    if v is None:
        return
    arm = cp_arm_blocks(v)
    if not arm:
        ctx.missing("C02-T1", "constant-product arm of compute_swap (switch on PairType)")
        return
    n = 0
    ordinals = {}
    for b in sorted(arm):
        bb = v.blocks[b]
        t = bb["t"]
        if t["k"] == "assert":
            n += 1
            ctx.ob("C02-T1", "%s|assert|%s" % (CS, t["msg"][:30]), False, "MIR assertion (%s) in the constant-product arm has no discharge" % t["msg"], v.where(b))
        if t["k"] != "call":
            continue
        name = mname(t)
        if not ABORTING.search(name):
            continue
        n += 1
        a = [classify_operand(v, v.origins_of_operand(x, at=v.at_term(b))) for x in t["args"][:2]]
        while len(a) < 2:
            a.append(set())
        reason = None
        for rx, lc, rc, why in DISCHARGE:
            if not re.search(rx, name) or not a[0] or not a[1]:
                continue
            # `x + y` / `x * y` between values of one type commute: the reason holds for either operand order
            commutes = bool(re.search(r"as std::ops::(Mul|Add)>::(mul|add)$", name))
            if (a[0] <= lc and a[1] <= rc) or (commutes and a[0] <= rc and a[1] <= lc):
                reason = why
                break
        short = name.split(" as ")[-1] if " as " in name else name
        k = "%s(%s;%s)" % (short, ",".join(sorted(a[0])), ",".join(sorted(a[1])))
        ordinals[k] = ordinals.get(k, 0) + 1
        ctx.ob("C02-T1", "%s|%s#%d" % (CS, k, ordinals[k]), reason is not None,
               ("discharged: " + reason) if reason else
               "operation %s with operands (%s ; %s) can abort and matches no discharge pattern" % (name, sorted(a[0]), sorted(a[1])), v.where(b))
    ctx.floor("C02-T1", "abort-capable operations in the constant-product arm", n, 8)
    # T2 fee split
    fees = {}
    gross_ids = set()
    for b in sorted(arm):
        t = v.blocks[b]["t"]
        if t["k"] == "call" and mname(t).endswith("fee::Fee::compute"):
            recv = v.origins_of_operand(t["args"][0], at=v.at_term(b))
            amt = v.origins_of_operand(t["args"][1], at=v.at_term(b))
            for o in recv:
                if o.kind == "param" and len(o.proj) == 1:
                    fees[o.proj[0]] = (b, {(x.kind, x.a, x.b) for x in amt})
    want = {"swap_fee", "protocol_fee", "burn_fee"}
    same_gross = len({frozenset(x[1]) for x in fees.values()}) == 1 and all(x[1] for x in fees.values())
    ctx.ob("C02-T2", "%s|three-fees-on-one-gross" % CS, set(fees) == want and same_gross,
           "Fee::compute applied to pool_fees.%s; all on the same gross amount: %s" % (sorted(fees), same_gross), v.where())
    check_result_fields(ctx, v, arm, "C02-T2", "constant-product")
