"""Fact loading, pretty printing, CFG / dominator utilities over the driver's MIR dump."""
import json, os, glob, re, sys
from functools import lru_cache


def pl_str(p):
    s = "_%d" % p["l"]
    for e in p["p"]:
        if e == "*":
            s = "(*%s)" % s
        elif isinstance(e, dict):
            if "f" in e:
                s = "%s.%s" % (s, e["n"] if e["n"] else e["f"])
            elif "d" in e:
                s = "(%s as %s)" % (s, e["d"])
            elif "i" in e:
                s = "%s[_%d]" % (s, e["i"])
            elif "ci" in e:
                s = "%s[%s%d]" % (s, "-" if e["e"] else "", e["ci"])
        else:
            s = "%s.%s" % (s, e)
    return s


def op_str(o):
    k = o["k"]
    if k in ("copy", "move"):
        return ("move " if k == "move" else "") + pl_str(o["pl"])
    if k == "const":
        if "promoted" in o:
            return "promoted[%d]" % o["promoted"]
        if "item" in o:
            return "const %s%s" % (o["item"], ("=" + o["val"]) if "val" in o else "")
        if "fn" in o:
            return "fn %s" % o["fn"]
        if "val" in o:
            return "const %s:%s" % (o["val"], o["ty"])
        if "str" in o:
            return "const %r" % o["str"]
        return "const <%s>" % o["ty"]
    return "?"


def rv_str(r):
    k = r["r"]
    if k == "use":
        return op_str(r["op"])
    if k == "ref":
        return "&%s%s" % ("mut " if r.get("mut") else "", pl_str(r["pl"]))
    if k == "cast":
        return "%s as %s (%s)" % (op_str(r["op"]), r["ty"], r["kind"])
    if k == "bin":
        return "%s(%s, %s)" % (r["op"], op_str(r["a"]), op_str(r["b"]))
    if k == "un":
        return "%s(%s)" % (r["op"], op_str(r["a"]))
    if k == "discr":
        return "discriminant(%s)" % pl_str(r["pl"])
    if k == "agg":
        if "adt" in r:
            return "%s::%s{%s}" % (r["adt"], r["variant"], ", ".join(
                "%s: %s" % (n, op_str(o)) for n, o in zip(r["fields"], r["ops"])))
        if "closure" in r:
            return "closure %s[%s]" % (r["closure"], ", ".join(op_str(o) for o in r["ops"]))
        return "(%s)" % ", ".join(op_str(o) for o in r["ops"])
    if k == "repeat":
        return "[%s; n]" % op_str(r["op"])
    return "other:%s" % r.get("dbg", "")


def term_callee(t):
    """Body-lookup key of a call terminator: resolved impl fn path, else the def path ('' if indirect)."""
    return t.get("resolved") or t.get("callee") or ""


def _strip_turbofish(path):
    out = []
    i = 0
    n = len(path)
    while i < n:
        if path.startswith("::<", i):
            j = i + 2
            d = 0
            while j < n:
                c = path[j]
                if c == "<":
                    d += 1
                elif c == ">" and path[j - 1] != "-":
                    d -= 1
                    if d == 0:
                        break
                j += 1
            i = j + 1
            continue
        out.append(path[i])
        i += 1
    return "".join(out)


_MN_CACHE = {}


def norm_name(full):
    r = _MN_CACHE.get(full)
    if r is None:
        r = _strip_turbofish(full)
        r = re.sub(r"\b(core|alloc)::", "std::", r)
        # inherent impls on primitives print relative to the using crate (`terraswap_pair::core::bool::<impl bool>::then`)
        r = re.sub(r"\b[a-z_][a-z_0-9]*::std::", "std::", r)
        r = r.replace("::<impl bool>", "").replace("::<impl u64>", "").replace("::<impl u128>", "")
        _MN_CACHE[full] = r
    return r


def mname(t):
    """Canonical match name of a call: concrete Self type kept for trait calls, turbofish
    dropped, core::/alloc:: normalised to std::. E.g. `cw_storage_plus::Item::load`,
    `<cosmwasm_std::Addr as std::cmp::PartialEq>::ne`, `std::option::Option::unwrap`."""
    full = t.get("callee_full") or t.get("callee") or ""
    return norm_name(full)


def term_str(t):
    k = t["k"]
    if k == "call":
        c = t.get("callee_full") or t.get("callee") or ("<indirect %s>" % op_str(t["callee_op"]))
        if t.get("resolved"):
            c += " [=> %s]" % t["resolved"]
        return "%s = %s(%s) -> bb%s" % (pl_str(t["dest"]), c, ", ".join(op_str(a) for a in t["args"]), t["target"])
    if k == "switch":
        return "switchInt(%s) -> [%s, otherwise: bb%d]" % (
            op_str(t["discr"]), ", ".join("%s: bb%d" % (v, b) for v, b in t["targets"]), t["otherwise"])
    if k == "goto":
        return "goto bb%d" % t["target"]
    if k == "drop":
        return "drop(%s) -> bb%d" % (pl_str(t["pl"]), t["target"])
    if k == "assert":
        return "assert(%s == %s, %s) -> bb%d" % (op_str(t["cond"]), t["expected"], t["msg"], t["target"])
    return k


def dump_fn(fn, out=sys.stdout):
    b = fn["body"]
    out.write("fn %s  (%s:%d)  argc=%d ret=%s\n" % (fn["path"], fn["file"], fn["line"], b["argc"], fn["ret"]))
    for v in b["vars"]:
        out.write("  debug %s => %s\n" % (v["name"], pl_str(v["pl"])))
    for i, t in enumerate(b["locals"]):
        out.write("  let _%d: %s\n" % (i, t))
    for i, bb in enumerate(b["blocks"]):
        if bb.get("cleanup"):
            continue
        out.write("  bb%d:\n" % i)
        for s in bb["s"]:
            out.write("    %s = %s   // L%d\n" % (pl_str(s["lhs"]), rv_str(s["rv"]), s["ln"]))
        out.write("    %s   // L%d\n" % (term_str(bb["t"]), bb["t"]["ln"]))
    for i, p in enumerate(fn.get("promoted", [])):
        out.write("  promoted[%d]:\n" % i)
        for bb in p["blocks"]:
            if bb.get("cleanup"):
                continue
            for s in bb["s"]:
                out.write("    %s = %s\n" % (pl_str(s["lhs"]), rv_str(s["rv"])))


class Program:
    """All facts of one configuration."""

    def __init__(self, facts_dir):
        self.dir = facts_dir
        self.crates = {}     # key -> crate json (key = crate name, or crate name + '@registry')
        self.fns = {}        # path -> fn (workspace copy wins for white_whale_std)
        self.fns_registry = {}  # registry copy of white_whale_std
        for f in sorted(glob.glob(os.path.join(facts_dir, "*.json"))):
            d = json.load(open(f))
            name = d["crate"]
            reg = "/registry/" in d.get("root_file", "") or d.get("root_file", "").startswith("/root/.cargo")
            key = name + ("@registry" if reg else "")
            self.crates[key] = d
            for fn in d["fns"]:
                if "body" not in fn:
                    continue
                fn["crate"] = name
                fn["registry"] = reg
                if reg:
                    self.fns_registry[fn["path"]] = fn
                else:
                    self.fns[fn["path"]] = fn

    def fn(self, path):
        return self.fns[path]

    def find(self, suffix):
        return [p for p in self.fns if p.endswith(suffix)]


if __name__ == "__main__":
    prog = Program(sys.argv[1])
    for pat in sys.argv[2:]:
        for p in sorted(prog.fns):
            if re.search(pat, p):
                dump_fn(prog.fns[p])
                print()
