#!/bin/sh
# Build the fact-extraction driver (offline, nightly toolchain with rustc-dev) and warm the fact cache.
set -e
cd "$(dirname "$0")"
export CARGO_NET_OFFLINE=true
(cd driver && cargo build --offline)
python3 -m ww_static.extract default
echo "setup ok"
