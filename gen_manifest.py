#!/usr/bin/env python3
"""Generates MANIFEST.json from the table below (kept in one place so it cannot drift)."""
import json, os

HERE = os.path.dirname(os.path.abspath(__file__))
PARTIAL = ("Path-complete structural proof of necessary conditions, not of the behaviour: the check decides the listed "
           "structural parts, which are necessary for the property, and not the behaviour. ")
NOTE = ("Trusted: rustc MIR construction/name resolution (nightly, mir-opt-level=0), cosmwasm-std / cw-storage-plus / "
        "cw-controllers / cw20-base semantics, CosmWasm atomic revert and call model, the hand-confirmed rule tables in "
        "ww_static/rules, identity of the registry and workspace copies of white-whale-std (measured each run).")

CLAIMED = {
    "C13": ("paired-update provenance (closure-resolved) + telescoping dependency rule + sibling reward-formula skeleton + record-once + cap walk + ordering-domain walks",
            "GLOBAL_WEIGHT and ADDRESS_WEIGHT are updated with one value in one direction and the history gets the saved weight at epoch+1; "
            "expand's increment depends on the stored position total because close removes f(total); claim and the rewards query compute the per-epoch reward by the same formula skeleton, record an epoch's emission once, claim saves every flow update and lets exactly 100 epochs through; second claim in an epoch rejected before any effect; reward <= emission and "
            "claimed <= funded gate every transfer; weight domain and max(computed, amount). Share-sum under snapshot placement: not decided.", "§4 C13"),
    "C14": ("sibling agreement: argument-provenance classes, field mappings, direction tables with constant indices, operand-shape comparison",
            "Simulation and execution feed compute_swap from the same classes (pool reads minus pending fees, pool_fees, type/invariant, decimals) "
            "except swap's documented offer subtraction; response fields 1:1; pair and 3-pool direction/decimals tables are permutations and agree; "
            "vault share query and withdraw use the same ratio * (balance - pending); router simulation chains return amounts.", "§4 C14"),
    "C15": ("positional argument provenance + helper-guard dominance + ordering-domain walks of the spread/minimum checks",
            "swap passes (belief, max, offer, return+fees, spread) to assert_max_spread and its success dominates all effects; the helper accepts "
            "exactly the documented orderings with default 0.01 and cap 0.5; provide_liquidity propagates assert_slippage_tolerance which rejects "
            "tolerance > 1; the router appends AssertMinimumReceive last with the right operands and it succeeds iff balance - prev >= minimum.", "§4 C15"),
    "C16": ("MIR call-chain guard dominance (edge-cut reachability) over dispatch tables",
            "Every ExecuteMsg variant of the 14 dispatching contracts x every storage write / outgoing message reachable from "
            "its arm x the sender==authority comparison that must dominate it on the call chain; unprivileged variants must not "
            "reach configuration-class effects; guard helpers must be fail-closed.", "§4 C16"),
    "C17": ("MIR flag-guard dominance per entry path + flag-set exactness",
            "All 14 entry paths (direct and cw20-hook) of the pausable pool/vault operations: every effect dominated by the "
            "operation's own CONFIG flag, no foreign flag on the path, defaults true; three feature configurations in thorough.", "§4 C17"),
    "C18": ("ordering-domain truth tables of validators + validate-before-store dataflow",
            "Each validator accepts exactly its documented range (regions cut at documented and in-code constants, CFG walked per "
            "region); every new source of a bounded CONFIG field must cross the validator's pass edge before the save; who-may-write CONFIG.", "§4 C18"),
    "C19": ("key provenance over all registry accesses + exists-edge reachability + reply-id matching + both-ends field provenance",
            "Key functions concatenate what they sorted; every registry access is keyed through them (or the TMP copy); the 'exists' edge cannot reach "
            "TMP write / Instantiate and identical assets are rejected; sub-message ids are dispatched by reply; TMP record == InstantiateMsg data, reply stores "
            "response address + child's own LP token; remove = lookup then remove of the same key; router stores simulated routes and resolves hops via the configured factory. "
            "Pagination completeness and key collisions: not decided.", "§4 C19"),
    "C20": ("ordering-domain truth table of the expiry guard + field-source tracing of id/start_time",
            "Creation effect reachable exactly when elapsed >= duration (and not before genesis); id = prev+1, start = prev+duration; "
            "epoch unchanged through the collector round trip; single writers; hooks prepared once and attached.", "§4 C20"),
}

CLAIMED.update({
    "C01": ("who-reads-what enumeration (every query_pools caller) + guard dominance + first-deposit ordering walk + message-target enumeration + callee lint",
            "Every function of the pair that reads pool balances subtracts the pending protocol fees; funds are validated before pricing and deposits "
            "excluded / pulled; the minimum liquidity is minted to the pool only when total share is zero, zero user share rejected, and only Mint/Burn ever goes "
            "to the LP token; floor-family rounding only. LP-value monotonicity, pro-rata and solvency over histories are numerical: not decided.", "§4 C01-C05"),
    "C02": ("abort-site enumeration with provenance-matched discharge table + fee-split provenance",
            "Every operation in the constant-product arm of compute_swap that can abort matches a discharge pattern (operation + operand "
            "provenance + arithmetic reason); three fees are computed from one gross amount on the three pool_fees fields and all subtracted; "
            "response fields carry the like-named values. Exact price, there-and-back and range claims are numerical: not decided.", "§4 C01-C05"),
    "C03": ("operand-wiring provenance of the stableswap paths (positional arguments, scaling, direction/decimals tables, index agreement)",
            "WIRING ONLY: calculate_stableswap_y receives offer/ask reserves and the offer amount scaled with the right precisions, the pair's amp and the ask precision; "
            "gross = ask reserve - new pool; three fees on the gross, all subtracted; swap and simulation select reserves and decimals by one direction table; the stableswap "
            "mint helper and compute_d receive deposits[0..1], pools[0..1] in matching order. The numerical content of C03 (invariant accuracy, monotone proceeds, rounding dust, "
            "mint bound) is NOT decided by any static argument available here.", "§4 C03 / §10.5"),
    "C04": ("sample-point evaluation of the ramp guard (symbolic evaluation of guard expressions + CFG walk) + field-source tracing + direction tables",
            "The amp ramp is accepted exactly for 1 <= a <= 10^6, 1/10 <= a/current <= 10 and >= 10000 blocks (one sample per region, "
            "guard expressions evaluated symbolically); on acceptance initial_amp := current amp, initial block := height, targets := request; "
            "3-pool direction tables are permutations and agree across swap/simulate/reverse. Solvency, D monotonicity, there-and-back, "
            "interpolation linearity are numerical: not decided.", "§4 C01-C05"),
    "C05": ("pending-ledger subtraction at every pricing site + ordering walk of the funds check + first-deposit rules + callee lint",
            "Vault deposit, withdraw and share query price with balance minus pending fees; a native deposit mints only when funds == amount and a cw20 deposit "
            "is pulled by an attached TransferFrom; minimum liquidity locked in the vault on the first deposit only; nothing but Mint/Burn goes to the LP token; "
            "no mint while LOAN_COUNTER != 0; floor-family rounding. Share-price monotonicity is numerical: not decided.", "§4 C01-C05"),
    "C06": ("guard dominance + push-order dominance + ordering-domain walks + fee-set agreement between sibling computations",
            "Callback self-guard; flash_loan message order loan->borrower->AfterTrade(last) with old_balance from this call's query; success "
            "reachable iff required <= balance with required = old + three CONFIG fees of the loan; counter inc/dec pairing; no mint "
            "unless LOAN_COUNTER == 0; payback quote uses the same three fees; router guards, payback = vault's quote, profit = balance - quote. "
            "Nested-loan accounting is not decided.", "§4 C06"),
    "C07": ("value provenance of ledger writes + must-pass-through + ordering-domain walk of the collect threshold + forward message flow",
            "Protocol fee value reaches both ledgers keyed by the ask pool on every success path; burn value paired with an attached "
            "burn message; in collect a ledger entry is zeroed exactly in the amount regions in which its transfer is attached, "
            "recipient = CONFIG.fee_collector_addr; all-time ledgers written only by the add-only helper.", "§4 C07"),
    "C08": ("guard dominance + rejection-atom edge analysis + arithmetic-source tracing + ordering-domain walks + time-keyed-write merge rule",
            "validate_funds's five rejection atoms cannot reach Ok and its success dominates the bond writes; one declared amount feeds "
            "BOND, GLOBAL.bonded_amount, bonded_assets and the UNBOND record; unbond reachable iff bonded >= amount; a block-time-keyed "
            "UNBOND save must merge; withdraw releases exactly matured records, add and remove together, payout to the caller.", "§4 C08"),
    "C09": ("single-definition pairing of ledger updates + must-pass-through + closure-resolved filter comparisons + rollover provenance",
            "One reward definition feeds available-=, claimed+= (both arms) and the payout to the sender; the checked subtraction precedes the epoch save; "
            "cursor saved on every success path, claimable filters are strict (id > last claimed / first bonded), never-bonded cleared; reply aggregates the "
            "expiring epoch's available into the new epoch's total and available, empties and saves the expiring epoch; single writers.", "§4 C09"),
    "C10": ("guard dominance + sub-message order/reply discipline + condition dominance + ordering-domain walk of the aggregation threshold",
            "ForwardFees only for the distributor; four self-addressed sub-messages in order collect/collect/aggregate/aggregate with only the last "
            "replying on success; take-rate fee = floor(balance * take_rate) sent and recorded only under active/rate!=0/dao-set/fee!=0; epoch total = "
            "available = amount sent to the distributor; swaps only above 1000 after successful route+simulation, never for the distribution asset.", "§4 C10"),
    "C11": ("guard dominance + closure-resolved provenance + variant-sliced reachability + forward message flow",
            "validate_funds_sent success dominates position writes and its validated amount is the recorded amount; the helper's Ok return "
            "is reachable only through paid==amount (native) or an attached TransferFrom(sender->contract, amount) with allowance>=amount (cw20); "
            "close moves the open amount atomically; withdraw adds/removes together and pays the caller; frontend helper pairs transfers and forwards the whole LP balance.", "§4 C11"),
    "C12": ("configuration-sliced CFG reachability (correlated enum branches) + forward message flow + refund provenance",
            "In every (fee asset, flow asset, same?) configuration every path to FLOWS.save crosses a funding tie "
            "(funds comparison or attached TransferFrom of the flow amount); every message built is attached; close_flow refunds "
            "an amount depending on asset_history and claimed_amount to the flow creator and removes the flow.", "§4 C12"),
})

# clauses added after the mutation rounds (DESIGN.md section 10.6); appended to the scope text of each property
ADDED = {
    "C01": " Also: the unreduced balance has the fee subtraction as its only consumer; each pending fee is looked up for the asset it reduces; the withdraw hook honours only the LP token and the direct withdrawal compares the attached denom with the stored LP denom.",
    "C02": " T3 also: every reader of pool balances subtracts the pending fees; every path storing pool_fees validates the whole triple (T1's precondition). Also (T3): swap validates the native offer before reading balances; per-asset pending-fee lookup; one direction table for reserves and decimals.",
    "C03": " Also: Newton step tree (Ann*S + Dp*n)*d/((Ann-1)*d + (n+1)*Dp) with Ann = amp*n; result fields of the stableswap arm carry the like-named fees; floor-family rounding on deposit / withdrawal / swap. Also: the mint helper computes D(pool) and D(pool_i + deposit_i) with matching indices and mints supply*(d1-d0)/d0 (operator tree); compute_d uses its two reserves symmetrically.",
    "C04": " Also: every StableSwap is built from the stored ramp and env.block.height (resolved through the call sites); Newton step tree; pool-side fee collection zeroes only what it transfers. Also: operator tree of the ramp interpolation (product before division, range ordered per branch); 3-pool deposit wiring (mint helper operands in pool order, D(pool_i + deposit_i), compute_d symmetric in three reserves); raw-balance single consumer; LP-token-only withdraw hook; direct withdrawal denom.",
    "C05": " Also (V7): a loan settles only when the balance covers the old balance plus all three fees. Also: direct Withdraw{} compares the attached denom with CONFIG.lp_asset and passes funds[0].amount; withdraw hook honours only the LP token; loan counter incremented first in flash_loan and decremented on every success path of after_trade.",
    "C06": " Also: the router forwards any positive remainder (ordering-domain walk over the profit). Also: the NextLoan the router starts names info.sender as initiator; next_loan threads the handled NextLoan's initiator and loaned_assets into every NextLoan/CompleteLoan it builds.",
    "C07": " Also (F1): compute_swap's result fields carry Fee::compute of the like-named fee in BOTH pair-type arms; flash_loan snapshots the raw queried balance. Also (F5): at instantiation each of the three ledgers gets one zero entry per pool asset in pool order.",
    "C08": " The weight helpers return and save the record they were given (nothing loaded from storage); the Unbonding query's cursor is an exclusive bound. The list handed to aggregate_assets/deduct_assets is exactly [declared asset].",
    "C09": " Also (D7): whale_lair bond/unbond are dominated by validate_claimed(sender)? which rejects a non-empty claimable list; (D8) the v0.9.1 migration refunds exactly the field it empties. Also (D6): forwarded epochs (empty `available`) are filtered from the claimable list and a reward enters the payout only after its asset was found in epoch.available.",
    "C10": " Also: factory listing queries carry the selected FactoryType's own start_after/limit; (Q7) each optional collector setting can be changed on its own. Also (Q6): pools and vaults zero a pending entry only where they transfer it to the configured collector.",
    "C11": " Also (K6): position lists are only edited in place (update closures return the list they were given; saves store the loaded list).",
    "C12": " Also (L8) positions are recorded only for LP actually received (LP and reward funds share one balance); (L9) the v1.0.6 migration copies every pre-existing Flow field from the same-named old field. Also (L7): the stored new claimed total is the quantity a dominating `> funded amount` test rejects.",
    "C13": " Also (W7): claim, rewards query and share query replay an inclusive epoch range ending at the current epoch.",
    "C15": " Also: every entry path forwards the request's own belief_price / max_spread to swap; the deposits handed to the slippage check are in pool order. Also: the slippage clause table (both constant-product orientations and the stableswap clause reject strictly beyond the bound).",
    "C16": " Also: every successful return of a privileged handler is guard-dominated (not only its effects). Also: cw20 hooks honour only the right token contract; UpdateConfig assigns CONFIG.owner only from the request's owner field; instantiate stores InstantiateMsg.owner when declared, else the sender; NextLoan requires the factory-registered vault.",
    "C17": " Each flag stored by update_config comes from the same-named request field.",
    "C18": " The vault's factory-asset/burn-share test guards every path from new fees to the save.",
    "C14": " The 3-pool builds its curve from the stored ramp and the block height on the simulation and the execution path alike.",
    "C19": " Pagination cursors: canonicalised like the keys, successor formed by appending one constant byte <= 0x20, used as exclusive lower bound.",
    "C20": " Also: the distributor's epoch_config is validated (duration >= 1 day) on every storing path; the epoch manager's Epoch{id} query derives past starts from the stored clock.",
}
for _k, _v in ADDED.items():
    _t = CLAIMED[_k]
    CLAIMED[_k] = (_t[0], _t[1] + _v, _t[2])

NOT_APPLICABLE = {}

PENDING = "check for the structural clauses of this property (DESIGN.md §4) is not built yet in this round; not claimed until it is"


def main():
    props = [json.loads(l)["id"] for l in open(os.path.join(HERE, "properties.jsonl"))]
    checks = []
    for pid in props:
        if pid not in CLAIMED:
            continue
        tech, text, ref = CLAIMED[pid]
        checks.append({
            "property_id": pid,
            "quick_cmd": "./check %s --tier quick" % pid,
            "thorough_cmd": "./check %s --tier thorough" % pid,
            "evidence_file": "/verif/evidence/%s.json" % pid,
            "replay_cmd_template": "./check %s --replay {path}" % pid,
            "engine": "ww_static",
            "level_claimed": {"category": "other", "text": PARTIAL + text, "design_ref": ref},
            "level_note": NOTE,
            "technique": "static analysis: " + tech,
        })
    na = []
    for pid in props:
        if pid in CLAIMED:
            continue
        na.append({"property_id": pid, "reason": NOT_APPLICABLE.get(pid, PENDING)})
    m = {
        "version": 1,
        "setup_cmd": "cd /verif && ./setup.sh",
        "hooks": {
            "guard": "wwcore_verif",
            "enable": "none needed: the analysis reads the MIR of the unmodified build (cargo +nightly check with the /verif/driver wrapper)",
            "baseline_off_cmd": "cd /repo && cargo test --workspace --no-fail-fast --offline",
            "source_commits": [],
            "add_only": True,
        },
        "engines": [
            {"name": "wwv-driver", "path": "/verif/driver", "serves_properties": sorted(CLAIMED),
             "kind_free_text": "rustc_private driver (nightly) dumping per-function MIR facts (CFG, resolved callees, field-named places, evaluated constants, promoted consts) as JSON"},
            {"name": "ww_static", "path": "/verif/ww_static", "serves_properties": sorted(CLAIMED),
             "kind_free_text": "Python rule engine over the MIR facts: call graph, edge-cut dominance, value provenance, ordering-domain truth tables, field-source tracing, dispatch tables"},
        ],
        "checks": checks,
        "not_applicable": na,
        "notes": "Static analysis only. Every check re-extracts MIR facts when /repo's sources change (cache keyed by a hash of the tree). "
                 "Exit 0 = all obligations discharged or listed in known_findings.json; exit 1 + VIOLATION lines otherwise; exit 2 = tool failure.",
    }
    with open(os.path.join(HERE, "MANIFEST.json"), "w") as fh:
        json.dump(m, fh, indent=1)
    print("MANIFEST.json: %d checks, %d not_applicable" % (len(checks), len(na)))


if __name__ == "__main__":
    main()
