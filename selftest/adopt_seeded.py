#!/usr/bin/env python3
"""Adopt confirmed candidate changes from /tmp/mut/<id> into /verif/seeded/<id>/ (patch.diff, demo.diff, notes.md,
confirm.json, meta.json). Only candidates whose confirm.json says confirmed=true are adopted."""
import json, os, shutil, sys, re

VERIF = os.path.dirname(os.path.dirname(os.path.abspath(__file__)))
SRC = "/tmp/mut"

NEEDS = {
 "C06a": "a borrower contract re-entering the vault with Deposit while exactly one loan is outstanding (LOAN_COUNTER == 1); the pinned test injects counter = 2",
 "C06b": "a vault whose flash-loan and protocol fee shares differ, and a borrower repaying less than the quoted payback amount (all repo fixtures use equal shares)",
 "C07a": "CollectProtocolFees while a pending amount is between 1 and 1000 (existing tests collect far above the threshold or at zero)",
 "C07b": "a vault fee configuration where flash_loan_fee.share != protocol_fee.share, then loan / collect sequences",
 "C08a": "a block time that is not a whole number of seconds after the unbond, e.g. T + period - 1ns",
 "C08b": "the same address unbonding the same denom twice at the same block timestamp",
 "C12a": "a flow expanded on at least two different epochs and then closed",
 "C12b": "expanding a native flow with an attached coin larger than the declared amount",
 "C14a": "a pool whose two assets carry different pending protocol fees when the simulation is queried",
 "C14b": "3-pool simulation in the single direction offer=2nd asset, ask=3rd asset, on an imbalanced pool",
 "C16a": "the router's wasm admin transferred away from the creator, then the creator managing routes",
 "C16b": "an unauthorised UpdateConfig on the fee collector with owner: None (the pinned negative test sends owner: Some(..))",
 "C17a": "a pool whose LP token is a token-factory denom, withdrawals paused, WithdrawLiquidity{} sent as a direct message",
 "C17b": "an operator update leaving the vault's deposit and withdraw switches at different values, then a deposit/withdrawal",
 "C18a": "a vault over a factory/... denom with a cw20 LP token receiving a positive burn fee through UpdateConfig",
 "C18b": "UpdateConfig on the fee distributor carrying an epoch duration below one day",
 "C19a": "more than one page of trios with the trio at a page boundary created with its assets in non-ascending order",
 "C19b": "re-submitting AddSwapRoutes for an already stored (offer, ask) key with a hop through an unregistered pair",
 "C20a": "epoch creation at least two full durations late in the fee distributor",
 "C01a": "deposit -> swaps accruing > 1000 protocol fees -> CollectProtocolFees -> another deposit (the two ledgers coincide until the first collection)",
 "C01b": "a native offer at pool index 1 (native/native pair or [cw20, native]) whose declared amount is not backed by the attached funds",
 "C02a": "large reserves: offer_pool + offer > 1e18 with a tiny non-zero remainder (results unchanged for the reserve sizes used in tests)",
 "C02b": "offer_pool + offer >= 2^128 while all results still fit in 128 bits",
 "C03a": "a stableswap pair with unequal decimals, offering the second asset, with a belief price given",
 "C03b": "a stableswap pool that is off the peg at deposit time",
 "C04a": "3-pool swap in the single direction second asset -> third asset with unequal first/second reserves",
 "C04b": "an earlier ramp up (so initial_amp < current amp) followed by a ramp down to a target between initial/10 and current/10",
 "C05a": "a borrower contract depositing into the same vault from inside its loan callback while exactly one loan is open",
 "C05b": "a vault over a cw20 asset and a non-first deposit",
 "C09a": "see notes.md",
 "C09b": "see notes.md",
 "C10a": "a fee asset routed through a pool thinner than the fee balance, so simulation succeeds but the real swap fails on max spread",
 "C10b": "take rate switched off while a non-zero rate and a DAO address remain stored",
 "C11a": "Withdraw executed within the unbonding window of a closed position",
 "C11b": "a cw20 pool asset deposited through the frontend helper with an allowance strictly greater than the deposit",
 "C13a": "exactly 100 unclaimed epochs on a still-active flow",
 "C13b": "OpenPosition with receiver: Some(other) while the sender already holds weight",
 "C15a": "`to` set to a third party that already holds more of the final asset than the sender",
 "C15b": "a belief price given, a swap whose computed pool spread is 0, and a pool price worse than the belief price by more than max_spread",
 "C20b": "a second CreateEpoch on the epoch manager before the current epoch expired, after one legitimate creation",
}


def main():
    ids = sys.argv[1:] or sorted(x for x in os.listdir(SRC) if re.match(r"^C\d\d[a-z]$", x))
    for i in ids:
        d = os.path.join(SRC, i)
        cj = os.path.join(d, "confirm.json")
        if not os.path.exists(cj):
            print(i, "no confirm.json yet")
            continue
        c = json.load(open(cj))
        if not c.get("confirmed"):
            print(i, "NOT confirmed:", {k: v for k, v in c.items() if not k.endswith("_log")})
            continue
        out = os.path.join(VERIF, "seeded", i)
        os.makedirs(out, exist_ok=True)
        for f in ("patch.diff", "demo.diff", "notes.md"):
            if os.path.exists(os.path.join(d, f)):
                shutil.copy(os.path.join(d, f), os.path.join(out, f))
        for k in list(c):
            if k.endswith("_log"):
                c[k] = c[k][-600:]
        json.dump(c, open(os.path.join(out, "confirm.json"), "w"), indent=1)
        meta = {
            "id": i,
            "property": i[:3],
            "origin": "fresh sub-agent given only the property text and its own scratch worktree of /repo (nothing from /verif)",
            "needs_to_manifest": NEEDS.get(i, "see notes.md"),
            "confirmed_by": "selftest/confirm_seeded.py in a scratch worktree: (i) demo passes on the unmodified tree, (ii) demo fails with the change, "
                            "(iii) unedited suite passes with the change (%s passed, %s failed)" % (c.get("iii_suite_passed"), c.get("iii_suite_failed")),
            "demo_tests": c.get("demo_tests"),
        }
        mp = os.path.join(out, "meta.json")
        if os.path.exists(mp):
            old = json.load(open(mp))
            for k in ("detected_by", "detection_history"):
                if k in old:
                    meta[k] = old[k]
        json.dump(meta, open(mp, "w"), indent=1)
        print(i, "adopted")


if __name__ == "__main__":
    main()
