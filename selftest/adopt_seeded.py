#!/usr/bin/env python3
"""Adopt confirmed candidate changes from /tmp/mut/<id> into /verif/seeded/<id>/ (patch.diff, demo.diff, notes.md,
confirm.json, meta.json). Only candidates whose confirm.json says confirmed=true are adopted."""
import json, os, shutil, sys, re

VERIF = os.path.dirname(os.path.dirname(os.path.abspath(__file__)))
SRC = "/tmp/mut"

NEEDS = {
 "C16g": "AddSwapRoutes with an EMPTY route list sent by a non-admin",
 "C16h": "NextLoan sent by an address naming itself as source_vault for an asset that has a registered vault",
 "C16i": "RemoveSwapRoutes for an existing route sent by a non-admin",
 "C11g": "a caller whose closed positions total exactly 1 LP base unit",
 "C11h": "a user with two open positions of different amounts closing the one that is not first in their list",
 "C11i": "a user with at least two open positions closing one (the shortened list is never written back)",
 "C12g": "an OpenFlow sending strictly more of the (native) reward denom than it declares",
 "C12h": "cw20 flow fee, a different cw20 reward token and a flow amount different from the fee amount",
 "C12i": "an ExpandFlow offering a cw20 token different from the flow's reward asset",
 "C13g": "a user with exactly 100 unclaimed epochs and a flow active in the 100th",
 "C13h": "ExpandPosition with receiver: Some(other) where the sender's own weight differs from the receiver's",
 "C13i": "a user closing a position in a new epoch before the global-weight snapshot is taken",
 "C14g": "amount/total_share non-terminating in decimal and total_share dividing amount x liquid balance",
 "C14h": "StableSwap pair with different decimals, second asset offered, execute path",
 "C14i": "3pool: an earlier swap asked for asset X, no collection, then X offered in a Simulation",
 "C15g": "a slippage tolerance of exactly 1.0 on a pool with liquidity",
 "C15h": "3pool deposit whose 2nd and 3rd amounts differ enough to cross the bound",
 "C15i": "3pool swap with neither belief_price nor max_spread and a spread above 1%",
 "C17g": "UpdateConfig{deposit_enabled: Some(false)} on a vault whose deposits are enabled",
 "C17h": "vault with withdrawals paused but deposits enabled (or the reverse), then a withdrawal",
 "C17i": "a Deposit through the frontend helper into a pool whose deposits are paused",
 "C18g": "an epoch duration in the window just below one day (e.g. 86_399_999_999_999 ns)",
 "C18h": "a 3pool whose current amp is above 100_000 ramping to a target above 10^6",
 "C18i": "a vault over a non-token-factory asset instantiated with invalid fees (e.g. shares summing to 100%)",
 "C19g": "native-denom pairs whose keys nest as prefixes (uusd / uusdc) and a page ending on the shorter one",
 "C19h": "CreateTrio for an already registered triple (any permutation)",
 "C19i": "create -> remove -> query / re-create of a vault",
 "C20g": "CreateEpoch in a block whose time hits start_time + duration to the nanosecond",
 "C20h": "an epoch duration longer than one day and NewEpoch between start + 1 day and start + duration",
 "C20i": "CreateEpoch on the epoch manager between instantiation and genesis",
 "C01g": "a partial withdrawal by one of several LPs whose pro-rata share of a reserve is fractional (repeatable with dust withdrawals)",
 "C01h": "uncollected protocol fees that differ between the two assets and a deposit listing the assets in reverse pool order",
 "C01i": "a native/native pair and a deposit whose second-listed native asset is missing or short",
 "C02g": "offers of about 1e18 base units or more, or reserve ratios above 1e18 (the quotient is truncated before multiplying)",
 "C02h": "an earlier swap that left unequal uncollected protocol fees, then a Simulation query",
 "C02i": "reserve ratio around 1e18 with a nonzero but lossy truncated exchange rate (compute_swap panics)",
 "C03g": "a post-deposit reserve ratio beyond about 6e17 at amp 1 (the solver stops after 32 steps and returns a too-high D)",
 "C03h": "a stableswap pair with liquidity, assets listed in reverse pool order, an unbalanced pool or deposit",
 "C03i": "stableswap pair with decimals[0] < decimals[1], asset[1] offered on the execute path with a belief price",
 "C04g": "a ramp up to a target in 10*current+1 ..= 10*current+9",
 "C04h": "a 3pool deposit whose second and third amounts differ, third asset native",
 "C04i": "3pool swap offering an asset that already has uncollected protocol fees (the way back of a there-and-back swap)",
 "C05g": "a share price not representable with 18 decimals and deposits of about 1e18 base units or more",
 "C05h": "flash loan with protocol fee -> CollectProtocolFees -> a deposit",
 "C05i": "a cw20-asset vault and a borrower depositing the borrowed tokens inside its (single) loan callback",
 "C06g": "a non-zero burn fee and a loan where burn_share*loan is not an integer (exact repayment of the quote reverts)",
 "C06h": "a vault whose protocol and flash-loan fee shares differ",
 "C06i": "a cw20-asset vault plus a borrower whose callback deposits during the loan",
 "C07g": "a collection made while exactly 1 unit of protocol fee is pending",
 "C07h": "3pool: swap with fee above the threshold -> CollectProtocolFees -> another swap",
 "C07i": "a pair with a cw20 asset holding an uncollected fee and a ProvideLiquidity before the next collection",
 "C08g": "a Bond whose attached coin is smaller than the declared amount",
 "C08h": "the same address unbonding the same denom twice at the same block time",
 "C08i": "two unbondings of one denom at different times, withdrawing when only one has matured",
 "C09g": "an address that claimed before and fully unbonded re-bonding in the same second as a new epoch's start with exactly one pending epoch",
 "C09h": "UpdateConfig{distribution_asset} mid-history plus a claim while an epoch funded in the old asset is claimable",
 "C09i": "an epoch holding two assets (old-asset remainder rolled into a new-asset epoch) and any claim on it",
 "C10g": "active take rate with 1 <= rate * balance < 2",
 "C10h": "a take rate other than 50% (the recorded amount is the remainder, not the fee)",
 "C10i": "a registered vault with pending flash-loan fees when NewEpoch runs",
 "C17e": "a pair made of two native coins with deposits paused",
 "C17f": "vault with deposits enabled and withdrawals paused, then a Deposit",
 "C18e": "a high-amp 3pool ramping down and a second (valid) ramp request before the first one ends",
 "C18f": "a growth rate strictly between 1 and 1.01 at instantiate or UpdateConfig of the bonding contract",
 "C19e": "a route of two or more hops whose earlier hop returns 0 for the 1-unit validation swap, followed by an unregistered hop",
 "C19f": "a trio named with its byte-wise smallest asset last in one operation and in another order in the next",
 "C20e": "an epoch manager instantiated with genesis_epoch later than start_epoch.start_time",
 "C20f": "CreateEpoch sent by anyone but the epoch manager's admin (a keeper, or the previous owner)",
 "C09e": "an address that claimed before and fully unbonded (or bonds a second denom) sending Bond in the same block as the new epoch's start, then Claim",
 "C09f": "the migrate path from exactly v0.9.0 with a partially claimed faulty epoch still inside the grace window",
 "C10e": "take rate activated, then an UpdateConfig carrying only is_take_rate_active: Some(false), then a new epoch",
 "C10f": "more than 10 registered pairs with pending fees in a pair beyond the tenth",
 "C11e": "cw20 LP, ExpandPosition with a receiver who holds LP and an allowance towards the incentive contract (second frontend-helper deposit)",
 "C11f": "a frontend-helper deposit whose inner ProvideLiquidity fails (slippage, mismatched funds, deposits disabled)",
 "C12e": "native LP denom equal to a flow's reward denom and an under-paid OpenPosition followed by ClosePosition + Withdraw",
 "C12f": "an instance migrated from 1.0.4/1.0.5 that holds a partially claimed flow",
 "C13e": "an address claiming in epoch L, a flow opened in the same epoch with start L, a different address that never claimed querying then claiming later",
 "C13f": "the same address opening or expanding a position after having closed one",
 "C14e": "a Simulation query on the 3pool while an amplification ramp is in progress",
 "C14f": "at least one pool with a non-zero burn fee on the simulated route",
 "C15e": "3pool, cw20 offer through the Receive hook, belief_price far below the real price",
 "C15f": "constant-product pair with ratio != 1:1, slippage_tolerance given, assets listed in reverse pool order",
 "C16e": "a registered epoch hook and a RemoveHook sent by a non-admin (or the previous owner)",
 "C16f": "CompleteLoan with an empty loaned_assets list sent by anyone but the router",
 "C01e": "a cw20-LP pool and the direct ExecuteMsg::WithdrawLiquidity{} entry with one coin of any denom (amount <= the pair's own locked LP)",
 "C01f": "non-zero uncollected protocol fees when QueryMsg::Pool is asked (reported reserves include the owed fees)",
 "C02e": "uncollected protocol fees accrued by an earlier swap, then a ReverseSimulation",
 "C02f": "an owner UpdateConfig whose three fee shares are each below 100% but sum to >= 100%",
 "C03e": "a position withdrawn in many small pieces whose share of the reserves is fractional",
 "C03f": "a large swap skewing the stableswap pool, then a deposit that brings it back towards balance",
 "C04e": "two fee collections on the same 3pool with fee-generating swaps in between",
 "C04f": "a Simulation query on an imbalanced 3pool while an amplification ramp is in progress",
 "C05e": "a forged direct ExecuteMsg::Receive on the vault with the caller's own address as Cw20ReceiveMsg.sender, amount <= the locked 1000 LP",
 "C05f": "burn fee larger than the flash-loan fee and a borrower repaying principal + protocol + flash-loan fee but not the burn fee (two cooperating lines)",
 "C06e": "a vault whose flash-loan fee share differs from its protocol fee share",
 "C06f": "router proceeds exceeding the quoted payback by exactly one base unit",
 "C07e": "a first loan leaving a pending protocol fee, no collection, then a second loan under-repaid by up to that amount",
 "C07f": "a StableSwap pair whose protocol-fee share differs from its swap-fee share",
 "C08e": "the same address touching the same denom twice in one block, the second touch being a Bond",
 "C08f": "paginating the Unbonding query with start_after equal to an existing record's timestamp",
 "C06c": "a router loan that leaves strictly more than the quoted payback in the router (a profitable borrower); the surplus then goes to the vault instead of the initiator",
 "C06d": "a nested loan on the same vault repaid inside the outer loan's callback, followed by a Deposit while the outer loan is still open",
 "C11c": "a user closing a second position (different unbonding duration) before withdrawing the first",
 "C11d": "an incentive with a native LP denom and an OpenPosition/ExpandPosition whose attached LP coins are fewer than the stated amount",
 "C18c": "a vault over a factory/... asset with a cw20 LP token (token_factory_lp = false) instantiated with a positive burn fee",
 "C18d": "a pair instantiated with fee shares each below 100% whose sum is >= 100% (e.g. 50% + 30% + 20%)",
 "C17c": "a vault with a token-factory LP denom, withdrawals disabled, and the direct ExecuteMsg::Withdraw{} path (feature osmosis_token_factory for the payout to show)",
 "C17d": "a cw20-LP 3pool with swaps paused and withdrawals enabled, then a withdrawal through the cw20 send hook",
 "C19c": "CreatePair for two assets that already have a pair, submitted in the opposite order",
 "C19d": "vault registry holding prefix-related asset references (uusd / uusdc) and a page boundary on the shorter one",
 "C16c": "NextLoan called directly with source_vault = the caller's own address and an asset for which the factory has no vault",
 "C16d": "a vault factory instantiated by an account different from InstantiateMsg.owner",
 "C10c": "a registered pool holding a pending protocol fee in (0, 1000] when the epoch is created",
 "C10d": "a router route registered from the distribution asset to itself (round trip) and > 1000 of it in the collector at NewEpoch",
 "C07c": "a 3pool swap whose ask asset is the pool's third asset",
 "C07d": "two settled flash loans on the same vault without a fee collection in between",
 "C08c": "a Bond carrying more than one coin with the declared one first",
 "C08d": "a user topping up an existing bond of the same denom",
 "C01c": "pending (uncollected) protocol fees and a PARTIAL withdrawal",
 "C01d": "a forged Cw20ReceiveMsg{WithdrawLiquidity} sent directly (or through any unrelated cw20) for at most the pool's own locked LP balance",
 "C04c": "an amplification ramp DOWN in progress and use strictly between start and stop block",
 "C04d": "swap with protocol fee -> CollectProtocolFees (> 1000) -> a later non-initial deposit",
 "C05c": "a nested flash loan repaid inside the outer loan's callback, then a Deposit of the borrowed funds while the outer loan is open",
 "C05d": "a native-asset vault with a cw20 LP token, direct ExecuteMsg::Withdraw{} with one coin of the DEPOSIT denom attached (<= the locked 1000 LP)",
 "C02c": "a pool holding uncollected protocol fees when QueryMsg::Simulation is asked",
 "C02d": "ExecuteMsg::Swap with a non-zero native offer and an EMPTY funds list",
 "C03c": "a skewed stableswap pool and a deposit skewed the same way (balanced pools / equal deposits hide it because D is symmetric)",
 "C03d": "a stableswap deposit that changes reserve0/reserve1 (e.g. equal amounts into a skewed pool)",
 "C13c": "ExpandPosition with receiver: Some(other) where the payer holds a different weight of their own",
 "C13d": "an address with an older unpruned history entry changing its weight in epoch N-1 and the share queried in epoch N",
 "C12c": "user A claims in epoch E, a flow opens later in E, user B does not claim in E, afterwards A always claims before B; a second flow of the same denom backs the excess",
 "C12d": "flow asset and flow fee are the same native denom, declared amount larger than the attached coins (attached >= fee + minimum)",
 "C15c": "a receiver already holding the final asset and a route that under-delivers while previous balance + received >= minimum_receive",
 "C15d": "a constant-product deposit exactly on the slippage bound on the second asset's side (or tolerance 0 with a proportional deposit)",
 "C14c": "3pool swap offering the third asset for the second on a pool where assets 1 and 3 differ",
 "C14d": "non-zero pending vault protocol fees and a share amount where frac(r*balance) < frac(r*fees)",
 "C20c": "owner UpdateConfig on the fee distributor with a sub-day epoch duration, then NewEpoch within the day",
 "C20d": "epoch manager instantiated with start_epoch.id != 0 and an Epoch{id} query for a non-current epoch",
 "C09c": "a claimer whose share exceeds what is left in the epoch (shares summing above 100%), over-weighted bonders claiming first, another funded epoch inside the grace window",
 "C09d": "grace period raised mid-history so that an already-forwarded epoch re-enters the window, and a bonder who has not claimed past it (two cooperating sites)",
 "C06a": "a borrower contract re-entering the vault with Deposit while exactly one loan is outstanding (LOAN_COUNTER == 1); the pinned test injects counter = 2",
 "C06b": "a vault whose flash-loan and protocol fee shares differ, and a borrower repaying less than the quoted payback amount (all repo fixtures use equal shares)",
 "C07a": "CollectProtocolFees while a pending amount is between 1 and 1000 (existing tests collect far above the threshold or at zero)",
 "C07b": "a vault fee configuration where flash_loan_fee.share != protocol_fee.share, then loan / collect sequences",
 "C08a": "a block time that is not a whole number of seconds after the unbond, e.g. T + period - 1ns",
 "C08b": "the same address unbonding the same denom twice at the same block timestamp",
 "C12a": "a flow expanded on at least two different epochs and then closed",
 "C12b": "expanding a native flow with an attached coin larger than the declared amount",
 "C14a": "a pool whose two assets carry different pending protocol fees when the simulation is queried",
 "C14b": "3-pool simulation in the single direction offer=2nd asset, ask=3rd asset, on an imbalanced pool",
 "C16a": "the router's wasm admin transferred away from the creator, then the creator managing routes",
 "C16b": "an unauthorised UpdateConfig on the fee collector with owner: None (the pinned negative test sends owner: Some(..))",
 "C17a": "a pool whose LP token is a token-factory denom, withdrawals paused, WithdrawLiquidity{} sent as a direct message",
 "C17b": "an operator update leaving the vault's deposit and withdraw switches at different values, then a deposit/withdrawal",
 "C18a": "a vault over a factory/... denom with a cw20 LP token receiving a positive burn fee through UpdateConfig",
 "C18b": "UpdateConfig on the fee distributor carrying an epoch duration below one day",
 "C19a": "more than one page of trios with the trio at a page boundary created with its assets in non-ascending order",
 "C19b": "re-submitting AddSwapRoutes for an already stored (offer, ask) key with a hop through an unregistered pair",
 "C20a": "epoch creation at least two full durations late in the fee distributor",
 "C01a": "deposit -> swaps accruing > 1000 protocol fees -> CollectProtocolFees -> another deposit (the two ledgers coincide until the first collection)",
 "C01b": "a native offer at pool index 1 (native/native pair or [cw20, native]) whose declared amount is not backed by the attached funds",
 "C02a": "large reserves: offer_pool + offer > 1e18 with a tiny non-zero remainder (results unchanged for the reserve sizes used in tests)",
 "C02b": "offer_pool + offer >= 2^128 while all results still fit in 128 bits",
 "C03a": "a stableswap pair with unequal decimals, offering the second asset, with a belief price given",
 "C03b": "a stableswap pool that is off the peg at deposit time",
 "C04a": "3-pool swap in the single direction second asset -> third asset with unequal first/second reserves",
 "C04b": "an earlier ramp up (so initial_amp < current amp) followed by a ramp down to a target between initial/10 and current/10",
 "C05a": "a borrower contract depositing into the same vault from inside its loan callback while exactly one loan is open",
 "C05b": "a vault over a cw20 asset and a non-first deposit",
 "C09a": "see notes.md",
 "C09b": "see notes.md",
 "C10a": "a fee asset routed through a pool thinner than the fee balance, so simulation succeeds but the real swap fails on max spread",
 "C10b": "take rate switched off while a non-zero rate and a DAO address remain stored",
 "C11a": "Withdraw executed within the unbonding window of a closed position",
 "C11b": "a cw20 pool asset deposited through the frontend helper with an allowance strictly greater than the deposit",
 "C13a": "exactly 100 unclaimed epochs on a still-active flow",
 "C13b": "OpenPosition with receiver: Some(other) while the sender already holds weight",
 "C15a": "`to` set to a third party that already holds more of the final asset than the sender",
 "C15b": "a belief price given, a swap whose computed pool spread is 0, and a pool price worse than the belief price by more than max_spread",
 "C20b": "a second CreateEpoch on the epoch manager before the current epoch expired, after one legitimate creation",
}


def main():
    ids = sys.argv[1:] or sorted(x for x in os.listdir(SRC) if re.match(r"^C\d\d[a-z]$", x))
    for i in ids:
        d = os.path.join(SRC, i)
        cj = os.path.join(d, "confirm.json")
        if not os.path.exists(cj):
            print(i, "no confirm.json yet")
            continue
        c = json.load(open(cj))
        if not c.get("confirmed"):
            print(i, "NOT confirmed:", {k: v for k, v in c.items() if not k.endswith("_log")})
            continue
        out = os.path.join(VERIF, "seeded", i)
        os.makedirs(out, exist_ok=True)
        for f in ("patch.diff", "demo.diff", "notes.md"):
            if os.path.exists(os.path.join(d, f)):
                shutil.copy(os.path.join(d, f), os.path.join(out, f))
        for k in list(c):
            if k.endswith("_log"):
                c[k] = c[k][-600:]
        json.dump(c, open(os.path.join(out, "confirm.json"), "w"), indent=1)
        meta = {
            "id": i,
            "property": i[:3],
            "origin": "fresh sub-agent given only the property text and its own scratch worktree of /repo (nothing from /verif)",
            "needs_to_manifest": NEEDS.get(i, "see notes.md"),
            "confirmed_by": "selftest/confirm_seeded.py in a scratch worktree: (i) demo passes on the unmodified tree, (ii) demo fails with the change, "
                            "(iii) unedited suite passes with the change (%s passed, %s failed)" % (c.get("iii_suite_passed"), c.get("iii_suite_failed")),
            "demo_tests": c.get("demo_tests"),
        }
        mp = os.path.join(out, "meta.json")
        if os.path.exists(mp):
            old = json.load(open(mp))
            for k in ("detected_by", "detection_history"):
                if k in old:
                    meta[k] = old[k]
        json.dump(meta, open(mp, "w"), indent=1)
        print(i, "adopted")


if __name__ == "__main__":
    main()
