#!/usr/bin/env python3
"""Hand-written single-site mutants (development aid): each replaces one source fragment in /repo, runs the
property's check, expects a VIOLATION, and restores the file. Neutral edits must stay silent.
usage: own_mutants.py [name-substring]"""
import os, re, subprocess, sys, json

VERIF = os.path.dirname(os.path.dirname(os.path.abspath(__file__)))
REPO = "/repo"
L = "contracts/liquidity_hub/"
PN = L + "pool-network/"
VN = L + "vault-network/"

# (name, property, file, old, new, expect_violation)
M = [
 ("trio-update_config-no-owner-check", "C16", PN+"stableswap_3pool/src/commands.rs",
  'if deps.api.addr_validate(info.sender.as_str())? != config.owner {\n        return Err(ContractError::Std(StdError::generic_err("unauthorized")));\n    }', '', True),
 ("factory-removepair-before-owner-check", "C16", PN+"terraswap_factory/src/contract.rs",
  'let config: Config = CONFIG.load(deps.storage)?;', 'if let ExecuteMsg::RemovePair { asset_infos } = msg { return commands::remove_pair(deps, env, asset_infos); }\n    let config: Config = CONFIG.load(deps.storage)?;', True),
 ("vault-callback-guard-compares-wrong", "C16", VN+"vault/src/execute/callback/mod.rs",
  'if info.sender != env.contract.address {', 'if info.sender == env.contract.address {', True),
 ("collector-forward-fees-guard-owner", "C16", L+"fee_collector/src/commands.rs",
  'if info.sender != config.fee_distributor {', 'if info.sender != config.owner {', True),
 ("pair-hook-swap-checks-deposits-flag", "C17", PN+"terraswap_pair/src/commands.rs",
  'if !feature_toggle.swaps_enabled {', 'if !feature_toggle.deposits_enabled {', True),
 ("vault-instantiate-flash-disabled", "C17", VN+"vault/src/contract.rs", 'flash_loan_enabled: true,', 'flash_loan_enabled: false,', True),
 ("pair-update_config-drop-fee-validation", "C18", PN+"terraswap_pair/src/commands.rs",
  'pool_fees.is_valid()?;\n        config.pool_fees = pool_fees;', 'config.pool_fees = pool_fees;', True),
 ("distributor-grace-31", "C18", L+"fee_distributor/src/helpers.rs", 'const MAX_GRACE_PERIOD: u64 = 30u64;', 'const MAX_GRACE_PERIOD: u64 = 31u64;', True),
 ("lair-growth-rate-ge", "C18", L+"whale_lair/src/helpers.rs", 'if growth_rate > Decimal::percent(100) {', 'if growth_rate >= Decimal::percent(100) {', True),
 ("collector-take-rate-le", "C18", L+"fee_collector/src/commands.rs", 'take_rate < Decimal::one(),', 'take_rate <= Decimal::one(),', True),
 ("epoch-manager-le", "C20", L+"epoch-manager/src/commands.rs", '< config.epoch_config.duration.u64()\n    {\n        return Err(ContractError::CurrentEpochNotExpired);', '<= config.epoch_config.duration.u64()\n    {\n        return Err(ContractError::CurrentEpochNotExpired);', True),
 ("epoch-manager-id-plus-2", "C20", L+"epoch-manager/src/commands.rs", '.checked_add(1u64)', '.checked_add(2u64)', True),
 ("distributor-start-from-block-time", "C20", L+"fee_distributor/src/commands.rs",
  'current_epoch\n                .start_time\n                .plus_nanos(config.epoch_config.duration.u64())', 'env.block.time', True),
 ("pair-swap-drop-alltime-ledger", "C07", PN+"terraswap_pair/src/commands.rs",
  'store_fee(\n        deps.storage,\n        swap_computation.protocol_fee_amount,\n        ask_pool.clone().get_id(),\n        ALL_TIME_COLLECTED_PROTOCOL_FEES,\n    )?;', '', True),
 ("pair-swap-fee-keyed-by-offer", "C07", PN+"terraswap_pair/src/commands.rs",
  'swap_computation.protocol_fee_amount,\n        ask_pool.clone().get_id(),\n        COLLECTED_PROTOCOL_FEES,', 'swap_computation.protocol_fee_amount,\n        offer_pool.clone().get_id(),\n        COLLECTED_PROTOCOL_FEES,', True),
 ("vault-collect-to-owner", "C07", VN+"vault/src/execute/collect_protocol_fee.rs", 'into_msg(config.fee_collector_addr)?', 'into_msg(config.owner)?', True),
 ("vault-deposit-drop-messages", "C05", VN+"vault/src/execute/deposit.rs", 'if loan_counter != 0 {', 'if loan_counter > 1 {', True),
 ("flash-loan-callback-before-borrower", "C06", VN+"vault/src/execute/flash_loan.rs",
  '    // add callback msg to messages\n    messages.push(\n        WasmMsg::Execute {\n            contract_addr: info.sender.into_string(),\n            msg,\n            funds: callback_funds,\n        }\n        .into(),\n    );\n', '', True),
 ("after-trade-ge", "C06", VN+"vault/src/execute/callback/after_trade.rs", 'if required_amount > new_balance {', 'if required_amount >= new_balance {', True),
 ("payback-drop-burn-fee", "C06", VN+"vault/src/queries/get_payback_amount.rs", '.checked_add(flash_loan_fee)?\n        .checked_add(burn_fee)?;', '.checked_add(flash_loan_fee)?;', True),
 ("trio-sim-swap-pools", "C14", PN+"stableswap_3pool/src/queries.rs",
  '            ask_pool = pools[0].clone();\n            offer_pool = pools[1].clone();\n            unswapped_pool = pools[2].clone();\n        } else if offer_asset.info.equal(&pools[2].info) {\n            ask_pool = pools[0].clone();\n            offer_pool = pools[2].clone();\n            unswapped_pool = pools[1].clone();',
  '            ask_pool = pools[0].clone();\n            offer_pool = pools[2].clone();\n            unswapped_pool = pools[1].clone();\n        } else if offer_asset.info.equal(&pools[2].info) {\n            ask_pool = pools[0].clone();\n            offer_pool = pools[2].clone();\n            unswapped_pool = pools[1].clone();', True),
 ("pair-sim-response-wrong-field", "C14", PN+"terraswap_pair/src/queries.rs", 'protocol_fee_amount: swap_computation.protocol_fee_amount,', 'protocol_fee_amount: swap_computation.swap_fee_amount,', True),
 ("factory-trio-key-unsorted", "C19", PN+"terraswap_factory/src/state.rs",
  'pub fn trio_key(asset_infos: &[AssetInfoRaw; 3]) -> Vec<u8> {\n    let mut asset_infos = asset_infos.to_vec();\n    asset_infos.sort_by(|a, b| a.as_bytes().cmp(b.as_bytes()));',
  'pub fn trio_key(asset_infos: &[AssetInfoRaw; 3]) -> Vec<u8> {\n    let asset_infos = asset_infos.to_vec();', True),
 ("lair-validate-funds-drop-denom", "C08", L+"whale_lair/src/helpers.rs", '        || info.funds[0].denom != denom\n', '', True),
 ("lair-withdraw-gt", "C08", L+"whale_lair/src/commands.rs", 'if timestamp.minus_nanos(config.unbonding_period.u64()) >= bond.timestamp {', 'if timestamp.minus_nanos(config.unbonding_period.u64()) > bond.timestamp {', True),
 ("incentive-vfs-allowance-zero", "C11", PN+"incentive/src/funds_validation.rs", 'if allowance.allowance < amount {', 'if allowance.allowance.is_zero() {', True),
 ("collector-forward-reply-always", "C10", L+"fee_collector/src/commands.rs", 'reply_on: ReplyOn::Success,\n    };\n\n    messages.push(vaults_fee_collection_msg);', 'reply_on: ReplyOn::Always,\n    };\n\n    messages.push(vaults_fee_collection_msg);', True),
 ("distributor-claim-claimed-not-updated", "C09", L+"fee_distributor/src/commands.rs", 'claimed_fee.amount = claimed_fee.amount.checked_add(reward)?;', 'claimed_fee.amount = claimed_fee.amount.checked_add(cosmwasm_std::Uint128::zero())?;', True),
 ("incentive-claim-ge-emission", "C13", PN+"incentive/src/claim.rs", 'if user_reward_at_epoch > emission_per_epoch\n', 'if user_reward_at_epoch > emission_per_epoch.checked_add(Uint128::one())?\n', True),
 ("get-rewards-one-sided", "C13", PN+"incentive/src/queries/get_rewards.rs", '.saturating_sub(emitted_tokens)', '.saturating_sub(emitted_tokens).saturating_sub(Uint128::one())', True),
 ("router-min-receive-le", "C15", PN+"terraswap_router/src/contract.rs", 'if swap_amount < minimum_receive {', 'if swap_amount <= minimum_receive {', True),
 ("pair-swap-spread-args-swapped", "C15", PN+"terraswap_pair/src/commands.rs", 'swap::assert_max_spread(\n        belief_price,\n        max_spread,', 'swap::assert_max_spread(\n        max_spread,\n        belief_price,', True),
 ("pair-query-pool-no-fee-deduction", "C01", PN+"terraswap_pair/src/queries.rs", 'amount: asset.amount - protocol_fee,', 'amount: asset.amount,', True),
 ("compute-swap-spread-sub", "C02", PN+"terraswap_pair/src/helpers.rs", '(offer_amount * exchange_rate).saturating_sub(return_amount);', '(offer_amount * exchange_rate) - return_amount;', True),
 ("trio-ramp-min-blocks-dropped", "C04", PN+"stableswap_3pool/src/commands.rs", 'if ramp.future_block < env.block.height + MIN_RAMP_BLOCKS {', 'if ramp.future_block < env.block.height {', True),
 ("open-flow-fee-amount-wrong", "C12", PN+"incentive/src/execute/open_flow.rs", 'amount: vec![Coin {\n                        amount: flow_fee.amount,\n                        denom: flow_fee_denom,', 'amount: vec![Coin {\n                        amount: paid_amount,\n                        denom: flow_fee_denom,', True),

 # ---- session 3: rules added after the second mutation round --------------------------------------------------
 ("trio-compute_d-c-uses-b", "C04", PN+"stableswap_3pool/src/stableswap_math/curve.rs", 'let amount_c_times_coins = amount_c.checked_mul(N_COINS.into()).unwrap();', 'let amount_c_times_coins = amount_b.checked_mul(N_COINS.into()).unwrap();', True),
 ("trio-mint-helper-crossed", "C04", PN+"stableswap_3pool/src/stableswap_math/curve.rs", 'swap_amount_c.checked_add(deposit_amount_c).unwrap(),', 'swap_amount_c.checked_add(deposit_amount_b).unwrap(),', True),
 ("trio-mint-call-deposits-swapped", "C04", PN+"stableswap_3pool/src/commands.rs", '.compute_mint_amount_for_deposit(\n                deposits[0],\n                deposits[1],', '.compute_mint_amount_for_deposit(\n                deposits[1],\n                deposits[0],', True),
 ("trio-ramp-up-divide-first", "C04", PN+"stableswap_3pool/src/stableswap_math/curve.rs",
  '.checked_sub(self.initial_amp_factor)?;\n                let amp_delta = (amp_range as u128)\n                    .checked_mul(time_delta.to_u128()?)?\n                    .checked_div(time_range.to_u128()?)?',
  '.checked_sub(self.initial_amp_factor)?;\n                let amp_delta = (amp_range as u128)\n                    .checked_div(time_range.to_u128()?)?\n                    .checked_mul(time_delta.to_u128()?)?', True),
 ("pair-slippage-stable-ge", "C15", PN+"terraswap_pair/src/helpers.rs", 'if pool_ratio * one_minus_slippage_tolerance > deposit_ratio {', 'if pool_ratio * one_minus_slippage_tolerance >= deposit_ratio {', True),
 ("vault-direct-withdraw-len-dropped", "C05", VN+"vault/src/contract.rs", 'if info.funds.len() != 1 || info.funds[0].denom != lp_token_denom {', 'if info.funds[0].denom != lp_token_denom {', True),
 ("distributor-claimable-filter-claimed", "C09", L+"fee_distributor/src/state.rs", 'claimable_epochs.retain(|epoch| !epoch.available.is_empty());', 'claimable_epochs.retain(|epoch| !epoch.claimed.is_empty());', True),
 ("incentive-get_rewards-range-exclusive", "C13", PN+"incentive/src/queries/get_rewards.rs", 'for epoch_id in first_claimable_epoch..=current_epoch {', 'for epoch_id in first_claimable_epoch..current_epoch {', True),
 ("factory-cursor-byte-z", "C19", PN+"terraswap_factory/src/state.rs", '            .to_vec();\n        v.push(1);\n        v\n    })\n}\n\npub fn read_trios', "            .to_vec();\n        v.push(b'z');\n        v\n    })\n}\n\npub fn read_trios", True),
 ("router-nextloan-initiator-self", "C06", VN+"vault_router/src/execute/flash_loan.rs", 'initiator: info.sender,', 'initiator: cosmwasm_std::Addr::unchecked(vault.to_string()),', True),
 ("vault-owner-from-sender", "C16", VN+"vault/src/contract.rs", 'owner: deps.api.addr_validate(&msg.owner)?,', 'owner: deps.api.addr_validate(env.contract.address.as_str())?,', True),
 ("incentive-open-position-fresh-list", "C11", PN+"incentive/src/execute/open_position.rs", 'let mut positions = positions.unwrap_or_default();', 'let mut positions = positions.map(|_| Vec::new()).unwrap_or_default();', True),
 ("pair-ledger-init-duplicate-asset", "C07", PN+"terraswap_pair/src/contract.rs", 'asset_info_0.clone(),\n        asset_info_1.clone(),\n        ALL_TIME_COLLECTED_PROTOCOL_FEES,', 'asset_info_0.clone(),\n        asset_info_0.clone(),\n        ALL_TIME_COLLECTED_PROTOCOL_FEES,', True),
 ("NEUTRAL-trio-ramp-up-commuted", "C04", PN+"stableswap_3pool/src/stableswap_math/curve.rs",
  '.checked_sub(self.initial_amp_factor)?;\n                let amp_delta = (amp_range as u128)\n                    .checked_mul(time_delta.to_u128()?)?',
  '.checked_sub(self.initial_amp_factor)?;\n                let amp_delta = time_delta.to_u128()?\n                    .checked_mul(amp_range as u128)?', False),
 ("NEUTRAL-pair-compute_d-operator-mul", "C03", PN+"terraswap_pair/src/helpers.rs",
  'let amount_a_times_coins = amount_a.checked_mul(n_coins).unwrap();\n        let amount_b_times_coins = amount_b.checked_mul(n_coins).unwrap();',
  'let amount_a_times_coins = amount_a * n_coins;\n        let amount_b_times_coins = n_coins * amount_b;', False),
 ("NEUTRAL-pair-mint-helper-operator-add", "C03", PN+"terraswap_pair/src/helpers.rs",
  'swap_amount_a.checked_add(deposit_amount_a).unwrap(),\n        swap_amount_b.checked_add(deposit_amount_b).unwrap(),', 'deposit_amount_a + swap_amount_a,\n        swap_amount_b + deposit_amount_b,', False),
 ("NEUTRAL-vault-direct-withdraw-demorgan", "C05", VN+"vault/src/contract.rs", 'if info.funds.len() != 1 || info.funds[0].denom != lp_token_denom {', 'if !(info.funds.len() == 1 && lp_token_denom == info.funds[0].denom) {', False),
 ("NEUTRAL-pair-withdraw-extra-binding", "C01", PN+"terraswap_pair/src/commands.rs", 'let refund_amount = pool_asset.amount.checked_sub(protocol_fee)?;', 'let net_of_fees = pool_asset.amount.checked_sub(protocol_fee)?;\n            let refund_amount = net_of_fees;', False),
 ("NEUTRAL-incentive-share-range-plus-one", "C13", PN+"incentive/src/queries/get_rewards_share.rs", 'for epoch_id in start_epoch..=current_epoch {', 'for epoch_id in start_epoch..current_epoch + 1 {', False),
 ("NEUTRAL-incentive-claim-sum-commuted", "C12", PN+"incentive/src/claim.rs", '|| user_reward_at_epoch.checked_add(flow.claimed_amount)? > *expanded_asset_amount', '|| *expanded_asset_amount < flow.claimed_amount.checked_add(user_reward_at_epoch)?', False),
 ("NEUTRAL-pair-slippage-flipped", "C15", PN+"terraswap_pair/src/helpers.rs",
  '|| Decimal256::from_ratio(deposits[1], deposits[0])\n                        * one_minus_slippage_tolerance\n                        > Decimal256::from_ratio(pools[1], pools[0])',
  '|| Decimal256::from_ratio(pools[1], pools[0])\n                        < one_minus_slippage_tolerance * Decimal256::from_ratio(deposits[1], deposits[0])', False),
 ("NEUTRAL-distributor-claim-ok_or", "C09", L+"fee_distributor/src/commands.rs", '.ok_or_else(|| StdError::generic_err("Invalid fee"))?;', '.ok_or(StdError::generic_err("Invalid fee"))?;', False),
 ("NEUTRAL-router-nextloan-initiator-clone", "C06", VN+"vault_router/src/execute/next_loan.rs", 'msg: to_json_binary(&ExecuteMsg::CompleteLoan {\n                        initiator,', 'msg: to_json_binary(&ExecuteMsg::CompleteLoan {\n                        initiator: initiator.clone(),', False),
 ("NEUTRAL-vault-factory-owner-as_str", "C16", VN+"vault_factory/src/contract.rs", 'owner: deps.api.addr_validate(&msg.owner)?,', 'owner: deps.api.addr_validate(msg.owner.as_str())?,', False),
 ("NEUTRAL-vault-burn-test-reordered", "C18", VN+"vault/src/contract.rs", 'if has_factory_token(&[msg.asset_info.clone()])\n        && msg.vault_fees.burn_fee.share > Decimal::zero()\n    {', 'if msg.vault_fees.burn_fee.share > Decimal::zero()\n        && has_factory_token(&[msg.asset_info.clone()])\n    {', False),
 ("NEUTRAL-incentive-close-unwrap_or_else", "C11", PN+"incentive/src/execute/close_position.rs", 'let mut closed_positions = closed_positions.unwrap_or_default();', 'let mut closed_positions = closed_positions.unwrap_or_else(Vec::new);', False),
 ("NEUTRAL-factory-cursor-byte-0", "C19", VN+"vault_factory/src/state.rs", 'v.push(1);', 'v.push(0);', False),
 ("NEUTRAL-lair-bond-assets-binding", "C08", L+"whale_lair/src/commands.rs", 'asset::aggregate_assets(global_index.bonded_assets, vec![asset.clone()])?;', 'asset::aggregate_assets(global_index.bonded_assets, { let declared = asset.clone(); vec![declared] })?;', False),

 ("NEUTRAL-trio-sim-height-binding", "C04", PN+"stableswap_3pool/src/queries.rs", '    let invariant = StableSwap::new(\n        config.initial_amp,\n        config.future_amp,\n        current_block,', '    let now_height = current_block;\n    let invariant = StableSwap::new(\n        config.initial_amp,\n        config.future_amp,\n        now_height,', False),
 ("NEUTRAL-router-profit-gt-zero", "C06", VN+"vault_router/src/execute/complete_loan.rs", 'if !profit_amount.is_zero() {', 'if profit_amount > cosmwasm_std::Uint128::zero() {', False),
 ("NEUTRAL-lair-unbonding-typed-bound", "C08", L+"whale_lair/src/queries.rs", 'let start = calc_range_start(start_after).map(Bound::ExclusiveRaw);', 'let _unused = calc_range_start(None);\n    let start = start_after.map(Bound::exclusive);', False),
 ("NEUTRAL-pair-next_d-ann-commuted", "C03", PN+"terraswap_pair/src/helpers.rs", 'let ann = amp_factor.checked_mul(n_coins.u128() as u64)?;', 'let ann = (n_coins.u128() as u64).checked_mul(*amp_factor)?;', False),
 ("NEUTRAL-pair-collect-threshold-flipped", "C07", PN+"terraswap_pair/src/commands.rs", 'if protocol_fee.amount > MINIMUM_COLLECTABLE_BALANCE {', 'if MINIMUM_COLLECTABLE_BALANCE < protocol_fee.amount {', False),
 ("NEUTRAL-trio-slippage-flipped", "C15", PN+"stableswap_3pool/src/helpers.rs", 'if pool_ratio * one_minus_slippage_tolerance > deposit_ratio {', 'if deposit_ratio < one_minus_slippage_tolerance * pool_ratio {', False),
 ("NEUTRAL-vault-required-amount-reordered", "C06", VN+"vault/src/execute/callback/after_trade.rs", '.checked_add(protocol_fee)?\n        .checked_add(flash_loan_fee)?\n        .checked_add(burn_fee)?;', '.checked_add(burn_fee)?\n        .checked_add(flash_loan_fee)?\n        .checked_add(protocol_fee)?;', False),
 ("NEUTRAL-vault-required-amount-reordered-C05", "C05", VN+"vault/src/execute/callback/after_trade.rs", '.checked_add(protocol_fee)?\n        .checked_add(flash_loan_fee)?\n        .checked_add(burn_fee)?;', '.checked_add(burn_fee)?\n        .checked_add(flash_loan_fee)?\n        .checked_add(protocol_fee)?;', False),
 ("NEUTRAL-distributor-claimable-len", "C09", L+"fee_distributor/src/state.rs", 'claimable_epochs.retain(|epoch| !epoch.available.is_empty());', 'claimable_epochs.retain(|epoch| epoch.available.len() > 0);', False),
 ("NEUTRAL-lair-local-weight-reordered", "C08", L+"whale_lair/src/state.rs",
  '    bond.timestamp = timestamp;\n\n    let denom: &String = match &bond.asset.info {\n        AssetInfo::Token { .. } => return Err(ContractError::AssetMismatch {}),\n        AssetInfo::NativeToken { denom } => denom,\n    };\n',
  '    let denom: String = match &bond.asset.info {\n        AssetInfo::Token { .. } => return Err(ContractError::AssetMismatch {}),\n        AssetInfo::NativeToken { denom } => denom.clone(),\n    };\n    let denom = &denom;\n    bond.timestamp = timestamp;\n', False),

 ("NEUTRAL-router-complete-loan-early-ok-after-guard", "C16", VN+"vault_router/src/execute/complete_loan.rs", '        return Err(VaultRouterError::Unauthorized {});\n    }\n', '        return Err(VaultRouterError::Unauthorized {});\n    }\n    if assets.is_empty() {\n        return Ok(Response::new());\n    }\n', False),
 ("NEUTRAL-trio-hook-belief-binding", "C15", PN+"stableswap_3pool/src/commands.rs", '                ask_asset,\n                belief_price,\n                max_spread,\n                to_addr,\n            )', '                ask_asset,\n                { let believed = belief_price; believed },\n                max_spread,\n                to_addr,\n            )', False),
 ("NEUTRAL-collector-config-blocks-reordered", "C10", L+"fee_collector/src/commands.rs",
  '    if let Some(take_rate_dao_address) = take_rate_dao_address {\n        config.take_rate_dao_address = deps.api.addr_validate(&take_rate_dao_address)?;\n    }\n\n    if let Some(is_take_rate_active) = is_take_rate_active {\n        config.is_take_rate_active = is_take_rate_active;\n    }',
  '    if let Some(is_take_rate_active) = is_take_rate_active {\n        config.is_take_rate_active = is_take_rate_active;\n    }\n\n    if let Some(take_rate_dao_address) = take_rate_dao_address {\n        config.take_rate_dao_address = deps.api.addr_validate(&take_rate_dao_address)?;\n    }', False),
 ("NEUTRAL-collector-pairs-limit-binding", "C10", L+"fee_collector/src/commands.rs", 'msg: to_json_binary(&QueryMsg::Pairs { start_after, limit })?,\n                }))?;\n\n            for pair in response.pairs {\n                result.push(collect_fees_for_contract(', 'msg: to_json_binary(&QueryMsg::Pairs { start_after, limit: { let page = limit; page } })?,\n                }))?;\n\n            for pair in response.pairs {\n                result.push(collect_fees_for_contract(', False),
 ("NEUTRAL-lair-bond-validations-reordered", "C09", L+"whale_lair/src/commands.rs", '    helpers::validate_funds(&deps, &info, &asset, denom.clone())?;\n    helpers::validate_claimed(&deps, &info)?;\n    helpers::validate_bonding_for_current_epoch(&deps, &env)?;', '    helpers::validate_bonding_for_current_epoch(&deps, &env)?;\n    helpers::validate_claimed(&deps, &info)?;\n    helpers::validate_funds(&deps, &info, &asset, denom.clone())?;', False),
 ("NEUTRAL-lair-bond-validations-reordered-C08", "C08", L+"whale_lair/src/commands.rs", '    helpers::validate_funds(&deps, &info, &asset, denom.clone())?;\n    helpers::validate_claimed(&deps, &info)?;\n    helpers::validate_bonding_for_current_epoch(&deps, &env)?;', '    helpers::validate_bonding_for_current_epoch(&deps, &env)?;\n    helpers::validate_claimed(&deps, &info)?;\n    helpers::validate_funds(&deps, &info, &asset, denom.clone())?;', False),
 ("NEUTRAL-incentive-migration-no-clone", "C12", PN+"incentive/src/migrations.rs", 'claimed_amount: f.clone().claimed_amount,', 'claimed_amount: f.claimed_amount,', False),
 ("NEUTRAL-pair-swap-extra-attribute-C01", "C01", PN+"terraswap_pair/src/commands.rs", '    Ok(Response::new().add_messages(messages).add_attributes(vec![\n        ("action", "swap"),', '    let wwv_note = format!("{}", messages.len());\n    Ok(Response::new().add_messages(messages).add_attribute("n_messages", wwv_note).add_attributes(vec![\n        ("action", "swap"),', False),
 ("NEUTRAL-pair-swap-extra-attribute-C02", "C02", PN+"terraswap_pair/src/commands.rs", '    Ok(Response::new().add_messages(messages).add_attributes(vec![\n        ("action", "swap"),', '    let wwv_note = format!("{}", messages.len());\n    Ok(Response::new().add_messages(messages).add_attribute("n_messages", wwv_note).add_attributes(vec![\n        ("action", "swap"),', False),
 ("NEUTRAL-pair-swap-extra-attribute-C07", "C07", PN+"terraswap_pair/src/commands.rs", '    Ok(Response::new().add_messages(messages).add_attributes(vec![\n        ("action", "swap"),', '    let wwv_note = format!("{}", messages.len());\n    Ok(Response::new().add_messages(messages).add_attribute("n_messages", wwv_note).add_attributes(vec![\n        ("action", "swap"),', False),
 ("NEUTRAL-pair-swap-extra-attribute-C14", "C14", PN+"terraswap_pair/src/commands.rs", '    Ok(Response::new().add_messages(messages).add_attributes(vec![\n        ("action", "swap"),', '    let wwv_note = format!("{}", messages.len());\n    Ok(Response::new().add_messages(messages).add_attribute("n_messages", wwv_note).add_attributes(vec![\n        ("action", "swap"),', False),
 ("NEUTRAL-pair-swap-extra-attribute-C15", "C15", PN+"terraswap_pair/src/commands.rs", '    Ok(Response::new().add_messages(messages).add_attributes(vec![\n        ("action", "swap"),', '    let wwv_note = format!("{}", messages.len());\n    Ok(Response::new().add_messages(messages).add_attribute("n_messages", wwv_note).add_attributes(vec![\n        ("action", "swap"),', False),
 ("NEUTRAL-pair-swap-extra-attribute-C17", "C17", PN+"terraswap_pair/src/commands.rs", '    Ok(Response::new().add_messages(messages).add_attributes(vec![\n        ("action", "swap"),', '    let wwv_note = format!("{}", messages.len());\n    Ok(Response::new().add_messages(messages).add_attribute("n_messages", wwv_note).add_attributes(vec![\n        ("action", "swap"),', False),
 ("NEUTRAL-pair-swap-extra-attribute-C16", "C16", PN+"terraswap_pair/src/commands.rs", '    Ok(Response::new().add_messages(messages).add_attributes(vec![\n        ("action", "swap"),', '    let wwv_note = format!("{}", messages.len());\n    Ok(Response::new().add_messages(messages).add_attribute("n_messages", wwv_note).add_attributes(vec![\n        ("action", "swap"),', False),
 ("NEUTRAL-pair-swap-fee-deduction-rebound-C01", "C01", PN+"terraswap_pair/src/commands.rs", '            let protocol_fee =\n                get_protocol_fee_for_asset(collected_protocol_fees.clone(), pool.clone().get_id());\n            pool.amount = pool.amount.checked_sub(protocol_fee)?;\n\n            if pool.info.equal(&offer_asset.info) {', '            let pool_id = pool.clone().get_id();\n            let protocol_fee = get_protocol_fee_for_asset(collected_protocol_fees.clone(), pool_id);\n            let net = pool.amount.checked_sub(protocol_fee)?;\n            pool.amount = net;\n\n            if pool.info.equal(&offer_asset.info) {', False),
 ("NEUTRAL-pair-swap-fee-deduction-rebound-C02", "C02", PN+"terraswap_pair/src/commands.rs", '            let protocol_fee =\n                get_protocol_fee_for_asset(collected_protocol_fees.clone(), pool.clone().get_id());\n            pool.amount = pool.amount.checked_sub(protocol_fee)?;\n\n            if pool.info.equal(&offer_asset.info) {', '            let pool_id = pool.clone().get_id();\n            let protocol_fee = get_protocol_fee_for_asset(collected_protocol_fees.clone(), pool_id);\n            let net = pool.amount.checked_sub(protocol_fee)?;\n            pool.amount = net;\n\n            if pool.info.equal(&offer_asset.info) {', False),
 ("NEUTRAL-pair-swap-fee-deduction-rebound-C07", "C07", PN+"terraswap_pair/src/commands.rs", '            let protocol_fee =\n                get_protocol_fee_for_asset(collected_protocol_fees.clone(), pool.clone().get_id());\n            pool.amount = pool.amount.checked_sub(protocol_fee)?;\n\n            if pool.info.equal(&offer_asset.info) {', '            let pool_id = pool.clone().get_id();\n            let protocol_fee = get_protocol_fee_for_asset(collected_protocol_fees.clone(), pool_id);\n            let net = pool.amount.checked_sub(protocol_fee)?;\n            pool.amount = net;\n\n            if pool.info.equal(&offer_asset.info) {', False),
 ("NEUTRAL-pair-swap-fee-deduction-rebound-C14", "C14", PN+"terraswap_pair/src/commands.rs", '            let protocol_fee =\n                get_protocol_fee_for_asset(collected_protocol_fees.clone(), pool.clone().get_id());\n            pool.amount = pool.amount.checked_sub(protocol_fee)?;\n\n            if pool.info.equal(&offer_asset.info) {', '            let pool_id = pool.clone().get_id();\n            let protocol_fee = get_protocol_fee_for_asset(collected_protocol_fees.clone(), pool_id);\n            let net = pool.amount.checked_sub(protocol_fee)?;\n            pool.amount = net;\n\n            if pool.info.equal(&offer_asset.info) {', False),
 # neutral edits: must stay silent
 ("NEUTRAL-trio-owner-check-extracted", "C16", PN+"stableswap_3pool/src/commands.rs",
  '    let mut config: Config = CONFIG.load(deps.storage)?;\n    if deps.api.addr_validate(info.sender.as_str())? != config.owner {\n        return Err(ContractError::Std(StdError::generic_err("unauthorized")));\n    }\n\n    if let Some(owner) = owner {\n        // validate address format',
  '    let mut config: Config = CONFIG.load(deps.storage)?;\n    fn wwv_assert_owner(deps: cosmwasm_std::Deps, info: &MessageInfo, config: &Config) -> Result<(), ContractError> {\n        if deps.api.addr_validate(info.sender.as_str())? != config.owner {\n            return Err(ContractError::Std(StdError::generic_err("unauthorized")));\n        }\n        Ok(())\n    }\n    wwv_assert_owner(deps.as_ref(), &info, &config)?;\n\n    if let Some(owner) = owner {\n        // validate address format', False),
 ("NEUTRAL-vault-callback-eq-form", "C16", VN+"vault/src/execute/callback/mod.rs",
  'if info.sender != env.contract.address {\n        return Err(VaultError::ExternalCallback {});\n    }', 'if !(env.contract.address == info.sender) {\n        return Err(VaultError::ExternalCallback {});\n    }', False),
 ("NEUTRAL-lair-growth-rate-flipped", "C18", L+"whale_lair/src/helpers.rs", 'if growth_rate > Decimal::percent(100) {', 'if Decimal::percent(100) < growth_rate {', False),
 ("NEUTRAL-epoch-manager-ge-flipped", "C20", L+"epoch-manager/src/commands.rs",
  '    if env\n        .block\n        .time\n        .minus_nanos(current_epoch.start_time.nanos())\n        .nanos()\n        < config.epoch_config.duration.u64()\n    {\n        return Err(ContractError::CurrentEpochNotExpired);\n    }',
  '    let elapsed = env.block.time.minus_nanos(current_epoch.start_time.nanos()).nanos();\n    if !(elapsed >= config.epoch_config.duration.u64()) {\n        return Err(ContractError::CurrentEpochNotExpired);\n    }', False),
]


def sh(cmd, cwd=VERIF):
    p = subprocess.run(cmd, cwd=cwd, shell=True, capture_output=True, text=True)
    return p.returncode, p.stdout + p.stderr


def main():
    sel = sys.argv[1] if len(sys.argv) > 1 else ""
    rc, out = sh("git status --porcelain", REPO)
    if out.strip():
        print("refusing: /repo has uncommitted changes")
        return 2
    res = {}
    for name, prop, f, old, new, expect in M:
        if sel and sel not in name and sel != prop:
            continue
        path = os.path.join(REPO, f)
        src = open(path).read()
        if src.count(old) < 1:
            print("%-45s SKIP (fragment not found)" % name)
            res[name] = "fragment-missing"
            continue
        try:
            open(path, "w").write(src.replace(old, new, 1))
            rc, out = sh("./check %s" % prop)
            keys = re.findall(r"^  key=(.+)$", out, re.M)
            if rc == 2:
                verdict = "TOOL-FAILURE (does the mutant compile?)"
            else:
                fired = rc == 1
                verdict = ("ok: fired" if fired else "MISSED") if expect else ("ok: silent" if not fired else "FALSE ALARM")
            res[name] = verdict
            print("%-45s %s %s" % (name, prop, verdict))
            for k in keys[:3]:
                print("        ", k[:180])
            if rc == 2:
                print(out[-600:])
        finally:
            open(path, "w").write(src)
    json.dump(res, open(os.path.join(VERIF, "selftest", "own_mutants_results.json"), "w"), indent=1)
    return 0


if __name__ == "__main__":
    sys.exit(main())
