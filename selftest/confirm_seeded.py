#!/usr/bin/env python3
"""Confirm a candidate seeded change independently, in a scratch worktree outside /repo and /verif:
  (i)   the demonstration passes on the unmodified tree,
  (ii)  the demonstration fails with the change applied,
  (iii) the unedited suite still passes with the change applied (demo removed).
usage: confirm_seeded.py <dir with patch.diff and demo.diff> [--keep]
Writes <dir>/confirm.json. The worktree and its build output are removed afterwards."""
import json, os, re, subprocess, sys, shutil, time

REPO = "/repo"


def sh(cmd, cwd, timeout=3600):
    p = subprocess.run(cmd, cwd=cwd, shell=True, capture_output=True, text=True, timeout=timeout)
    return p.returncode, p.stdout + p.stderr


def crate_of(path, wt):
    d = os.path.dirname(os.path.join(wt, path))
    while d.startswith(wt):
        ct = os.path.join(d, "Cargo.toml")
        if os.path.exists(ct):
            m = re.search(r'^name\s*=\s*"([^"]+)"', open(ct).read(), re.M)
            if m:
                return m.group(1)
        d = os.path.dirname(d)
    return None


def main():
    d = os.path.abspath(sys.argv[1])
    name = os.path.basename(d)
    wt = "/tmp/confirm-%s" % name
    res = {"id": name, "at": time.strftime("%Y-%m-%dT%H:%M:%S")}
    sh("git -C %s worktree remove --force %s" % (REPO, wt), "/")
    shutil.rmtree(wt, ignore_errors=True)
    rc, out = sh("git -C %s worktree add --detach %s HEAD" % (REPO, wt), "/")
    if rc:
        print(out)
        return 2
    try:
        sh("cp -a %s/target %s/target" % (REPO, wt), "/")
        demo = open(os.path.join(d, "demo.diff")).read()
        files = re.findall(r"^\+\+\+ b/(.+)$", demo, re.M)
        tests = re.findall(r"^\+\s*(?:pub\s+)?fn\s+(\w+)\s*\(", demo, re.M)
        # keep only functions following a #[test] attribute
        tnames = []
        lines = demo.splitlines()
        for i, l in enumerate(lines):
            m = re.match(r"^\+\s*(?:pub\s+)?fn\s+(\w+)\s*\(", l)
            if m and any("#[test]" in lines[j] for j in range(max(0, i - 3), i)):
                tnames.append(m.group(1))
        crates = sorted({crate_of(f, wt) for f in files if f.endswith(".rs")} - {None})
        res["demo_tests"] = tnames
        res["crates"] = crates
        rc, out = sh("git apply %s/demo.diff" % d, wt)
        if rc:
            res["error"] = "demo.diff does not apply: " + out[-500:]
            return finish(res, d, wt)
        crates = sorted({crate_of(f, wt) for f in files if f.endswith(".rs")} - {None})
        res["crates"] = crates

        def run_demo():
            ok_all = True
            log = ""
            ran = 0
            for c in crates:
                for t in tnames:
                    rc, out = sh("cargo test -p %s --offline %s 2>&1 | tail -40" % (c, t), wt)
                    m = re.findall(r"test result: (\w+)\. (\d+) passed; (\d+) failed", out)
                    for r in m:
                        ran += int(r[1]) + int(r[2])
                        if r[0] != "ok":
                            ok_all = False
                    if "error[" in out or "could not compile" in out:
                        ok_all = False
                    log += out[-1500:]
            return ok_all and ran > 0, ran, log
        ok, ran, log = run_demo()
        res["i_demo_passes_unmodified"] = ok
        res["i_ran"] = ran
        if not ok:
            res["i_log"] = log[-2000:]
        rc, out = sh("git apply %s/patch.diff" % d, wt)
        if rc:
            res["error"] = "patch.diff does not apply: " + out[-500:]
            return finish(res, d, wt)
        ok2, ran2, log2 = run_demo()
        res["ii_demo_fails_with_change"] = (not ok2) and ran2 > 0
        res["ii_log"] = log2[-1500:]
        # (iii) remove demo, keep patch
        sh("git apply -R %s/demo.diff" % d, wt)
        rc, out = sh("cargo test --workspace --no-fail-fast --offline 2>&1 | grep -E '^test result|FAILED|panicked|error' | tail -60", wt)
        passed = sum(int(x) for x in re.findall(r"test result: \w+\. (\d+) passed", out))
        failed = sum(int(x) for x in re.findall(r"passed; (\d+) failed", out))
        res["iii_suite_passed"] = passed
        res["iii_suite_failed"] = failed
        res["iii_ok"] = failed == 0 and passed >= 318
        if not res["iii_ok"]:
            res["iii_log"] = out[-2000:]
        res["confirmed"] = bool(res.get("i_demo_passes_unmodified") and res.get("ii_demo_fails_with_change") and res.get("iii_ok"))
        return finish(res, d, wt)
    finally:
        if "--keep" not in sys.argv:
            shutil.rmtree(os.path.join(wt, "target"), ignore_errors=True)
            sh("git -C %s worktree remove --force %s" % (REPO, wt), "/")


def finish(res, d, wt):
    with open(os.path.join(d, "confirm.json"), "w") as fh:
        json.dump(res, fh, indent=1)
    print(json.dumps({k: v for k, v in res.items() if not k.endswith("_log")}, indent=1))
    return 0 if res.get("confirmed") else 1


if __name__ == "__main__":
    sys.exit(main())
