#!/usr/bin/env python3
"""Behaviour-preserving refactorings (produced by independent sub-agents, each verified to keep the 318-test suite green)
applied one at a time to /repo: EVERY check must stay silent. Any violation printed here is a false alarm to be fixed in the
machinery. usage: run_neutral.py [id ...]   (patches live in /verif/neutral/<id>/patch.diff)"""
import json, os, re, subprocess, sys

VERIF = os.path.dirname(os.path.dirname(os.path.abspath(__file__)))
REPO = os.environ.get("WWV_REPO", "/repo")   # a dev worktree may be used instead of /repo


def sh(cmd, cwd=VERIF):
    p = subprocess.run(cmd, cwd=cwd, shell=True, capture_output=True, text=True)
    return p.returncode, p.stdout + p.stderr


def main():
    base = os.path.join(VERIF, os.environ.get("WWV_NEUTRAL_DIR", "neutral"))
    ids = [a for a in sys.argv[1:] if not a.startswith("--")] or sorted(os.listdir(base))
    props = [c["property_id"] for c in json.load(open(os.path.join(VERIF, "MANIFEST.json")))["checks"]]
    only = [a[8:].split(",") for a in sys.argv[1:] if a.startswith("--props=")]
    if only:
        props = only[0]
    rc, out = sh("git status --porcelain", REPO)
    if out.strip():
        print("refusing: /repo has uncommitted changes")
        return 2
    results = {}
    for i in ids:
        d = os.path.join(base, i)
        if not os.path.exists(os.path.join(d, "patch.diff")):
            continue
        rc, out = sh("git apply %s/patch.diff" % d, REPO)
        if rc:
            print(i, "patch does not apply", out[-200:])
            continue
        try:
            alarms = {}
            for p in props:
                rc, out = sh("./check %s --tier quick" % p)
                if rc != 0:
                    alarms[p] = re.findall(r"^  key=(.+)$", out, re.M) or ["rc=%d %s" % (rc, out[-300:])]
            results[i] = alarms
            sys.stdout.flush(); print(i, "SILENT" if not alarms else "FALSE ALARM %s" % {k: v[:3] for k, v in alarms.items()})
        finally:
            sh("git checkout -- .", REPO)
            sh("git clean -fdq contracts packages", REPO)
    json.dump(results, open(os.path.join(VERIF, "selftest", "%s_results.json" % os.environ.get("WWV_NEUTRAL_DIR", "neutral")), "w"), indent=1)
    bad = sum(1 for v in results.values() if v)
    print("silent on %d of %d refactorings" % (len(results) - bad, len(results)))
    return 0


if __name__ == "__main__":
    sys.exit(main())
