#!/usr/bin/env python3
"""Regenerate the catch matrix of DESIGN.md section 10.4 (between the CATCH-MATRIX markers) from
seeded/<id>/meta.json (written by run_seeded.py) and selftest/own_mutants_results.json."""
import json, os, re

VERIF = os.path.dirname(os.path.dirname(os.path.abspath(__file__)))


def short(keys, n=2):
    out = []
    for k in keys[:n]:
        parts = k.split("|")
        rule = parts[0]
        tail = parts[-1] if len(parts) > 1 else ""
        out.append("%s (%s)" % (rule, tail[:60]))
    more = len(keys) - n
    return "; ".join(out) + (" +%d" % more if more > 0 else "")


def main():
    base = os.path.join(VERIF, "seeded")
    rows = []
    n = det = first = 0
    for i in sorted(os.listdir(base)):
        mp = os.path.join(base, i, "meta.json")
        if not os.path.exists(mp):
            continue
        m = json.load(open(mp))
        n += 1
        prop = m["property"]
        by = m.get("detected_by", {})
        own = by.get(prop, [])
        others = sorted(p for p in by if p != prop and by[p])
        if m.get("detected"):
            det += 1
        hist = m.get("detection_history", "")
        fs = hist.startswith("caught at first sight")
        first += 1 if fs else 0
        rows.append("| %s | %s | %s | %s | %s | %s |" % (
            i, prop, (m.get("needs_to_manifest") or "")[:110].replace("|", "/"),
            short(own) if own else "**missed**", ", ".join(others) or "-", "first sight" if fs else "after strengthening"))
    head = ("%d seeded changes kept (each confirmed in a scratch worktree: demonstration passes without it, fails with it, the "
            "unedited 318-test suite passes with it); %d are reported by the check of their own property, %d of them by the "
            "check as it stood when the change was produced, %d only after the strengthening recorded in each meta.json "
            "(`detection_history`).\n\n" % (n, det, first, det - first))
    table = "| id | property | needs, to manifest | reported by (own property) | also reported under | when |\n|---|---|---|---|---|---|\n" + "\n".join(rows) + "\n"
    p = os.path.join(VERIF, "DESIGN.md")
    s = open(p).read()
    a, b = "<!-- CATCH-MATRIX-BEGIN -->", "<!-- CATCH-MATRIX-END -->"
    if a not in s:
        raise SystemExit("markers missing in DESIGN.md")
    s = s[:s.index(a) + len(a)] + "\n" + head + table + s[s.index(b):]
    open(p, "w").write(s)
    print("matrix: %d rows, %d detected, %d at first sight" % (n, det, first))


if __name__ == "__main__":
    main()
