#!/usr/bin/env python3
"""Run the registered checks against every kept seeded change: apply /verif/seeded/<id>/patch.diff to /repo,
run the property's check (and optionally all checks), undo the change straight afterwards.
usage: run_seeded.py [ids...] [--all-checks]
Development aid, not a registered check."""
import json, os, re, subprocess, sys

VERIF = os.path.dirname(os.path.dirname(os.path.abspath(__file__)))
REPO = "/repo"


def sh(cmd, cwd=VERIF):
    p = subprocess.run(cmd, cwd=cwd, shell=True, capture_output=True, text=True)
    return p.returncode, p.stdout + p.stderr


def main():
    args = [a for a in sys.argv[1:] if not a.startswith("--")]
    allc = "--all-checks" in sys.argv
    base = os.path.join(VERIF, "seeded")
    ids = args or sorted(x for x in os.listdir(base) if os.path.isdir(os.path.join(base, x)))
    manifest = json.load(open(os.path.join(VERIF, "MANIFEST.json")))
    claimed = [c["property_id"] for c in manifest["checks"]]
    rc, out = sh("git status --porcelain", REPO)
    if out.strip():
        print("refusing: /repo has uncommitted changes")
        return 2
    summary = {}
    for i in ids:
        d = os.path.join(base, i)
        meta = json.load(open(os.path.join(d, "meta.json")))
        prop = meta["property"]
        rc, out = sh("git apply %s/patch.diff" % d, REPO)
        if rc:
            print(i, "patch does not apply", out)
            continue
        try:
            props = claimed if allc else ([prop] if prop in claimed else [])
            hits = {}
            for p in props:
                rc, out = sh("./check %s --tier quick" % p)
                v = re.findall(r"^  key=(.+)$", out, re.M)
                if rc == 1:
                    hits[p] = v
                elif rc != 0:
                    hits[p] = ["TOOL-FAILURE rc=%d: %s" % (rc, out[-300:])]
            summary[i] = {"property": prop, "detected": bool(hits.get(prop)), "hits": hits}
            print(i, prop, "DETECTED" if hits.get(prop) else "missed", {k: len(v) for k, v in hits.items()})
            for p, v in hits.items():
                for k in v[:4]:
                    print("     ", p, k[:200])
        finally:
            sh("git checkout -- .", REPO)
            sh("git clean -fdq contracts packages", REPO)
    with open(os.path.join(VERIF, "selftest", "seeded_results.json"), "w") as fh:
        json.dump(summary, fh, indent=1)
    det = sum(1 for v in summary.values() if v["detected"])
    print("detected %d of %d" % (det, len(summary)))
    return 0


if __name__ == "__main__":
    sys.exit(main())
