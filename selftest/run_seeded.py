#!/usr/bin/env python3
"""Run the registered checks against every kept seeded change: apply /verif/seeded/<id>/patch.diff to /repo,
run the property's check (and optionally all checks), undo the change straight afterwards.
usage: run_seeded.py [ids...] [--all-checks]
Development aid, not a registered check."""
import json, os, re, subprocess, sys

VERIF = os.path.dirname(os.path.dirname(os.path.abspath(__file__)))
REPO = "/repo"


FIRST_MISSED = {
    "C14a": "C14-S1/C01-V1 fee-looked-up-for-the-reduced-asset (the pending fee must be looked up by the id of the asset whose balance it reduces)",
    "C12a": "C12-L3 now requires a latest-entry accessor of asset_history (last_key_value / next_back), not any dependence on asset_history",
    "C17b": "C17-P4 (each flag stored by update_config comes from the same-named request field) was planned in DESIGN but not built",
    "C19a": "C19-R1 now also covers the pagination cursor closures (calc_range_start / trio_calc_range_start must sort like the key functions)",
    "C05b": "C05-V2 (deposit excluded from the pricing balance iff it has already arrived; provenance evaluated per asset-kind configuration)",
    "C13b": "C13-W1 now requires the weight to be read, saved, recorded in history and the position stored under one and the same address",
    "C09b": "C09-D5 (the expiring epoch is selected from exactly the claimable window: sibling multiset comparison with get_claimable_epochs)",
    "C03b": "C03 was declared not applicable; the wiring-only check C03-Y3 (operand order of the stableswap mint helper) was added afterwards",
    "C03a": "C03 was declared not applicable; caught by C14-S3 decimals table at first sight, and by C03-Y2 once C03 existed",
}


def sh(cmd, cwd=VERIF):
    p = subprocess.run(cmd, cwd=cwd, shell=True, capture_output=True, text=True)
    return p.returncode, p.stdout + p.stderr


def main():
    args = [a for a in sys.argv[1:] if not a.startswith("--")]
    allc = "--all-checks" in sys.argv
    base = os.path.join(VERIF, "seeded")
    ids = args or sorted(x for x in os.listdir(base) if os.path.isdir(os.path.join(base, x)))
    manifest = json.load(open(os.path.join(VERIF, "MANIFEST.json")))
    claimed = [c["property_id"] for c in manifest["checks"]]
    rc, out = sh("git status --porcelain", REPO)
    if out.strip():
        print("refusing: /repo has uncommitted changes")
        return 2
    summary = {}
    for i in ids:
        d = os.path.join(base, i)
        meta = json.load(open(os.path.join(d, "meta.json")))
        prop = meta["property"]
        rc, out = sh("git apply %s/patch.diff" % d, REPO)
        if rc:
            print(i, "patch does not apply", out)
            continue
        try:
            props = claimed if allc else ([prop] if prop in claimed else [])
            hits = {}
            for p in props:
                rc, out = sh("./check %s --tier quick" % p)
                v = re.findall(r"^  key=(.+)$", out, re.M)
                if rc == 1:
                    hits[p] = v
                elif rc != 0:
                    hits[p] = ["TOOL-FAILURE rc=%d: %s" % (rc, out[-300:])]
            summary[i] = {"property": prop, "detected": bool(hits.get(prop)), "hits": hits}
            meta["detected_by"] = {p_: v_[:6] for p_, v_ in hits.items()}
            meta["detected"] = bool(hits.get(prop))
            if i in FIRST_MISSED:
                meta["detection_history"] = "missed by the first version of the check; caught after strengthening: " + FIRST_MISSED[i]
            elif "detection_history" not in meta:
                meta["detection_history"] = "caught at first sight by the check as it stood when the change was produced"
            json.dump(meta, open(os.path.join(d, "meta.json"), "w"), indent=1)
            print(i, prop, "DETECTED" if hits.get(prop) else "missed", {k: len(v) for k, v in hits.items()})
            for p, v in hits.items():
                for k in v[:4]:
                    print("     ", p, k[:200])
        finally:
            sh("git checkout -- .", REPO)
            sh("git clean -fdq contracts packages", REPO)
    with open(os.path.join(VERIF, "selftest", "seeded_results.json"), "w") as fh:
        json.dump(summary, fh, indent=1)
    det = sum(1 for v in summary.values() if v["detected"])
    print("detected %d of %d" % (det, len(summary)))
    return 0


if __name__ == "__main__":
    sys.exit(main())
