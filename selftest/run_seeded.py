#!/usr/bin/env python3
"""Run the registered checks against every kept seeded change: apply /verif/seeded/<id>/patch.diff to /repo,
run the property's check (and optionally all checks), undo the change straight afterwards.
usage: run_seeded.py [ids...] [--all-checks]
Development aid, not a registered check."""
import json, os, re, subprocess, sys

VERIF = os.path.dirname(os.path.dirname(os.path.abspath(__file__)))
REPO = os.environ.get("WWV_REPO", "/repo")   # a dev worktree may stand in for /repo


FIRST_MISSED = {
    "C08m": "C08-B3 the same-block merge read lies on EVERY path to the UNBOND.save (merge moved into the partial-unbond branch)",
    "C17m": "C17-P4 always-when-named: with feature_toggle present no path reaches CONFIG.save without assigning it (toggle chained as else-if behind pool_fees)",
    "C12j": "C12-L3 the refund's funded total comes from the LAST asset_history entry, not from the epoch-bounded lookup helper",
    "C12l": "C12-L1 the cumulative total recorded by an expansion is computed from reads made after the reset",
    "C13j": "C13-W2 the snapshot of the previous position amount is taken before the amount is increased",
    "C14l": "C14-S2 fee booking of swap (C07-F1/F4 caught it at first sight, now filed under C14 too)",
    "C15k": "C15-M3 the slippage check's reserves are net of pending fees for every asset kind (C01-V1 caught it at first sight)",
    "C15l": "C15-M4 with minimum_receive given no successful return skips the assertion message",
    "C16j": "C16-owner-transfer the stored owner is the RESULT of addr_validate / addr_canonicalize",
    "C17j": "C17-P4 a flag is assigned only when the request names it (unreachable with the field None)",
    "C18l": "C18-store no CONFIG.save precedes a point where the handler can still reject",
    "C20l": "C20-E5 the epoch the hooks are told about has the provenance of the epoch that was saved",
    "C01j": "C01-V6 constant-product share = min_i(deposit_i.multiply_ratio(total_share, pool_i)), same pool position on both sides",
    "C01k": "C01-V1 every reserve handed to the pricing routine is net of pending fees on every reaching definition",
    "C01l": "C01-V1 / C07-F3 the pending ledger is written back on every path to a successful return",
    "C02k": "the check crashed (non-constant pool index in a direction table): rule exceptions are now reported as unrecognised-construct violations; also caught by C02-T3 reserves-net-of-pending-fees",
    "C02l": "C02-T3 / C18-store a struct validated as a whole but stored field by field must assign every field the validator reads",
    "C03j": "C03-Y7 pending (not all-time) fees excluded wherever the pair reads its balances (C01-V1 caught it at first sight)",
    "C03k": "C03-Y8 the amplification a solver is given is used unmodified (only converted, multiplied by the coin count, forwarded)",
    "C03l": "C03-Y9 no convergence test of a solver compares a value with itself",
    "C05k": "C05-V7 flash_loan snapshots the raw queried balance (C06-X2 caught it at first sight)",
    "C05l": "C05-V7 the pending-fee ledger grows by exactly this loan's protocol fee through store_fee (C07-F1 caught it at first sight)",
    "C06l": "C06-X4 every successful return of flash_loan has scheduled the AfterTrade callback",
    "C08j": "C08-B4 UNBOND.remove uses the key the range iteration yielded for the record",
    "C08k": "C08-B2 GLOBAL.bonded_assets is changed only through aggregate_assets / deduct_assets (no in-place Vec edit)",
    "C09j": "C09-D9 every EPOCHS key is id.to_be_bytes() (key order == id order for the range scans)",
    "C10l": "C10-Q8 rollover = the expiring epoch's `available` (C09-D3 caught it at first sight)",
    "C11g": "C11-K4 the payout is skipped only for a closed total of exactly zero (ordering-domain walk)",
    "C11h": "C11-K3 every index into the open-position list in close_position is the position(..) lookup result",
    "C12i": "C12-L1 expand_flow's FLOWS.save is dominated by stored flow asset == offered asset, whatever the asset kind",
    "C14i": "C14-S1 / C04-V1 the pending-fee deduction does not hang on one side of an asset-identity test",
    "C17i": "C17-P5 the frontend helper's reply propagates a rejected deposit (C11-K5 caught it at first sight)",
    "C03g": "C03-Y5 / C04-A5 the two sibling deposit-side solvers use the same constant iteration bound",
    "C03h": "C03-Y3 rewritten: deposit_i handed to the mint helper is the amount found for pools[i] (pool order), not the caller's order",
    "C05g": "C05-V8 operator tree of the minted shares: (amount * total_share) / (balance - pending fees - arrived deposit), product first",
    "C06h": "C06-X3 each fee is booked as what it is (C07-F1's vault rule, filed under C06 too)",
    "C07h": "C07-F6 every reader of pool balances subtracts the PENDING ledger (C04-V1 caught it at first sight)",
    "C07i": "C07-F6 / C01-V1 the pending-fee deduction is reachable for cw20 and native pool assets alike",
    "C08h": "C08-B3 the same-block merge reads UNBOND under the very key it saves to",
    "C09h": "C09-D1 every Asset{amount: reward} (payout, claimed entry) carries the fee entry's own asset info",
    "C09i": "C09-D1 each available / claimed update is dominated by `entry.info == fee.info`",
    "C10h": "C10-Q3 the recorded take-rate amount is the fee itself, not the remainder computed from it",
    "C18e": "C18-amp the stored initial_amp is compute_amp_factor(): interpolation adds on the way up and subtracts on the way down (C04-A4 caught it at first sight)",
    "C19e": "C19-R7 the route-validating simulation visits every hop (no exit from the loop except the iterator running out or an error)",
    "C20e": "C20-E9 the epoch manager stores its start epoch only when genesis_epoch == start_epoch.start_time",
    "C20f": "C20-E6 extended to the entry points: no admin assertion / sender comparison in front of the creating arm",
    "C09e": "C09-D7 validate_claimed(..)? dominates every write of whale_lair bond/unbond, applied to the sender, rejecting a non-empty claimable list",
    "C09f": "C09-D8 the v0.9.1 migration refunds exactly the field it empties (`available`)",
    "C10e": "C10-Q7 each optional collector setting is assigned with only its own request field present (no nesting under another field's Some arm)",
    "C10f": "C10-Q5 the Vaults / Pairs listing queries carry the selected FactoryType's own start_after and limit",
    "C12e": "C12-L8 positions recorded only for LP actually received (C11-K2 caught it at first sight; LP and reward funds share one balance)",
    "C12f": "C12-L9 the v1.0.6 migration copies every pre-existing Flow field from the same-named old field",
    "C14e": "C14-S3 curve inputs: StableSwap::new(.., env.block.height, ..) on every path (C04-A6, filed under C14 too)",
    "C15e": "C15-M1 every entry path (message and cw20 hook) forwards the request's own belief_price / max_spread to swap",
    "C15f": "C15-M3 the deposits handed to assert_slippage_tolerance are in pool order (element i found for pools[i])",
    "C16f": "C16-guard every successful return of a privileged variant's handler is guard-dominated (not only its effects)",
    "C06f": "C06-X6 router-keeps-nothing (ordering-domain walk over the profit: the transfer is skipped only for a profit of exactly 0)",
    "C08e": "C08-B2 weight helpers return and save the record they were given (nothing loaded from storage)",
    "C08f": "C08-B5 the Unbonding query's cursor is an exclusive lower bound",
    "C02e": "C02-T3 now includes V1 (every reader of pool balances subtracts the pending fees); C01-V1 caught it at first sight",
    "C02f": "C02-T3 precondition of T1: every path storing pool_fees validates the whole triple (C18-store caught it at first sight)",
    "C04e": "C04-V1 pool-side collection (C07-F3 / C10-Q6 caught it at first sight, now filed under C04 and C01 too)",
    "C04f": "C04-A6 every StableSwap is built from the stored ramp and env.block.height (parameters resolved through the call sites)",
    "C03e": "C03-Y6 floor-family rounding on the pair's deposit / withdrawal / swap paths (C01-V5 caught it at first sight)",
    "C03f": "C03-Y5 Newton step operator tree (Ann*S + Dp*n)*d / ((Ann-1)*d + (n+1)*Dp) with Ann = amp*n (also C04-A5 for the 3pool)",
    "C07e": "C07-F1 balance snapshot of flash_loan is the raw queried balance (C06-X2 caught it at first sight, now filed under C07 too)",
    "C07f": "C07-F1 / C03-Y1 result-field mapping of compute_swap in BOTH pair-type arms (C02-T2 only covered the constant-product arm)",
    "C05f": "C05-V7 settlement requires old balance + all three fees (C06-X3 caught it at first sight, now filed under C05 too)",
    "C06c": "C06-X6 initiator/loaned_assets threading (the CompleteLoan/NextLoan built by next_loan carry the handled NextLoan's initiator)",
    "C11c": "C11-K6 position lists are edited in place (update closures return the list they were given)",
    "C18c": "C18-vault-burn now requires the factory-asset/burn-share test to guard every path from new fees to CONFIG.save (was: operand only)",
    "C19d": "C19-R8 cursor successor byte (one constant byte <= 0x20 appended to the returned cursor, exclusive bound)",
    "C16c": "C16 NextLoan guard is now the conjunction sender==source_vault AND factory.Vault(asset)==source_vault (looked-up value only); C06-X6 caught it at first sight",
    "C16d": "C16-owner-init (CONFIG.owner := InstantiateMsg.owner when the message struct has that field, else info.sender; field list emitted by the driver)",
    "C10c": "C10-Q6 (pool/vault side of collection: reset iff transfer) -- C07-F3 caught it at first sight, now filed under C10 too",
    "C07c": "C07-F5 ledger initialisation (one zero entry per pool asset, in pool order, for each of the three ledgers)",
    "C08d": "C08-B2 bonded_assets pairing now requires the helper's list to be exactly [declared asset] (was: tainted by it)",
    "C01c": "C01-V1 raw-balance-only-feeds-the-fee-subtraction (needed kill-aware parameter origins)",
    "C01d": "C01-V4 withdraw hook authorised by the LP token (C16-hook caught it at first sight, now filed under C01/C04/C05 too)",
    "C04c": "C04-A4 interpolation operator tree (product before division) via expr_shape/norm_shape",
    "C05c": "C05-V6 loan-counter protocol (C06-X4 caught it at first sight, now filed under C05 too)",
    "C05d": "C05-V4 direct-withdraw: funds[0].denom compared with the stored LP denom, amount = funds[0].amount (also for pair and 3pool)",
    "C02c": "C02-T3 swap wiring (C01-V1 / C14-S1 caught it at first sight, now filed under C02 too)",
    "C02d": "C02-T3 funds validated before pricing in swap (C01-V3 caught it at first sight, now filed under C02 too)",
    "C03c": "C03-Y4 mint helper: compute_d(pool_i + deposit_i) same index, mint = supply*(d1-d0)/d0 (needed constant-index array selection in provenance)",
    "C03d": "C03-Y5 compute_d symmetric in its two reserves (node/consumer signatures invariant under exchanging the parameters)",
    "C13d": "C13-W7 claim / rewards query / share query replay an INCLUSIVE range ending at the current epoch",
    "C12c": "C12-L7 the stored new claimed total is the quantity the dominating `> funded` test rejects (C13-W5 caught it at first sight)",
    "C15d": "C15-M3 slippage clauses: both constant-product orientations and the stableswap clause reject STRICTLY beyond the bound (needed index-preserving projections)",
    "C20c": "C20-E7 distributor epoch_config validated on every storing path (C18-store caught it at first sight, now filed under C20 too)",
    "C20d": "C20-E8 Epoch{id} query derives a past start from the stored clock: current.start - duration*(current.id - id)",
    "C09d": "C09-D6 forwarded epochs filtered by `available`, and a reward needs an entry found in epoch.available",
    "C14a": "C14-S1/C01-V1 fee-looked-up-for-the-reduced-asset (the pending fee must be looked up by the id of the asset whose balance it reduces)",
    "C12a": "C12-L3 now requires a latest-entry accessor of asset_history (last_key_value / next_back), not any dependence on asset_history",
    "C17b": "C17-P4 (each flag stored by update_config comes from the same-named request field) was planned in DESIGN but not built",
    "C19a": "C19-R1 now also covers the pagination cursor closures (calc_range_start / trio_calc_range_start must sort like the key functions)",
    "C05b": "C05-V2 (deposit excluded from the pricing balance iff it has already arrived; provenance evaluated per asset-kind configuration)",
    "C13b": "C13-W1 now requires the weight to be read, saved, recorded in history and the position stored under one and the same address",
    "C09b": "C09-D5 (the expiring epoch is selected from exactly the claimable window: sibling multiset comparison with get_claimable_epochs)",
    "C03b": "C03 was declared not applicable; the wiring-only check C03-Y3 (operand order of the stableswap mint helper) was added afterwards",
    "C03a": "C03 was declared not applicable; caught by C14-S3 decimals table at first sight, and by C03-Y2 once C03 existed",
}


def sh(cmd, cwd=VERIF):
    p = subprocess.run(cmd, cwd=cwd, shell=True, capture_output=True, text=True)
    return p.returncode, p.stdout + p.stderr


def main():
    args = [a for a in sys.argv[1:] if not a.startswith("--")]
    allc = "--all-checks" in sys.argv
    base = os.path.join(VERIF, "seeded")
    ids = args or sorted(x for x in os.listdir(base) if os.path.isdir(os.path.join(base, x)))
    manifest = json.load(open(os.path.join(VERIF, "MANIFEST.json")))
    claimed = [c["property_id"] for c in manifest["checks"]]
    rc, out = sh("git status --porcelain", REPO)
    if out.strip():
        print("refusing: /repo has uncommitted changes")
        return 2
    summary = {}
    for i in ids:
        d = os.path.join(base, i)
        meta = json.load(open(os.path.join(d, "meta.json")))
        prop = meta["property"]
        rc, out = sh("git apply %s/patch.diff" % d, REPO)
        if rc:
            print(i, "patch does not apply", out)
            continue
        try:
            props = claimed if allc else ([prop] if prop in claimed else [])
            hits = {}
            for p in props:
                rc, out = sh("./check %s --tier quick" % p)
                v = re.findall(r"^  key=(.+)$", out, re.M)
                if rc == 1:
                    hits[p] = v
                elif rc != 0:
                    hits[p] = ["TOOL-FAILURE rc=%d: %s" % (rc, out[-300:])]
            summary[i] = {"property": prop, "detected": bool(hits.get(prop)), "hits": hits}
            meta["detected_by"] = {p_: v_[:6] for p_, v_ in hits.items()}
            meta["detected"] = bool(hits.get(prop))
            if i in FIRST_MISSED:
                meta["detection_history"] = "missed by the first version of the check; caught after strengthening: " + FIRST_MISSED[i]
            elif "detection_history" not in meta:
                meta["detection_history"] = "caught at first sight by the check as it stood when the change was produced"
            json.dump(meta, open(os.path.join(d, "meta.json"), "w"), indent=1)
            print(i, prop, "DETECTED" if hits.get(prop) else "missed", {k: len(v) for k, v in hits.items()})
            for p, v in hits.items():
                for k in v[:4]:
                    print("     ", p, k[:200])
        finally:
            sh("git checkout -- .", REPO)
            sh("git clean -fdq contracts packages", REPO)
    with open(os.path.join(VERIF, "selftest", "seeded_results.json"), "w") as fh:
        json.dump(summary, fh, indent=1)
    det = sum(1 for v in summary.values() if v["detected"])
    print("detected %d of %d" % (det, len(summary)))
    return 0


if __name__ == "__main__":
    sys.exit(main())
